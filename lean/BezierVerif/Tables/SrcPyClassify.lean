import BezierVerif.Generated.SrcPy
import BezierVerif.Tables.SrcPyKernels
import BezierVerif.Model.ClassifySrc
import BezierVerif.Model.Walk
import Mathlib.Algebra.Order.Field.Basic
import Mathlib.Tactic.Ring
import Mathlib.Tactic.Linarith

/-!
# Tables/SrcPyClassify — decision logic of the triangle-triangle intersection (phase 4 of the source tie, property C06)

Generated definitions: `Generated/SrcPy.lean` (rewritten on every run by `harness/translate_py.py`), source files
`hazmat/triangle_helpers.py` and (last three rows) `hazmat/triangle_intersection.py`.

| source routine                    | theorem                                  | model definition                                         | domain / hypotheses |
|-----------------------------------|------------------------------------------|----------------------------------------------------------|---------------------|
| IntersectionClassification        | `classification_codes_src`               | `Classify.Cls.code` / `Cls.ofCode`                       | the enum integers read from the class body |
| handle_ends                       | `handle_ends_src`                        | `Classify.handleEnds`                                    | every `K`, all inputs |
| is_first / is_second              | `is_first_src`, `is_second_src`          | `Classify.isFirst`, `isSecond`                           | every `K`, all inputs (incl. `None`) |
| ignored_edge_corner               | `ignored_edge_corner_src`                | `Classify.ignoredEdgeCorner`                             | field; 2-entry tangents, previous edge a planar net with ≥ 2 nodes |
| ignored_double_corner             | `ignored_double_corner_src`              | `Classify.ignoredDoubleCorner`                           | field; three planar edges per triangle; `index_first/second` not `None` |
| ignored_corner                    | `ignored_corner_src`                     | `Classify.ignoredCorner`                                 | as above |
| classify_tangent_intersection     | `classify_tangent_intersection_src`      | `Classify.classifyTangentCurv` (Model/ClassifySrc)       | every `K`, every curvature routine; `s`, `t` not `None` |
|                                   | `classifyTangentCurv_eq`                 | `Classify.classifyTangent`                               | ordered field; `κᵢ = cᵢ / eᵢ`, `eᵢ > 0`, `eᵢ² = nᵢ³`, `nᵢ > 0` |
| classify_intersection             | `classify_intersection_src`              | `Classify.classifyIntersectionCurv 55` (Model/ClassifySrc) | field; every curvature routine; edge indices `< 3`; three planar edges per triangle |
|                                   | `classifyIntersectionCurv_eq`            | `Classify.classifyIntersection 55`                       | ordered field; curvature routine = first part / positive root of `n³`; non-vanishing tangents |
|                                   | `classify_intersection_model_src`        | `Classify.classifyIntersection 55`                       | the two combined |
| ends_to_curve                     | `ends_to_curve_src`                      | `Classify.endsToCurve`                                   | every `K`; both nodes with all four slots set |
| get_next_first / get_next_second  | `get_next_first_src`, `get_next_second_src` (`fold_along`) | `Walk.getNextFirst`, `getNextSecond` (`alongLoop`) | every `K`; `s` (resp. `t`) of the node and of every list element set |
| get_next_coincident               | `get_next_coincident_src`                | `Walk.getNextCoincident`                                 | every `K`; as above for both parameters |
| get_next                          | `get_next_src`                           | `Walk.Py.getNext` (incl. the `ValueError` branch, `consume`) | every `K`; as above |
| to_front                          | `to_front_src` (`forM_find`)             | `Walk.toFrontNode`                                       | every `K`; `index_first`, `index_second` of the node set |
| tangent_only_intersections        | `tangent_only_intersections_src`         | `Walk.Py.tangentOnly`                                    | every `K`, every set |
| no_intersections                  | `no_intersections_src`                   | `Walk.noIntersections`                                   | every `K`; two rows with ≥ 1 node; `locate_point` a parameter |
| combine_intersections             | `combine_intersections_src`              | `Walk.Py.combineIntersections 10`                        | every `K`; `basic_interior_combine` a parameter assumed = `Py.basicInteriorCombine 10` |
| classify_coincident (triangle_intersection.py) | `classify_coincident_src`   | `Classify.classifyCoincident`                            | every `K`; `2 × N`, `N ≥ 2` |
| should_use (triangle_intersection.py)          | `should_use_src`            | `Classify.shouldUse`                                     | every `K`, all inputs |
| check_unused (triangle_intersection.py)        | `check_unused_src`          | `Walk.Py.checkUnused` (+ the append to `duplicates`)     | every `K`, all inputs |

OBJECT IDENTITY.  `to_front`, `get_next*` return / test OBJECTS (`result in unused`, `next_node is not start` in the caller).  The
translator represents an element of the list `intersections` as the reference `WNode` with `pos = some i` (kind OL / REF), a new
`Intersection(...)` as `pos = none`, and the list `unused` (elements of `intersections`) as the list of positions - the same
representation the hand-written model `Model/Walk.lean` chose; `Intersection` defines no `__eq__`, so `in` / `remove` are identity.

`get_curvature` is NOT translated (`np.linalg.norm(..) ** 3`): it is the explicit parameter `gc` of the generated
definitions (`ABSTRACT` in the translator).  What the model needs of it is a hypothesis (`CurvatureSpec`): the value is the
model's first curvature part `T × C` divided by a positive number whose square is `(‖T‖²)³` - the statement of
`Tables/SrcF90Kernels.get_curvature_eq` for the Fortran twin with `‖T‖³` for that number.

Where the model deviates from the source, exactly:
* a vanishing tangent (`n = ‖T‖² = 0`, reached only in the tangent case): the library divides by zero (NaN curvature,
  every comparison false, `NotImplementedError`), the model answers `badInput`; hypothesis `hn1`, `hn2` of `classifyIntersectionCurv_eq`;
* `None` in `index_first` / `s` / `index_second` / `t` (a `TypeError` in Python = `Err.badInput` in the generated definition):
  the model takes plain numbers; the theorems are stated for intersections whose four fields are set.
-/

set_option linter.unusedSectionVars false
set_option linter.unusedVariables false
set_option linter.unusedSimpArgs false

namespace BezierVerif.SrcPyClassify

open BezierVerif BezierVerif.Model BezierVerif.Model.Classify BezierVerif.Model.Walk BezierVerif.SrcPyKernels

section AnyK

variable {K : Type} [Add K] [Sub K] [Mul K] [Div K] [Neg K] [OfNat K 0] [OfNat K 1] [NatCast K]
  [LT K] [DecidableLT K] [LE K] [DecidableLE K] [DecidableEq K]

/-- the integers of `IntersectionClassification` (read from the class body on every run) are the model's codes -/
theorem classification_codes_src :
    Cls.ofCode Src.Py.IntersectionClassification.FIRST = some .first ∧
    Cls.ofCode Src.Py.IntersectionClassification.SECOND = some .second ∧
    Cls.ofCode Src.Py.IntersectionClassification.OPPOSED = some .opposed ∧
    Cls.ofCode Src.Py.IntersectionClassification.TANGENT_FIRST = some .tangentFirst ∧
    Cls.ofCode Src.Py.IntersectionClassification.TANGENT_SECOND = some .tangentSecond ∧
    Cls.ofCode Src.Py.IntersectionClassification.IGNORED_CORNER = some .ignoredCorner ∧
    Cls.ofCode Src.Py.IntersectionClassification.TANGENT_BOTH = some .tangentBoth := by
  decide

/-- `handle_ends` -/
theorem handle_ends_src (index1 : Nat) (s : K) (index2 : Nat) (t : K) :
    Src.Py.handle_ends index1 s index2 t = handleEnds index1 s index2 t := by
  unfold Src.Py.handle_ends handleEnds
  by_cases hs : s = 1 <;> by_cases ht : t = 1 <;> simp [hs, ht]

/-- `is_first` (any classification, `None` included) -/
theorem is_first_src (c : Option Cls) : Src.Py.is_first c = isFirst c := by
  rcases c with _ | c
  · rfl
  · cases c <;> rfl

/-- `is_second` -/
theorem is_second_src (c : Option Cls) : Src.Py.is_second c = isSecond c := by
  rcases c with _ | c
  · rfl
  · cases c <;> rfl

/-- `Except.map some` on the model's answer: the source returns the enum member -/
def encCls (r : Except Err Cls) : Except Err (Option Cls) :=
  match r with
  | .ok c => .ok (some c)
  | .error e => .error e

/-- **`classify_tangent_intersection`** for EVERY curvature routine `gc` and every number type: the source's decision on
    `np.sign` / `abs` / `<` of the two curvatures is `Classify.classifyTangentCurv` -/
theorem classify_tangent_intersection_src (gc : List (List K) → List K → K → K) (i1 i2 : Option Nat) (s t : K)
    (c : Option Cls) (nodes1 : List (List K)) (tangent1 : List K) (nodes2 : List (List K)) (tangent2 : List K) :
    Src.Py.classify_tangent_intersection gc { indexFirst := i1, s := some s, indexSecond := i2, t := some t, interior := c }
        nodes1 tangent1 nodes2 tangent2 =
      encCls (classifyTangentCurv (dot tangent1 tangent2) (gc nodes1 tangent1 s) (gc nodes2 tangent2 t)) := by
  unfold Src.Py.classify_tangent_intersection classifyTangentCurv
  simp only [Src.Py.Rt.unwrap, Src.Py.Rt.bind_ok, Src.Py.Rt.sign, sgnK]
  repeat' split
  all_goals first | rfl | contradiction

end AnyK

section Field

variable {F : Type} [Field F] [LinearOrder F]

/-- a planar control net with at least two nodes: two rows of equal length `≥ 2` -/
def PlanarNet (e : List (List F)) : Prop := ∃ r0 r1, e = [r0, r1] ∧ 2 ≤ r0.length ∧ r1.length = r0.length

/-- the three edge nets of a triangle (`compute_edge_nodes`) -/
def Edges (es : List (List (List F))) : Prop := es.length = 3 ∧ ∀ e ∈ es, PlanarNet e

theorem hodograph_ok (e : List (List F)) (h : PlanarNet e) (s : F) :
    Src.Py.evaluate_hodograph s e = .ok (hodograph 55 e s) := by
  obtain ⟨r0, r1, rfl, hn, h1⟩ := h
  refine evaluate_hodograph_src [r0, r1] r0.length hn (by simp) ?_ s
  intro r hr
  simp only [List.mem_cons, List.not_mem_nil, or_false] at hr
  rcases hr with rfl | rfl
  · rfl
  · exact h1

theorem hodograph_pair (e : List (List F)) (h : PlanarNet e) (s : F) : ∃ a b, hodograph 55 e s = [a, b] := by
  obtain ⟨r0, r1, rfl, _, _⟩ := h
  exact ⟨_, _, rfl⟩

theorem cross_pair (a b c d : F) : Src.Py.cross_product (a, b) (c, d) = cross2 [a, b] [c, d] := rfl

theorem lidx_getD {α : Type} (l : List α) (k : Nat) (d : α) (h : k < l.length) :
    Src.Py.Rt.lidx l k = .ok (l.getD k d) := by
  simp [Src.Py.Rt.lidx, List.getD_eq_getElem?_getD, List.getElem?_eq_getElem h]

theorem edges_getD (es : List (List (List F))) (h : Edges es) (k : Nat) (hk : k < 3) : PlanarNet (es.getD k []) := by
  have hl : k < es.length := by rw [h.1]; exact hk
  rw [List.getD_eq_getElem?_getD, List.getElem?_eq_getElem hl]
  exact h.2 _ (List.getElem_mem hl)

/-- Python's `(i - 1) % 3` -/
theorem prev_index (i : Nat) : Int.toNat (Int.emod ((i : Int) - (1 : Int)) 3) = (i + 2) % 3 := by
  have : Int.emod ((i : Int) - 1) 3 = ((i : Int) - 1) % 3 := rfl
  rw [this]
  omega

/-- **`ignored_edge_corner`** (tangents with two entries, the previous edge a planar net) -/
theorem ignored_edge_corner_src (a b c d : F) (prev : List (List F)) (h : PlanarNet prev) :
    Src.Py.ignored_edge_corner [a, b] [c, d] prev = .ok (ignoredEdgeCorner [a, b] [c, d] (hodograph 55 prev 1)) := by
  unfold Src.Py.ignored_edge_corner ignoredEdgeCorner
  rw [hodograph_ok prev h]
  obtain ⟨p, q, hpq⟩ := hodograph_pair prev h 1
  rw [hpq]
  simp only [Src.Py.Rt.asPt, Src.Py.Rt.bind_ok, negVec, List.map_cons, List.map_nil, cross_pair, gt_iff_lt]
  by_cases h0 : 0 < cross2 [a, b] [c, d] <;> simp only [h0, if_true, if_false, ↓reduceIte] <;> first | rfl | congr!

/-- **`ignored_double_corner`** -/
theorem ignored_double_corner_src (i1 i2 : Nat) (os ot : Option F) (cl : Option Cls) (a b c d : F)
    (es1 es2 : List (List (List F))) (h1 : Edges es1) (h2 : Edges es2) :
    Src.Py.ignored_double_corner { indexFirst := some i1, s := os, indexSecond := some i2, t := ot, interior := cl }
        [a, b] [c, d] es1 es2 =
      .ok (ignoredDoubleCorner [a, b] [c, d] (hodograph 55 (es1.getD ((i1 + 2) % 3) []) 1)
        (hodograph 55 (es2.getD ((i2 + 2) % 3) []) 1)) := by
  have k1 : (i1 + 2) % 3 < 3 := Nat.mod_lt _ (by omega)
  have k2 : (i2 + 2) % 3 < 3 := Nat.mod_lt _ (by omega)
  have p1 := edges_getD es1 h1 _ k1
  have p2 := edges_getD es2 h2 _ k2
  unfold Src.Py.ignored_double_corner ignoredDoubleCorner
  simp only [Src.Py.Rt.unwrap, Src.Py.Rt.bind_ok, prev_index]
  rw [lidx_getD es1 _ [] (by rw [h1.1]; exact k1), lidx_getD es2 _ [] (by rw [h2.1]; exact k2)]
  simp only [Src.Py.Rt.bind_ok]
  rw [hodograph_ok _ p1, hodograph_ok _ p2]
  obtain ⟨p, q, hpq⟩ := hodograph_pair _ p1 1
  obtain ⟨u, v, huv⟩ := hodograph_pair _ p2 1
  rw [hpq, huv]
  simp only [Src.Py.Rt.asPt, Src.Py.Rt.bind_ok, negVec, List.map_cons, List.map_nil, cross_pair, gt_iff_lt]
  by_cases c1 : 0 ≤ cross2 [a, b] [c, d] <;> by_cases c2 : 0 ≤ cross2 [p, q] [c, d] <;>
    by_cases c3 : 0 ≤ cross2 [a, b] [u * -1, v * -1] <;> by_cases c4 : 0 ≤ cross2 [p, q] [u * -1, v * -1] <;>
    simp only [c1, c2, c3, c4, if_true, if_false, and_true, and_false, true_and, false_and, Src.Py.Rt.bind_ok,
      ↓reduceIte] <;> first | rfl | congr!

/-- **`ignored_corner`** -/
theorem ignored_corner_src (i1 i2 : Nat) (s t : F) (cl : Option Cls) (a b c d : F)
    (es1 es2 : List (List (List F))) (h1 : Edges es1) (h2 : Edges es2) :
    Src.Py.ignored_corner { indexFirst := some i1, s := some s, indexSecond := some i2, t := some t, interior := cl }
        [a, b] [c, d] es1 es2 =
      .ok (ignoredCorner s t [a, b] [c, d] (hodograph 55 (es1.getD ((i1 + 2) % 3) []) 1)
        (hodograph 55 (es2.getD ((i2 + 2) % 3) []) 1)) := by
  have k1 : (i1 + 2) % 3 < 3 := Nat.mod_lt _ (by omega)
  have k2 : (i2 + 2) % 3 < 3 := Nat.mod_lt _ (by omega)
  unfold Src.Py.ignored_corner ignoredCorner
  simp only [Option.some.injEq, Src.Py.Rt.unwrap, Src.Py.Rt.bind_ok, prev_index]
  by_cases hs : s = 0 <;> by_cases ht : t = 0 <;> simp only [hs, ht, if_true, if_false, ↓reduceIte]
  · exact ignored_double_corner_src i1 i2 _ _ cl a b c d es1 es2 h1 h2
  · rw [lidx_getD es1 _ [] (by rw [h1.1]; exact k1)]
    exact ignored_edge_corner_src c d a b _ (edges_getD es1 h1 _ k1)
  · rw [lidx_getD es2 _ [] (by rw [h2.1]; exact k2)]
    exact ignored_edge_corner_src a b c d _ (edges_getD es2 h2 _ k2)

/-- **`classify_intersection`** for every curvature routine `gc`: the translated source is
    `Classify.classifyIntersectionCurv gc 55` (Model/ClassifySrc: the model's `classifyIntersection` with the curvature
    numbers in place of the curvature parts) -/
theorem classify_intersection_src (gc : List (List F) → List F → F → F) (i1 i2 : Nat) (s t : F) (cl : Option Cls)
    (es1 es2 : List (List (List F))) (h1 : Edges es1) (h2 : Edges es2) (hi1 : i1 < 3) (hi2 : i2 < 3) :
    Src.Py.classify_intersection gc { indexFirst := some i1, s := some s, indexSecond := some i2, t := some t, interior := cl }
        es1 es2 =
      encCls (classifyIntersectionCurv gc 55 i1 s i2 t es1 es2) := by
  have p1 := edges_getD es1 h1 i1 hi1
  have p2 := edges_getD es2 h2 i2 hi2
  unfold Src.Py.classify_intersection classifyIntersectionCurv classifyWithTangentsCurv
  simp only [Option.some.injEq, Src.Py.Rt.unwrap, Src.Py.Rt.bind_ok]
  rw [lidx_getD es1 _ [] (by rw [h1.1]; exact hi1), lidx_getD es2 _ [] (by rw [h2.1]; exact hi2)]
  simp only [Src.Py.Rt.bind_ok]
  rw [hodograph_ok _ p1, hodograph_ok _ p2]
  obtain ⟨a, b, hab⟩ := hodograph_pair _ p1 s
  obtain ⟨c, d, hcd⟩ := hodograph_pair _ p2 t
  simp only [Src.Py.Rt.bind_ok, hab, hcd]
  rw [ignored_corner_src i1 i2 s t cl a b c d es1 es2 h1 h2]
  simp only [Src.Py.Rt.bind_ok, Src.Py.Rt.asPt, cross_pair, gt_iff_lt, almostTangent]
  by_cases hst : s = 1 ∨ t = 1
  · simp only [hst, if_true, ↓reduceIte]; rfl
  · simp only [hst, if_false, ↓reduceIte]
    by_cases hig : ignoredCorner s t [a, b] [c, d] (hodograph 55 (es1.getD ((i1 + 2) % 3) []) 1)
        (hodograph 55 (es2.getD ((i2 + 2) % 3) []) 1) = true
    · simp only [hig, if_true, ↓reduceIte]; rfl
    · simp only [hig, if_false, ↓reduceIte]
      by_cases hf : cross2 [a, b] [c, d] < -q 1 1125899906842624
      · simp only [hf, if_true, ↓reduceIte]; rfl
      · simp only [hf, if_false, ↓reduceIte]
        by_cases hsnd : q 1 1125899906842624 < cross2 [a, b] [c, d]
        · simp only [hsnd, if_true, ↓reduceIte]; rfl
        · simp only [hsnd, if_false, ↓reduceIte]
          exact classify_tangent_intersection_src gc (some i1) (some i2) s t cl _ _ _ _

end Field

section Ordered

variable {F : Type} [Field F] [LinearOrder F] [IsStrictOrderedRing F]

/-- `k` is the curvature with parts `(c, n) = (T × C, ‖T‖²)`: `k = c / e` for a positive `e` with `e² = n³` (`e = ‖T‖³`) -/
def IsCurv (k c n : F) : Prop := ∃ e : F, 0 < e ∧ e * e = n * n * n ∧ k * e = c

theorem absK_abs (x : F) : Model.absK x = |x| := by
  unfold Model.absK
  split_ifs with h
  · exact (abs_of_neg h).symm
  · exact (abs_of_nonneg (not_lt.mp h)).symm

theorem IsCurv.pos {k c n : F} (h : IsCurv k c n) : 0 < c ↔ 0 < k := by
  obtain ⟨e, he, _, rfl⟩ := h
  constructor
  · intro hc
    by_contra hk
    have : k * e ≤ 0 := mul_nonpos_of_nonpos_of_nonneg (not_lt.mp hk) he.le
    exact absurd hc (not_lt.mpr this)
  · intro hk
    exact mul_pos hk he

theorem IsCurv.neg {k c n : F} (h : IsCurv k c n) : c < 0 ↔ k < 0 := by
  obtain ⟨e, he, _, rfl⟩ := h
  constructor
  · intro hc
    by_contra hk
    have : 0 ≤ k * e := mul_nonneg (not_lt.mp hk) he.le
    exact absurd hc (not_lt.mpr this)
  · intro hk
    exact mul_neg_of_neg_of_pos hk he

/-- `np.sign` / the three-way comparison with `Int` values, as the model writes them -/
def sgnI (k : F) : Int := if 0 < k then 1 else if k < 0 then -1 else 0
def cmpI (a b : F) : Int := if b < a then 1 else if a < b then -1 else 0

theorem sgn_curv {k c n : F} (h : IsCurv k c n) : sgn c = sgnI k := by
  unfold sgn sgnI
  simp only [gt_iff_lt, h.pos, h.neg]

/-- comparison of the absolute curvatures in the model's squared form -/
theorem abs_curv_lt {k1 c1 n1 k2 c2 n2 : F} (h1 : IsCurv k1 c1 n1) (h2 : IsCurv k2 c2 n2) (hn1 : 0 < n1) (hn2 : 0 < n2) :
    c1 * c1 * (n2 * n2 * n2) < c2 * c2 * (n1 * n1 * n1) ↔ |k1| < |k2| := by
  obtain ⟨e1, _, hq1, rfl⟩ := h1
  obtain ⟨e2, _, hq2, rfl⟩ := h2
  have hP : 0 < (n1 * n1 * n1) * (n2 * n2 * n2) := by positivity
  have ea : k1 * e1 * (k1 * e1) * (n2 * n2 * n2) = k1 ^ 2 * ((n1 * n1 * n1) * (n2 * n2 * n2)) := by
    calc k1 * e1 * (k1 * e1) * (n2 * n2 * n2) = k1 ^ 2 * (e1 * e1) * (n2 * n2 * n2) := by ring
      _ = k1 ^ 2 * ((n1 * n1 * n1) * (n2 * n2 * n2)) := by rw [hq1]; ring
  have eb : k2 * e2 * (k2 * e2) * (n1 * n1 * n1) = k2 ^ 2 * ((n1 * n1 * n1) * (n2 * n2 * n2)) := by
    calc k2 * e2 * (k2 * e2) * (n1 * n1 * n1) = k2 ^ 2 * (e2 * e2) * (n1 * n1 * n1) := by ring
      _ = k2 ^ 2 * ((n1 * n1 * n1) * (n2 * n2 * n2)) := by rw [hq2]; ring
  rw [ea, eb, ← sq_lt_sq]
  constructor
  · intro h
    exact lt_of_mul_lt_mul_right h hP.le
  · intro h
    exact mul_lt_mul_of_pos_right h hP

theorem absCurvCmp_curv {k1 c1 n1 k2 c2 n2 : F} (h1 : IsCurv k1 c1 n1) (h2 : IsCurv k2 c2 n2) (hn1 : 0 < n1) (hn2 : 0 < n2) :
    absCurvCmp c1 n1 c2 n2 = cmpI |k1| |k2| := by
  unfold absCurvCmp cmpI
  simp only [gt_iff_lt, abs_curv_lt h1 h2 hn1 hn2, abs_curv_lt h2 h1 hn2 hn1]

theorem tri_sgn (k : F) :
    (0 < k ∧ |k| = k ∧ sgnK k = 1 ∧ sgnI k = 1) ∨ (k = 0 ∧ |k| = 0 ∧ sgnK k = 0 ∧ sgnI k = 0) ∨
      (k < 0 ∧ |k| = -k ∧ sgnK k = -1 ∧ sgnI k = -1) := by
  rcases lt_trichotomy k 0 with h | h | h
  · right; right
    exact ⟨h, abs_of_neg h, by simp [sgnK, h, not_lt.mpr h.le], by simp [sgnI, h, not_lt.mpr h.le]⟩
  · right; left
    subst h
    exact ⟨rfl, abs_zero, by simp [sgnK], by simp [sgnI]⟩
  · left
    exact ⟨h, abs_of_pos h, by simp [sgnK, h], by simp [sgnI, h]⟩

theorem tri_cmp (a b : F) :
    (b < a ∧ a - b ≠ 0 ∧ sgnK (a - b) = 1 ∧ cmpI a b = 1) ∨ (a = b ∧ a - b = 0 ∧ sgnK (a - b) = 0 ∧ cmpI a b = 0) ∨
      (a < b ∧ a - b ≠ 0 ∧ sgnK (a - b) = -1 ∧ cmpI a b = -1) := by
  rcases lt_trichotomy a b with h | h | h
  · right; right
    exact ⟨h, sub_ne_zero.mpr h.ne, by simp [sgnK, sub_pos, sub_neg, h, not_lt.mpr h.le], by simp [cmpI, h, not_lt.mpr h.le]⟩
  · right; left
    subst h
    exact ⟨rfl, sub_self _, by simp [sgnK], by simp [cmpI]⟩
  · left
    exact ⟨h, sub_ne_zero.mpr h.ne', by simp [sgnK, sub_pos, sub_neg, h], by simp [cmpI, h]⟩

/-- **the curvature-valued classification is the model's squared form** -/
theorem classifyTangentCurv_eq (d k1 c1 n1 k2 c2 n2 : F) (h1 : IsCurv k1 c1 n1) (h2 : IsCurv k2 c2 n2)
    (hn1 : 0 < n1) (hn2 : 0 < n2) :
    classifyTangentCurv d k1 k2 = classifyTangent d c1 n1 c2 n2 := by
  have f1 : (1 : F) ≠ -1 := by norm_num
  have f2 : (-1 : F) ≠ 1 := by norm_num
  have f4 : (-1 : F) ≠ 0 := by norm_num
  have f6 : (0 : F) ≠ -1 := by norm_num
  unfold classifyTangentCurv classifyTangent curvCmp
  simp only [gt_iff_lt, hn1, hn2, and_self, not_true_eq_false, if_false, ↓reduceIte, sgn_curv h1, sgn_curv h2,
    absCurvCmp_curv h1 h2 hn1 hn2, absK_abs]
  obtain ⟨p1, e1, x1, y1⟩ | ⟨p1, e1, x1, y1⟩ | ⟨p1, e1, x1, y1⟩ := tri_sgn k1 <;>
  obtain ⟨p2, e2, x2, y2⟩ | ⟨p2, e2, x2, y2⟩ | ⟨p2, e2, x2, y2⟩ := tri_sgn k2 <;>
  obtain ⟨q, qn, x3, y3⟩ | ⟨q, qn, x3, y3⟩ | ⟨q, qn, x3, y3⟩ := tri_cmp |k1| |k2| <;>
  simp only [x1, y1, x2, y2, x3, y3, qn, f1, f2, f4, f6, one_ne_zero, zero_ne_one, ne_eq, not_true_eq_false,
    not_false_eq_true, if_true, if_false, ↓reduceIte, Int.reduceNeg, Int.reduceEq, Int.reduceLT, Int.reduceNe,
    neg_neg, Int.neg_eq_zero, Int.reduceGT] <;>
  rw [e1, e2] at q <;>
  split_ifs <;> first | rfl | (exfalso; linarith)

theorem curvatureParts_snd (thr : Nat) (nodes : List (List F)) (tangent : List F) (s : F) :
    (curvatureParts thr nodes tangent s).2 = dot tangent tangent := by
  unfold curvatureParts
  split <;> rfl

/-- what the tie assumes of the untranslated `curve_helpers.get_curvature(nodes, tangent_vec, s)`: for a non-vanishing
    tangent it is the model's first curvature part `T × C` divided by a positive number whose square is `(‖T‖²)³`
    (the library: `‖T‖₂³`; this is `Tables/SrcF90Kernels.get_curvature_eq` for the Fortran twin) -/
def CurvatureSpec (gc : List (List F) → List F → F → F) : Prop :=
  ∀ nodes tangent s, 0 < dot tangent tangent →
    IsCurv (gc nodes tangent s) (curvatureParts 55 nodes tangent s).1 (dot tangent tangent)

/-- **`classifyIntersectionCurv` (= the translated source) is the model's `classifyIntersection`** when the curvature routine
    meets `CurvatureSpec` and the two tangents at the intersection do not vanish -/
theorem classifyIntersectionCurv_eq (gc : List (List F) → List F → F → F) (hgc : CurvatureSpec gc) (i1 i2 : Nat) (s t : F)
    (es1 es2 : List (List (List F)))
    (hn1 : 0 < dot (hodograph 55 (es1.getD i1 []) s) (hodograph 55 (es1.getD i1 []) s))
    (hn2 : 0 < dot (hodograph 55 (es2.getD i2 []) t) (hodograph 55 (es2.getD i2 []) t)) :
    classifyIntersectionCurv gc 55 i1 s i2 t es1 es2 = classifyIntersection 55 i1 s i2 t es1 es2 := by
  unfold classifyIntersectionCurv classifyIntersection classifyWithTangentsCurv classifyWithTangents
  simp only []
  split_ifs
  · rfl
  · rfl
  · rfl
  · rfl
  · have g1 := hgc (es1.getD i1 []) _ s hn1
    have g2 := hgc (es2.getD i2 []) _ t hn2
    rw [← curvatureParts_snd 55 (es1.getD i1 []) _ s] at g1 hn1
    rw [← curvatureParts_snd 55 (es2.getD i2 []) _ t] at g2 hn2
    exact classifyTangentCurv_eq _ _ _ _ _ _ _ g1 g2 hn1 hn2

/-- **`classify_intersection` = the model's `classifyIntersection 55`** (the two steps combined) -/
theorem classify_intersection_model_src (gc : List (List F) → List F → F → F) (hgc : CurvatureSpec gc) (i1 i2 : Nat) (s t : F)
    (cl : Option Cls) (es1 es2 : List (List (List F))) (h1 : Edges es1) (h2 : Edges es2) (hi1 : i1 < 3) (hi2 : i2 < 3)
    (hn1 : 0 < dot (hodograph 55 (es1.getD i1 []) s) (hodograph 55 (es1.getD i1 []) s))
    (hn2 : 0 < dot (hodograph 55 (es2.getD i2 []) t) (hodograph 55 (es2.getD i2 []) t)) :
    Src.Py.classify_intersection gc { indexFirst := some i1, s := some s, indexSecond := some i2, t := some t, interior := cl }
        es1 es2 =
      encCls (classifyIntersection 55 i1 s i2 t es1 es2) := by
  rw [classify_intersection_src gc i1 i2 s t cl es1 es2 h1 h2 hi1 hi2,
    classifyIntersectionCurv_eq gc hgc i1 i2 s t es1 es2 hn1 hn2]

/-- non-vacuity of `CurvatureSpec`: over a field with square roots of positive numbers it is met by
    `c / e` for the root `e` of `n³` -/
example (root : F → F) (hroot : ∀ x : F, 0 < x → 0 < root x ∧ root x * root x = x) :
    CurvatureSpec (fun nodes tangent s =>
      (curvatureParts 55 nodes tangent s).1 / root (dot tangent tangent * dot tangent tangent * dot tangent tangent)) := by
  intro nodes tangent s hn
  have hp : 0 < dot tangent tangent * dot tangent tangent * dot tangent tangent := by positivity
  obtain ⟨h0, h1⟩ := hroot _ hp
  exact ⟨_, h0, h1, div_mul_cancel₀ _ h0.ne'⟩

end Ordered

section Walk

variable {K : Type} [Add K] [Sub K] [Mul K] [Div K] [Neg K] [OfNat K 0] [OfNat K 1] [NatCast K]
  [LT K] [DecidableLT K] [LE K] [DecidableLE K] [DecidableEq K]

/-- the source returns the triple `(edge index, start, end)` as it reads it from the slots -/
def encSeg (r : Except Err (Segment K)) : Except Err (Option Nat × Option K × Option K) :=
  match r with
  | .ok (i, a, b) => .ok (some i, some a, some b)
  | .error e => .error e

/-- **`ends_to_curve`** on nodes all of whose parameters / indices are set -/
theorem ends_to_curve_src (i1 i2 j1 j2 : Nat) (s t u v : K) (c c' : Option Cls) :
    Src.Py.ends_to_curve { indexFirst := some i1, s := some s, indexSecond := some i2, t := some t, interior := c }
        { indexFirst := some j1, s := some u, indexSecond := some j2, t := some v, interior := c' } =
      encSeg (endsToCurve { indexFirst := some i1, s := some s, indexSecond := some i2, t := some t, interior := c }
        { indexFirst := some j1, s := some u, indexSecond := some j2, t := some v, interior := c' }) := by
  unfold Src.Py.ends_to_curve endsToCurve
  simp only [is_first_src, is_second_src, Src.Py.Rt.unwrap, Src.Py.Rt.bind_ok]
  split_ifs <;> first | rfl | contradiction

/-! ### `get_next_first` / `get_next_second`: the loop over the object references -/

/-- the body of `for other_int in intersections:` in `get_next_first` / `get_next_second` as the translator emits it, with the
    pair of slots read (`index_first` / `s` resp. `index_second` / `t`) as parameters -/
def stepG (idx : Intersection K → Option Nat) (par : Intersection K → Option K) (index : Option Nat) (p : Option K)
    (along : Option (WNode K)) (other : WNode K) : Except Err (Option (WNode K)) :=
  Src.Py.Rt.bind
    (if idx other.val = index then
      Src.Py.Rt.bind (Src.Py.Rt.unwrap (par other.val)) fun t1 =>
      Src.Py.Rt.bind (Src.Py.Rt.unwrap p) fun t2 =>
      .ok (decide (t2 < t1))
    else
      .ok false : Except Err Bool) fun t3 =>
  (if t3 then
      Src.Py.Rt.bind
        (if along = none then
          .ok true
        else
          Src.Py.Rt.bind (Src.Py.Rt.unwrap along) fun t4 =>
          Src.Py.Rt.bind (Src.Py.Rt.unwrap (par other.val)) fun t5 =>
          Src.Py.Rt.bind (Src.Py.Rt.unwrap (par t4.val)) fun t6 =>
          .ok (decide (t5 < t6)) : Except Err Bool) fun t7 =>
      let along :=
        (if t7 then
          let along := other
          some along
        else
          along)
      .ok along
    else
      .ok along : Except Err (Option (WNode K)))

/-- `along_edge` of the model (position and value) as an object reference -/
def toW (a : Option (Nat × Intersection K)) : Option (WNode K) :=
  match a with
  | none => none
  | some a => some { pos := some a.1, val := a.2 }

/-- the update of `along_edge` in one pass of the model's `alongLoop` -/
def pick (idx : Intersection K → Option Nat) (par : Intersection K → Option K) (index : Option Nat) (p : Option K)
    (i : Nat) (other : Intersection K) (along : Option (Nat × Intersection K)) : Option (Nat × Intersection K) :=
  if idx other = index ∧ optGt (par other) p = true then
    match along with
    | none => some (i, other)
    | some a => if optLt (par other) (par a.2) then some (i, other) else along
  else along

theorem alongLoop_cons (idx : Intersection K → Option Nat) (par : Intersection K → Option K) (index : Option Nat)
    (p : Option K) (o : Intersection K) (rest : List (Intersection K)) (i : Nat) (along : Option (Nat × Intersection K)) :
    alongLoop idx par index p (o :: rest) i along = alongLoop idx par index p rest (i + 1) (pick idx par index p i o along) :=
  rfl

theorem step_pick (idx : Intersection K → Option Nat) (par : Intersection K → Option K) (index : Option Nat) (s v : K)
    (i : Nat) (o : Intersection K) (hv : par o = some v) (along : Option (Nat × Intersection K))
    (hal : ∀ a, along = some a → (par a.2).isSome = true) :
    stepG idx par index (some s) (toW along) { pos := some i, val := o } = .ok (toW (pick idx par index (some s) i o along)) := by
  unfold stepG pick
  simp only [hv, Src.Py.Rt.unwrap, Src.Py.Rt.bind_ok, optGt, gt_iff_lt]
  by_cases h1 : idx o = index
  · by_cases h2 : s < v
    · rcases along with _ | a
      · simp [h1, h2, toW]
      · obtain ⟨w, hw⟩ := Option.isSome_iff_exists.mp (hal a rfl)
        by_cases h3 : v < w <;> simp [h1, h2, h3, toW, hw, optLt, Src.Py.Rt.unwrap]
    · simp [h1, h2]
  · simp [h1]

theorem pick_inv (idx : Intersection K → Option Nat) (par : Intersection K → Option K) (index : Option Nat) (p : Option K)
    (i : Nat) (o : Intersection K) (ho : (par o).isSome = true) (along : Option (Nat × Intersection K))
    (hal : ∀ a, along = some a → (par a.2).isSome = true) :
    ∀ a, pick idx par index p i o along = some a → (par a.2).isSome = true := by
  intro a ha
  unfold pick at ha
  split at ha
  · rcases along with _ | a0
    · simp only [Option.some.injEq] at ha; subst ha; exact ho
    · simp only at ha
      split at ha
      · simp only [Option.some.injEq] at ha; subst ha; exact ho
      · exact hal a ha
  · exact hal a ha

theorem fold_along (idx : Intersection K → Option Nat) (par : Intersection K → Option K) (index : Option Nat) (s : K)
    (l : List (Intersection K)) (hl : ∀ o ∈ l, (par o).isSome = true) :
    ∀ (i : Nat) (along : Option (Nat × Intersection K)), (∀ a, along = some a → (par a.2).isSome = true) →
      Src.Py.Rt.foldM (Src.Py.Rt.refsFrom l i) (toW along) (stepG idx par index (some s)) =
        .ok (toW (alongLoop idx par index (some s) l i along)) := by
  induction l with
  | nil => intro i along _; rfl
  | cons o rest ih =>
    intro i along hal
    have ho := hl o (List.mem_cons_self ..)
    obtain ⟨v, hv⟩ := Option.isSome_iff_exists.mp ho
    have hrest : ∀ o ∈ rest, (par o).isSome = true := fun o ho => hl o (List.mem_cons_of_mem _ ho)
    rw [alongLoop_cons]
    unfold Src.Py.Rt.refsFrom Src.Py.Rt.foldM
    rw [step_pick idx par index s v i o hv along hal]
    simp only [Src.Py.Rt.bind_ok]
    exact ih hrest (i + 1) _ (pick_inv idx par index _ i o ho along hal)

/-- **`get_next_first`**: the loop over the references with the running `along_edge` is the model's `alongLoop` -/
theorem get_next_first_src (x : Intersection K) (s : K) (hx : x.s = some s) (ints : List (Intersection K))
    (hl : ∀ o ∈ ints, o.s.isSome = true) (toEnd : Bool) :
    Src.Py.get_next_first x ints toEnd = .ok (getNextFirst x ints toEnd) := by
  have h := fold_along (·.indexFirst) (·.s) x.indexFirst s ints hl 0 none (by intro a ha; cases ha)
  unfold Src.Py.get_next_first getNextFirst
  simp only [hx]
  change Src.Py.Rt.bind (Src.Py.Rt.foldM (Src.Py.Rt.refsFrom ints 0) (toW none)
    (stepG (·.indexFirst) (·.s) x.indexFirst (some s))) _ = _
  rw [h]
  simp only [Src.Py.Rt.bind_ok]
  rcases alongLoop (·.indexFirst) (·.s) x.indexFirst (some s) ints 0 none with _ | a
  · cases toEnd <;> rfl
  · rfl

/-- **`get_next_second`** -/
theorem get_next_second_src (x : Intersection K) (t : K) (hx : x.t = some t) (ints : List (Intersection K))
    (hl : ∀ o ∈ ints, o.t.isSome = true) (toEnd : Bool) :
    Src.Py.get_next_second x ints toEnd = .ok (getNextSecond x ints toEnd) := by
  have h := fold_along (·.indexSecond) (·.t) x.indexSecond t ints hl 0 none (by intro a ha; cases ha)
  unfold Src.Py.get_next_second getNextSecond
  simp only [hx]
  change Src.Py.Rt.bind (Src.Py.Rt.foldM (Src.Py.Rt.refsFrom ints 0) (toW none)
    (stepG (·.indexSecond) (·.t) x.indexSecond (some t))) _ = _
  rw [h]
  simp only [Src.Py.Rt.bind_ok]
  rcases alongLoop (·.indexSecond) (·.t) x.indexSecond (some t) ints 0 none with _ | a
  · cases toEnd <;> rfl
  · rfl

/-- **`get_next_coincident`** -/
theorem get_next_coincident_src (x : Intersection K) (s t : K) (hs : x.s = some s) (ht : x.t = some t)
    (ints : List (Intersection K)) (hl : ∀ o ∈ ints, o.s.isSome = true ∧ o.t.isSome = true) :
    Src.Py.get_next_coincident x ints = .ok (some (getNextCoincident x ints)) := by
  unfold Src.Py.get_next_coincident getNextCoincident
  rw [get_next_first_src x s hs ints (fun o ho => (hl o ho).1), get_next_second_src x t ht ints (fun o ho => (hl o ho).2)]
  simp only [Src.Py.Rt.bind_ok]
  rcases getNextFirst x ints false with _ | a
  · rcases getNextSecond x ints false with _ | b
    · rfl
    · rfl
  · rfl

/-- what `get_next` returns: the node (never None on this path) and the updated `unused` -/
def encNext (r : Except Err (WNode K × List Nat)) : Except Err (Option (WNode K) × List Nat) :=
  match r with
  | .ok (n, u) => .ok (some n, u)
  | .error e => .error e

theorem consume_src (r : WNode K) (unused : List Nat) :
    (if Src.Py.Rt.refIn r unused then Src.Py.Rt.refRemove r unused else .ok unused : Except Err (List Nat)) =
      .ok (consume r unused) := by
  unfold Src.Py.Rt.refIn Src.Py.Rt.refRemove consume
  rcases r.pos with _ | i
  · rfl
  · by_cases h : unused.contains i = true
    · have hm : i ∈ unused := by simpa using h
      simp [hm]
    · have : i ∉ unused := by simpa using h
      simp [h, List.erase_of_not_mem this]

/-- **`get_next`** (Python: `ValueError` for a node that is not FIRST / TANGENT_FIRST / SECOND / TANGENT_SECOND / COINCIDENT) -/
theorem get_next_src (x : Intersection K) (s t : K) (hs : x.s = some s) (ht : x.t = some t)
    (ints : List (Intersection K)) (hl : ∀ o ∈ ints, o.s.isSome = true ∧ o.t.isSome = true) (unused : List Nat) :
    Src.Py.get_next x ints unused = encNext (Py.getNext x ints unused) := by
  unfold Src.Py.get_next Py.getNext getNextCore
  rw [is_first_src, is_second_src]
  by_cases h1 : isFirst x.interior = true
  · simp only [h1, if_true, ↓reduceIte]
    rw [get_next_first_src x s hs ints (fun o ho => (hl o ho).1)]
    simp only [Src.Py.Rt.bind_ok]
    have hne : getNextFirst x ints true ≠ none := by
      unfold getNextFirst; split <;> simp
    rcases hr : getNextFirst x ints true with _ | r
    · exact absurd hr hne
    · simp only [Src.Py.Rt.unwrap, Src.Py.Rt.bind_ok]
      rw [consume_src]; rfl
  · simp only [h1, if_false, ↓reduceIte, Bool.false_eq_true]
    by_cases h2 : isSecond x.interior = true
    · simp only [h2, if_true, ↓reduceIte]
      rw [get_next_second_src x t ht ints (fun o ho => (hl o ho).2)]
      simp only [Src.Py.Rt.bind_ok]
      have hne : getNextSecond x ints true ≠ none := by
        unfold getNextSecond; split <;> simp
      rcases hr : getNextSecond x ints true with _ | r
      · exact absurd hr hne
      · simp only [Src.Py.Rt.unwrap, Src.Py.Rt.bind_ok]
        rw [consume_src]; rfl
    · simp only [h2, if_false, ↓reduceIte, Bool.false_eq_true]
      by_cases h3 : x.interior = some .coincident
      · have h3' : x.interior = Cls.ofCode Src.Py.IntersectionClassification.COINCIDENT := h3
        simp only [h3', if_true, ↓reduceIte]
        rw [get_next_coincident_src x s t hs ht ints hl]
        simp only [Src.Py.Rt.bind_ok, Src.Py.Rt.unwrap]
        rw [consume_src]
        simp only [Src.Py.Rt.bind_ok]
        have : (Cls.ofCode Src.Py.IntersectionClassification.COINCIDENT) = some Cls.coincident := rfl
        simp [this, encNext]
      · have h3' : ¬ x.interior = Cls.ofCode Src.Py.IntersectionClassification.COINCIDENT := h3
        simp only [h3', h3, if_false, ↓reduceIte]
        rfl

/-! ### `to_front`: the loop with early `return` over the object references -/

/-- the body of `for other_int in intersections:` of `to_front` as the translator emits it (`p` = the test on the slots) -/
def stepF (p : Intersection K → Bool) (unused : List Nat) (other : WNode K) :
    Except Err ((WNode K × List Nat) ⊕ List Nat) :=
  if p other.val = true then
    Src.Py.Rt.bind
      (if Src.Py.Rt.refIn other unused then Src.Py.Rt.refRemove other unused else .ok unused : Except Err (List Nat))
      fun unused => .ok (Sum.inl (other, unused))
  else .ok (Sum.inr unused)

theorem forM_find (p : Intersection K → Bool) (l : List (Intersection K)) :
    ∀ (i : Nat) (unused : List Nat),
      Src.Py.Rt.forM (ρ := WNode K × List Nat) (Src.Py.Rt.refsFrom l i) unused (stepF p) =
        .ok (match findIdx? p l with
          | some j => Sum.inl ({ pos := some (i + j), val := l.getD j blank }, unused.erase (i + j))
          | none => Sum.inr unused) := by
  induction l with
  | nil => intro i unused; rfl
  | cons o rest ih =>
    intro i unused
    unfold Src.Py.Rt.refsFrom Src.Py.Rt.forM
    by_cases hp : p o = true
    · have : stepF p unused { pos := some i, val := o } =
          .ok (Sum.inl ({ pos := some i, val := o }, consume { pos := some i, val := o } unused)) := by
        unfold stepF
        simp only [hp, if_true, ↓reduceIte]
        rw [consume_src]; rfl
      rw [this]
      simp only [Src.Py.Rt.bind_ok, findIdx?, hp, if_true, ↓reduceIte]
      rfl
    · have : stepF p unused { pos := some i, val := o } = .ok (Sum.inr unused) := by
        unfold stepF
        simp only [hp, if_false, ↓reduceIte, Bool.false_eq_true]
      rw [this]
      simp only [Src.Py.Rt.bind_ok, findIdx?, hp, if_false, ↓reduceIte, Bool.false_eq_true]
      rw [ih (i + 1) unused]
      rcases findIdx? p rest with _ | j
      · rfl
      · simp only [Option.map_some, List.getD_cons_succ]
        have e : i + 1 + j = i + (j + 1) := by omega
        rw [e]

/-- **`to_front`** on a node whose `index_first` / `index_second` are set -/
theorem to_front_src (n : WNode K) (i1 i2 : Nat) (h1 : n.val.indexFirst = some i1) (h2 : n.val.indexSecond = some i2)
    (ints : List (Intersection K)) (unused : List Nat) :
    Src.Py.to_front n ints unused = .ok (toFrontNode n ints unused) := by
  unfold Src.Py.to_front toFrontNode
  simp only [h1, h2, Src.Py.Rt.unwrap, Src.Py.Rt.bind_ok, Option.getD_some]
  by_cases hs : n.val.s = some 1
  · simp only [hs, if_true, ↓reduceIte]
    have hstep : (fun (unused : List Nat) (other_int : WNode K) =>
        if (other_int.val.s = (some (0 : K))) ∧ (other_int.val.indexFirst = (some ((i1 + (1 : Nat)) % 3))) then
          Src.Py.Rt.bind
            (if Src.Py.Rt.refIn other_int unused then Src.Py.Rt.refRemove other_int unused
            else .ok unused : Except Err (List Nat)) fun unused =>
          (.ok (Sum.inl (other_int, unused)) : Except Err ((WNode K × List Nat) ⊕ List Nat))
        else .ok (Sum.inr unused)) =
        stepF (fun o => decide (o.s = some 0) && decide (o.indexFirst = some ((i1 + 1) % 3))) := by
      funext unused other
      unfold stepF
      simp only [Bool.and_eq_true, decide_eq_true_eq]
    unfold Src.Py.Rt.refs
    rw [hstep, forM_find]
    simp only [Src.Py.Rt.bind_ok, Nat.zero_add]
    generalize findIdx? (fun o => decide (o.s = some 0) && decide (o.indexFirst = some ((i1 + 1) % 3))) ints = r
    rcases r with _ | j <;> rfl
  · simp only [hs, if_false, ↓reduceIte]
    by_cases ht : n.val.t = some 1
    · simp only [ht, if_true, ↓reduceIte]
      have hstep : (fun (unused : List Nat) (other_int : WNode K) =>
          if (other_int.val.t = (some (0 : K))) ∧ (other_int.val.indexSecond = (some ((i2 + (1 : Nat)) % 3))) then
            Src.Py.Rt.bind
              (if Src.Py.Rt.refIn other_int unused then Src.Py.Rt.refRemove other_int unused
              else .ok unused : Except Err (List Nat)) fun unused =>
            (.ok (Sum.inl (other_int, unused)) : Except Err ((WNode K × List Nat) ⊕ List Nat))
          else .ok (Sum.inr unused)) =
          stepF (fun o => decide (o.t = some 0) && decide (o.indexSecond = some ((i2 + 1) % 3))) := by
        funext unused other
        unfold stepF
        simp only [Bool.and_eq_true, decide_eq_true_eq]
      unfold Src.Py.Rt.refs
      rw [hstep, forM_find]
      simp only [Src.Py.Rt.bind_ok, Nat.zero_add]
      generalize findIdx? (fun o => decide (o.t = some 0) && decide (o.indexSecond = some ((i2 + 1) % 3))) ints = r
      rcases r with _ | j <;> rfl
    · simp only [ht, if_false, ↓reduceIte]

end Walk

section Combine

variable {K : Type} [Add K] [Sub K] [Mul K] [Div K] [Neg K] [OfNat K 0] [OfNat K 1] [NatCast K]
  [LT K] [DecidableLT K] [LE K] [DecidableLE K] [DecidableEq K]

/-- **`tangent_only_intersections`** on every set of classifications (kept as a duplicate-free list) -/
theorem tangent_only_intersections_src (allTypes : List Cls) :
    (Src.Py.tangent_only_intersections allTypes : Except Err (Outcome K)) = Py.tangentOnly allTypes := by
  unfold Src.Py.tangent_only_intersections Py.tangentOnly
  rcases allTypes with _ | ⟨c, _ | ⟨d, rest⟩⟩
  · rfl
  · cases c <;> rfl
  · rfl

/-- **`no_intersections`** (two rows with at least one node each; `locate_point` is a parameter) -/
theorem no_intersections_src (locate : LocateFn K) (a b c d : K) (ra rb rc rd : List K) (degree1 degree2 : Nat) :
    Src.Py.no_intersections locate [a :: ra, b :: rb] degree1 [c :: rc, d :: rd] degree2 =
      .ok (noIntersections locate [a :: ra, b :: rb] degree1 [c :: rc, d :: rd] degree2) := by
  unfold Src.Py.no_intersections noIntersections
  simp only [Src.Py.Rt.idx, List.getElem?_cons_zero, Src.Py.Rt.bind_ok, seq, List.getD_cons_zero, List.getD_cons_succ,
    List.getD_eq_getElem?_getD, Option.getD_some, List.getElem?_cons_succ, ne_eq]
  rcases locate [c :: rc, d :: rd] degree2 a b with _ | p
  · rcases locate [a :: ra, b :: rb] degree1 c d with _ | q
    · rfl
    · rfl
  · rfl

/-- **`combine_intersections`**: the three-way dispatch; `basic_interior_combine` (not translated) is a parameter assumed to
    be the model's walk with the default `max_edges = 10` -/
theorem combine_intersections_src (bic : List (Intersection K) → Except Err (Outcome K)) (locate : LocateFn K)
    (hbic : ∀ ints, bic ints = Py.basicInteriorCombine 10 ints)
    (ints : List (Intersection K)) (a b c d : K) (ra rb rc rd : List K) (degree1 degree2 : Nat) (allTypes : List Cls) :
    Src.Py.combine_intersections bic locate ints [a :: ra, b :: rb] degree1 [c :: rc, d :: rd] degree2 allTypes =
      Py.combineIntersections 10 locate ints [a :: ra, b :: rb] degree1 [c :: rc, d :: rd] degree2 allTypes := by
  unfold Src.Py.combine_intersections Py.combineIntersections
  rw [hbic, tangent_only_intersections_src, no_intersections_src]

end Combine

section Points

variable {K : Type} [Add K] [Sub K] [Mul K] [Div K] [Neg K] [OfNat K 0] [OfNat K 1] [NatCast K]
  [LT K] [DecidableLT K] [LE K] [DecidableLE K] [DecidableEq K]

/-- **`classify_coincident`** (`hazmat/triangle_intersection.py`) on a `2 × N` array with `N ≥ 2` -/
theorem classify_coincident_src (s0 s1 t0 t1 : K) (rs rt : List K) (coincident : Bool) :
    Src.Py.classify_coincident [s0 :: s1 :: rs, t0 :: t1 :: rt] coincident =
      .ok (classifyCoincident [s0 :: s1 :: rs, t0 :: t1 :: rt] coincident) := by
  unfold Src.Py.classify_coincident classifyCoincident
  cases coincident
  · rfl
  · simp only [Src.Py.Rt.idx, List.getElem?_cons_zero, List.getElem?_cons_succ, Src.Py.Rt.bind_ok, seq, List.getD_cons_zero,
      List.getD_cons_succ, Bool.not_true, Bool.false_eq_true, if_false, ↓reduceIte]
    by_cases h1 : s1 ≤ s0
    · simp [h1]; rfl
    · by_cases h2 : t1 ≤ t0
      · simp [h1, h2]; rfl
      · simp [h1, h2]; rfl

/-- **`should_use`** on every intersection (missing fields included) -/
theorem should_use_src (x : Intersection K) : Src.Py.should_use x = shouldUse x := by
  obtain ⟨i1, s, i2, t, c⟩ := x
  unfold Src.Py.should_use shouldUse
  rcases c with _ | c
  · rfl
  · cases c <;> rfl

/-- the body of the loop of `check_unused` -/
theorem check_unused_step (x : Intersection K) (dups : List (Intersection K)) (w : WNode K) :
    (if (w.val.interior = (Cls.ofCode Src.Py.IntersectionClassification.COINCIDENT_UNUSED)) ∧
          ((x.indexFirst = w.val.indexFirst) ∧ (x.indexSecond = w.val.indexSecond)) then
        if (x.s = (some (0 : K))) ∧ (w.val.s = (some (0 : K))) then
          let duplicates := dups ++ [x]
          (Sum.inl (true, duplicates) : (Bool × List (Intersection K)) ⊕ List (Intersection K))
        else
          if (x.t = (some (0 : K))) ∧ (w.val.t = (some (0 : K))) then
            let duplicates := dups ++ [x]
            Sum.inl (true, duplicates)
          else
            Sum.inr dups
      else
        Sum.inr dups) =
      if (decide (w.val.interior = some .coincidentUnused) && cornerMatch x w.val) = true then Sum.inl (true, dups ++ [x])
      else Sum.inr dups := by
  have hc : Cls.ofCode Src.Py.IntersectionClassification.COINCIDENT_UNUSED = some .coincidentUnused := rfl
  rw [hc]
  unfold cornerMatch
  by_cases a1 : w.val.interior = some .coincidentUnused <;> by_cases a2 : x.indexFirst = w.val.indexFirst <;>
    by_cases a3 : x.indexSecond = w.val.indexSecond <;> by_cases a4 : x.s = some 0 <;> by_cases a5 : w.val.s = some 0 <;>
    by_cases a6 : x.t = some 0 <;> by_cases a7 : w.val.t = some 0 <;> simp [a1, a2, a3, a4, a5, a6, a7]

theorem check_unused_loop (x : Intersection K) (l : List (Intersection K)) :
    ∀ (i : Nat) (dups : List (Intersection K)),
      Src.Py.Rt.forE (ρ := Bool × List (Intersection K)) (Src.Py.Rt.refsFrom l i) dups
          (fun dups w => if (decide (w.val.interior = some .coincidentUnused) && cornerMatch x w.val) = true
            then Sum.inl (true, dups ++ [x]) else Sum.inr dups) =
        if l.any (fun other => decide (other.interior = some .coincidentUnused) && cornerMatch x other) = true
        then Sum.inl (true, dups ++ [x]) else Sum.inr dups := by
  induction l with
  | nil => intro i dups; rfl
  | cons o rest ih =>
    intro i dups
    unfold Src.Py.Rt.refsFrom Src.Py.Rt.forE
    by_cases h : (decide (o.interior = some .coincidentUnused) && cornerMatch x o) = true
    · simp only [h, if_true, ↓reduceIte, List.any_cons, Bool.true_or]
    · simp only [h, if_false, ↓reduceIte, List.any_cons, Bool.false_eq_true]
      rw [ih (i + 1) dups]
      simp [h]

/-- **`check_unused`**: the flag is the model's `Py.checkUnused`, and the intersection is appended to `duplicates` exactly then -/
theorem check_unused_src (x : Intersection K) (dups ints : List (Intersection K)) :
    Src.Py.check_unused x dups ints = (Py.checkUnused x ints, if Py.checkUnused x ints then dups ++ [x] else dups) := by
  unfold Src.Py.check_unused Py.checkUnused Src.Py.Rt.refs
  simp only [check_unused_step]
  rw [check_unused_loop]
  split_ifs with h
  · simp only [h]
  · simp only [Bool.not_eq_true] at h; simp only [h]

end Points

end BezierVerif.SrcPyClassify
