import BezierVerif.Generated.SrcPy
import BezierVerif.Tables.SrcPyKernels
import BezierVerif.Model.CurvePy
import Mathlib.Algebra.Field.Basic
import Mathlib.Algebra.CharZero.Defs
import Mathlib.Tactic.FieldSimp
import Mathlib.Tactic.Ring
import Mathlib.Tactic.NormNum
import BezierVerif.Lemmas.NormReal
import BezierVerif.Model.Area

/-!
# Tables/SrcPyCurve — the remainder of `hazmat/curve_helpers.py`, translated from the source, equals the model

Phase 4 of the source-to-Lean tie (`harness/translate_py.py` → `Generated/SrcPy.lean`, namespace `BezierVerif.Src.Py`).
New in the translator: module-level constant arrays (emitted as `curve_helpers._NAME`), arrays that the function updates
in place (`x[:, j] = v`, `x[lo:hi, j] = v`, `x[i, j] = c`, `x /= c`, accepted only for fresh arrays without a second
reference), 2-D `np.empty` arrays as arrays of `Option` (reading requires every entry to have been assigned),
`np.arange(...)[np.newaxis, :]` row vectors, `** 3`, `raise _py_helpers.UnsupportedDegree`, the Frobenius norm, `while` loops
(explicit bound `fuel`, `Err.recursion` when exhausted), `functools.partial` + `scipy.integrate.quad` (an abstract parameter).

| source function (hazmat/curve_helpers.py) | theorem(s)                          | model definition                          | domain |
|-------------------------------------------|-------------------------------------|-------------------------------------------|--------|
| module tables `_LINEAR/_QUADRATIC/_CUBIC_SUBDIVIDE_LEFT/RIGHT` | `lin_left` … `cub_right` | `leftMat k`, `rightMat k`, `k = 1, 2, 3`  | field of characteristic 0 |
| make_subdivision_matrices                 | `make_subdivision_matrices_src` (`msm_step`: one iteration of the column loop) | `(leftMat k, rightMat k)`  | every degree `k ≥ 0` |
| subdivide_nodes                           | `subdivide_nodes_src` (`subdivide_nodes_src_tables`: 2, 3, 4 nodes; `subdivide_nodes_src_of`; `junction`) | `Py.subdivideJ` (`Py.subdivideRowJ` = products + `withJunction`) | rectangular, ≥ 1 row, ≥ 1 column |
| reduce_pseudo_inverse                     | `reduce_pseudo_inverse_src`         | `reducePinv` (incl. the `UnsupportedDegree` refusals) | rectangular, ≥ 1 row, EVERY number of columns |
| elevate_nodes                             | `elevate_nodes_src`                 | `elevate` (`elevateRow`)                  | rectangular, ≥ 1 row, ≥ 1 column |
| get_curvature                             | `get_curvature_src`                 | `Py.curvature` (`curvatureParts` / `‖tangent‖³`) | `2 × n` nodes, `n ≥ 2`, `2 × 1` tangent, abstract `sqrt` |
| vec_size                                  | `vec_size_src`                      | `sqrt (normSq (evalPoint 55 nodes s))`    | rectangular, ≥ 1 column, abstract `sqrt` |
| compute_length                            | `compute_length_src`                | `Py.computeLength` (`lengthClosedFormSq`: `ValueError` / `0.0` / `‖v₁ − v₀‖₂`; else the external `scipy.integrate.quad` on `vec_size((N−1)Δ, ·)`) | rectangular, ≥ 1 row, EVERY number of columns incl. 0; `sqrt`, `quad` abstract |
| projection_error                          | `projection_error_src'` (abstract `sqrt`), `projection_error_src` (`ℝ`) | `sqrt (frobSq (nodes − projected))`, divided by `sqrt (frobSq nodes)` unless zero | same rectangular shape |
| module tables `_PROJECTION0..3`, `_PROJ_DENOM0..3` | `proj2` … `proj5` (+ `projMat2` … `projMat5`) | `projectionMat n = R_n · E_n` | field of characteristic 0 |
| maybe_reduce                              | `maybe_reduce_src`                  | `canReduce (2⁻²⁶)²` then `reducePinv`     | `ℝ`, `Real.sqrt`; rectangular, ≥ 1 row, EVERY number of columns (refusals included) |
| full_reduce                               | `full_reduce_src`                   | `fullReduce (2⁻²⁶)²`                      | `ℝ`, `Real.sqrt`; `while` loop bound `fuel ≥ n − 1` |

Unless `ℝ` is stated, the theorems are over `[Field F] [CharZero F] [LinearOrder F]`: `matrix_product` multiplies in the order
`mat2[k][j] * mat1[i][k]` (commutativity), the tables are stored un-normalised (`_REDUCTION1 / 3.0` versus the model's
`5/6, -1/6, …`), `0.5 * x` versus the model's `1 / (1 + 1) * x`; the order instance is not used (it only supplies
the comparison instances the generated file declares).  A semantic change of the source changes the generated term and
breaks the theorem about it.
-/

set_option linter.unusedSectionVars false

namespace BezierVerif.SrcPyCurve

open BezierVerif BezierVerif.Model
open BezierVerif.SrcPyKernels

section Field
variable {F : Type} [Field F] [CharZero F] [LinearOrder F]

theorem ncols_rect' (nodes : List (List F)) (n : Nat) (hne : nodes ≠ []) (hrect : ∀ r ∈ nodes, r.length = n) :
    ncols nodes = n := by
  obtain ⟨r, rs, rfl⟩ := List.exists_cons_of_ne_nil hne
  simpa [ncols] using hrect r (List.mem_cons_self ..)

/-! ## `reduce_pseudo_inverse` -/

theorem red2 (r : List F) (h : r.length = 2) :
    (rowMul r (Src.Py.curve_helpers._REDUCTION0 : List (List F))).map (fun x => x / (1 : F)) =
      rowMul r [[q 1 2], [q 1 2]] := by
  obtain ⟨a, b, rfl⟩ := List.length_eq_two.mp h
  simp [rowMul, ncols, col, dot, Src.Py.curve_helpers._REDUCTION0, q]

theorem red3 (r : List F) (h : r.length = 3) :
    (rowMul r (Src.Py.curve_helpers._REDUCTION1 : List (List F))).map (fun x => x / ((3 : Nat) : F)) =
      rowMul r [[q 5 6, q (-1) 6], [q 2 6, q 2 6], [q (-1) 6, q 5 6]] := by
  obtain ⟨a, b, c, rfl⟩ := List.length_eq_three.mp h
  have r2 : List.range 2 = [0, 1] := by decide
  simp [rowMul, ncols, col, dot, Src.Py.curve_helpers._REDUCTION1, q, r2]
  constructor <;> ring

theorem length_eq_four {α : Type} {l : List α} (h : l.length = 4) : ∃ a b c d, l = [a, b, c, d] := by
  match l, h with
  | [a, b, c, d], _ => exact ⟨a, b, c, d, rfl⟩

theorem length_eq_five {α : Type} {l : List α} (h : l.length = 5) : ∃ a b c d e, l = [a, b, c, d, e] := by
  match l, h with
  | [a, b, c, d, e], _ => exact ⟨a, b, c, d, e, rfl⟩

theorem red4 (r : List F) (h : r.length = 4) :
    (rowMul r (Src.Py.curve_helpers._REDUCTION2 : List (List F))).map (fun x => x / ((5 : Nat) : F)) =
      rowMul r [[q 19 20, q (-5) 20, q 1 20], [q 3 20, q 15 20, q (-3) 20],
               [q (-3) 20, q 15 20, q 3 20], [q 1 20, q (-5) 20, q 19 20]] := by
  obtain ⟨a, b, c, d, rfl⟩ := length_eq_four h
  have r3 : List.range 3 = [0, 1, 2] := by decide
  simp [rowMul, ncols, col, dot, Src.Py.curve_helpers._REDUCTION2, q, r3]
  refine ⟨?_, ?_, ?_⟩ <;> ring

theorem red5 (r : List F) (h : r.length = 5) :
    (rowMul r (Src.Py.curve_helpers._REDUCTION3 : List (List F))).map (fun x => x / ((105 : Nat) : F)) =
      rowMul r [[q 207 210, q (-53) 210, q 17 210, q (-3) 210],
               [q 12 210, q 212 210, q (-68) 210, q 12 210],
               [q (-18) 210, q 102 210, q 102 210, q (-18) 210],
               [q 12 210, q (-68) 210, q 212 210, q 12 210],
               [q (-3) 210, q 17 210, q (-53) 210, q 207 210]] := by
  obtain ⟨a, b, c, d, e, rfl⟩ := length_eq_five h
  have r4 : List.range 4 = [0, 1, 2, 3] := by decide
  simp [rowMul, ncols, col, dot, Src.Py.curve_helpers._REDUCTION3, q, r4]
  refine ⟨?_, ?_, ?_, ?_⟩ <;> ring

/-- `reduce_pseudo_inverse` IS `Model.reducePinv` on every rectangular array with at least one row: the product with the
    un-normalised table followed by the division by the denominator (the order of the source) equals the product with
    the model's normalised pseudo-inverse (a field of characteristic 0 is needed for exactly this re-association), and
    both refuse every other number of nodes with `UnsupportedDegree` -/
theorem reduce_pseudo_inverse_src (nodes : List (List F)) (n : Nat) (hne : nodes ≠ []) (hrect : ∀ r ∈ nodes, r.length = n) :
    Src.Py.reduce_pseudo_inverse nodes = reducePinv nodes := by
  unfold Src.Py.reduce_pseudo_inverse reducePinv
  rw [shape_rect' nodes n hne hrect, ncols_rect' nodes n hne hrect]
  simp only [Src.Py.Rt.bind_ok]
  have key : ∀ (T R : List (List F)) (d : F) (p : Nat), 1 ≤ n → 1 ≤ p → T.length = n → (∀ r ∈ T, r.length = p) →
      (∀ r : List F, r.length = n → (rowMul r T).map (fun x => x / d) = rowMul r R) →
      (Src.Py.Rt.bind (Src.Py.matrix_product nodes T) fun result => .ok (Src.Py.Rt.mmap (fun x => x / d) result)) =
        (.ok (matMul nodes R) : Except Err (List (List F))) := by
    intro T R d p hn hp hT hTr hrow
    rw [matrix_product_src nodes T n p hne hn hp hrect hT hTr]
    simp only [Src.Py.Rt.bind_ok, Src.Py.Rt.mmap, matrixProduct, matMul, List.map_map]
    congr 1
    apply List.map_congr_left
    intro r hr
    exact hrow r (hrect r hr)
  by_cases h2 : n = 2
  · subst h2
    simp only [↓reduceIte, reductionMat]
    exact key _ _ _ 1 (by omega) (by omega) rfl (by simp [Src.Py.curve_helpers._REDUCTION0]) red2
  by_cases h3 : n = 3
  · subst h3
    simp only [↓reduceIte, reductionMat, h2]
    exact key _ _ _ 2 (by omega) (by omega) rfl (by simp [Src.Py.curve_helpers._REDUCTION1]) red3
  by_cases h4 : n = 4
  · subst h4
    simp only [↓reduceIte, reductionMat, h2, h3]
    exact key _ _ _ 3 (by omega) (by omega) rfl (by simp [Src.Py.curve_helpers._REDUCTION2]) red4
  by_cases h5 : n = 5
  · subst h5
    simp only [↓reduceIte, reductionMat, h2, h3, h4]
    exact key _ _ _ 4 (by omega) (by omega) rfl (by simp [Src.Py.curve_helpers._REDUCTION3]) red5
  simp only [h2, h3, h4, h5, ↓reduceIte]
  have : reductionMat (K := F) n = none := by
    match n, h2, h3, h4, h5 with
    | 0, _, _, _, _ => rfl
    | 1, _, _, _, _ => rfl
    | n + 6, _, _, _, _ => rfl
  rw [this]


/-! ## `elevate_nodes` -/

theorem idxLast_ok (l : List F) (h : l ≠ []) : Src.Py.Rt.idxLast l = .ok (seq l (l.length - 1)) := by
  unfold Src.Py.Rt.idxLast seq
  rw [List.getLast?_eq_getElem?]
  have : l.length - 1 < l.length := by
    have := List.length_pos_iff.mpr h
    omega
  simp [List.getD_eq_getElem?_getD, List.getElem?_eq_getElem this]



theorem setColA_map {α β : Type} (nodes : List β) (g G : β → List α) (y : β → α) (j : Int)
    (h : ∀ r ∈ nodes, Src.Py.Rt.setAt (g r) j (y r) = .ok (G r)) :
    Src.Py.Rt.setColA (nodes.map g) j (nodes.map y) = .ok (nodes.map G) := by
  induction nodes with
  | nil => rfl
  | cons r rows ih =>
    simp only [List.map_cons, Src.Py.Rt.setColA]
    rw [ih (fun x hx => h x (List.mem_cons_of_mem _ hx)), h r (List.mem_cons_self ..)]
    rfl

theorem setColsA_map {α β : Type} (nodes : List β) (g G e : β → List α) (lo hi : Option Int)
    (h : ∀ r ∈ nodes, Src.Py.Rt.setSeg (g r) lo hi (e r) = .ok (G r)) :
    Src.Py.Rt.setColsA (nodes.map g) lo hi (nodes.map e) = .ok (nodes.map G) := by
  induction nodes with
  | nil => rfl
  | cons r rows ih =>
    simp only [List.map_cons, Src.Py.Rt.setColsA]
    rw [ih (fun x hx => h x (List.mem_cons_of_mem _ hx)), h r (List.mem_cons_self ..)]
    rfl

theorem mapM_unwrap_some (l : List F) : List.mapM Src.Py.Rt.unwrap (l.map some) = .ok l := by
  induction l with
  | nil => rfl
  | cons x xs ih =>
    rw [List.map_cons, List.mapM_cons, ih]
    rfl

theorem oget_map {β : Type} (nodes : List β) (G : β → List F) :
    Src.Py.Rt.oget (nodes.map fun r => (G r).map some) = .ok (nodes.map G) := by
  unfold Src.Py.Rt.oget
  induction nodes with
  | nil => rfl
  | cons r rows ih =>
    rw [List.map_cons, List.mapM_cons, mapM_unwrap_some, ih]
    rfl

theorem oget_map' {β : Type} (nodes : List β) (g : β → List (Option F)) (G : β → List F)
    (h : ∀ r ∈ nodes, g r = (G r).map some) : Src.Py.Rt.oget (nodes.map g) = .ok (nodes.map G) := by
  rw [List.map_congr_left h]
  exact oget_map nodes G

theorem rowZip_map (f : F → F → F) (v : List F) (nodes : List (List F)) (g : List F → List F)
    (h : ∀ r ∈ nodes, (g r).length = v.length) :
    Src.Py.Rt.rowZip f v (nodes.map g) = .ok (nodes.map fun r => List.zipWith f v (g r)) := by
  unfold Src.Py.Rt.rowZip
  have : ((nodes.map g).all fun x => x.length == v.length) = true := by
    rw [List.all_eq_true]
    intro x hx
    obtain ⟨r, hr, rfl⟩ := List.mem_map.mp hx
    simp [h r hr]
  rw [if_pos this, List.map_map]
  rfl

theorem setSeg_inner {α : Type} (n : Nat) (hn : 1 ≤ n) (z : α) (e : List α) (he : e.length = n - 1) :
    Src.Py.Rt.setSeg (List.replicate (n + 1) z) (some (1 : Int)) (some (-1 : Int)) e = .ok (z :: e ++ [z]) := by
  unfold Src.Py.Rt.setSeg
  simp only [List.length_replicate]
  have ha : Src.Py.Rt.sliceIdx (n + 1) 1 = 1 := by
    unfold Src.Py.Rt.sliceIdx
    simp
  have hb : Src.Py.Rt.sliceIdx (n + 1) (-1) = n := by
    unfold Src.Py.Rt.sliceIdx
    simp
  rw [ha, hb, if_pos he]
  have h1 : List.take 1 (List.replicate (n + 1) z) = [z] := by
    simp [List.take_replicate]
  have h2 : List.drop (max 1 n) (List.replicate (n + 1) z) = [z] := by
    rw [max_eq_right hn, List.drop_replicate]
    simp
  rw [h1, h2]
  rfl

theorem setAt_head {α : Type} (x y : α) (l : List α) : Src.Py.Rt.setAt (x :: l) 0 y = .ok (y :: l) := by
  simp [Src.Py.Rt.setAt, Src.Py.Rt.pos]

theorem setAt_head' {α : Type} (x y z : α) (l : List α) :
    Src.Py.Rt.setAt (x :: l ++ [z]) 0 y = .ok (y :: l ++ [z]) := by
  rw [List.cons_append, setAt_head]
  rfl

theorem setAt_last {α : Type} (x y : α) (l : List α) : Src.Py.Rt.setAt (l ++ [x]) (-1) y = .ok (l ++ [y]) := by
  have hp : Src.Py.Rt.pos (l ++ [x]).length (-1) = .ok l.length := by
    unfold Src.Py.Rt.pos
    rw [if_neg (by omega), if_pos (by simp)]
    congr 1
    simp
  unfold Src.Py.Rt.setAt
  rw [hp]
  simp [Src.Py.Rt.bind]

/-- one row of `elevate_nodes` as the statements of the source build it -/
theorem elevate_row (r : List F) (n : Nat) (hn : 1 ≤ n) (hr : r.length = n) :
    seq r 0 :: ((List.zipWith (fun x y => x + y)
        (List.zipWith (fun x y => x * y) (Src.Py.Rt.arange 1 n) r.dropLast)
        (List.zipWith (fun x y => x * y) ((Src.Py.Rt.arange 1 n : List F).map fun x => ((n : Nat) : F) - x) (r.drop 1))).map
          fun x => x / ((n : Nat) : F)) ++ [seq r (r.length - 1)] = elevateRow r := by
  unfold elevateRow Src.Py.Rt.arange
  apply List.ext_getElem
  · simp [hr]
    omega
  · intro j h1 h2
    simp only [List.length_map, List.length_range] at h2
    rw [hr] at h2
    match j, h1, h2 with
    | 0, _, _ => simp
    | j + 1, h1, h2 =>
      by_cases hjn : j + 1 = n
      · subst hjn
        rw [List.getElem_append_right (by simp [hr])]
        simp [hr]
      · have hlt : j < n - 1 := by omega
        rw [List.getElem_append_left (by simp [hr]; omega), List.getElem_cons_succ]
        have g1 : r[j]? = some r[j] := List.getElem?_eq_getElem (by omega)
        have g2 : r[j + 1]? = some r[j + 1] := List.getElem?_eq_getElem (by omega)
        have e2 : 1 + j = j + 1 := by omega
        simp [hr, hjn, seq, List.getD_eq_getElem?_getD, g1, g2, e2]


theorem mapM_idxLast' (nodes : List (List F)) (h : ∀ r ∈ nodes, r ≠ []) :
    List.mapM Src.Py.Rt.idxLast nodes = .ok (nodes.map fun r => seq r (r.length - 1)) := by
  induction nodes with
  | nil => rfl
  | cons r rows ih =>
    rw [SrcPy.mapM_cons_rt, ih (fun x hx => h x (List.mem_cons_of_mem _ hx)), idxLast_ok _ (h r (List.mem_cons_self ..))]
    rfl

theorem length_arange (a n : Nat) : (Src.Py.Rt.arange a n : List F).length = n - a := by
  simp [Src.Py.Rt.arange]

/-- `elevate_nodes` IS `Model.elevate` (`elevateRow` on every row) on every rectangular array with at least one row and
    one column: the `np.empty` array is filled completely (interior columns by the slice assignment and the division,
    the two end columns by the copies), so reading it succeeds and no uninitialised entry reaches the result -/
theorem elevate_nodes_src (nodes : List (List F)) (n : Nat) (hn : 1 ≤ n) (hne : nodes ≠ [])
    (hrect : ∀ r ∈ nodes, r.length = n) :
    Src.Py.elevate_nodes nodes = .ok (elevate nodes) := by
  unfold Src.Py.elevate_nodes
  rw [shape_rect' nodes n hne hrect]
  simp only [Src.Py.Rt.bind_ok, Src.Py.Rt.cols, slice_none_neg1, slice_1_none]
  rw [rowZip_map _ _ nodes (fun r => r.dropLast) (by intro r hr; simp [length_arange, hrect r hr]),
    rowZip_map _ _ nodes (fun r => r.drop 1) (by intro r hr; simp [length_arange, hrect r hr])]
  simp only [Src.Py.Rt.bind_ok]
  rw [mzip_map _ nodes _ _ (by intro r; simp [length_arange])]
  simp only [Src.Py.Rt.bind_ok]
  have hE : (Src.Py.Rt.oempty nodes.length (n + 1) : List (List (Option F))) =
      nodes.map fun _ => List.replicate (n + 1) none := by
    unfold Src.Py.Rt.oempty
    rw [List.map_const']
  rw [hE]
  unfold Src.Py.Rt.osetCols
  rw [List.map_map,
    setColsA_map nodes _ (fun r => none :: ((fun r => List.map some
      (List.zipWith (fun x y => x + y)
        (List.zipWith (fun x y => x * y) (Src.Py.Rt.arange 1 n) r.dropLast)
        (List.zipWith (fun x y => x * y) ((Src.Py.Rt.arange 1 n : List F).map fun x => ((n : Nat) : F) - x) (r.drop 1)))) r)
      ++ [none]) _ _ _
      (by intro r hr; exact setSeg_inner n hn none _ (by simp [length_arange, hrect r hr]))]
  simp only [Src.Py.Rt.bind_ok, Src.Py.Rt.omap, List.map_map, Function.comp_def, List.map_append, List.map_cons,
    List.map_nil, Option.map_none, Option.map_some]
  rw [mapM_col nodes n 0 (by omega) hrect]
  simp only [Src.Py.Rt.bind_ok]
  unfold Src.Py.Rt.osetCol
  rw [List.map_map, setColA_map nodes _ _ _ _ (fun r _ => setAt_head' _ _ _ _)]
  simp only [Src.Py.Rt.bind_ok]
  rw [mapM_idxLast' nodes (by intro r hr h0; have := hrect r hr; rw [h0] at this; simp at this; omega)]
  simp only [Src.Py.Rt.bind_ok]
  rw [List.map_map, setColA_map nodes _ _ _ _ (fun r _ => setAt_last _ _ _)]
  simp only [Src.Py.Rt.bind_ok, Function.comp_def]
  rw [oget_map' nodes _ (fun r => seq r 0 :: ((List.zipWith (fun x y => x + y)
        (List.zipWith (fun x y => x * y) (Src.Py.Rt.arange 1 n) r.dropLast)
        (List.zipWith (fun x y => x * y) ((Src.Py.Rt.arange 1 n : List F).map fun x => ((n : Nat) : F) - x) (r.drop 1))).map
          fun x => x / ((n : Nat) : F)) ++ [seq r (r.length - 1)]) (by intro r _; simp)]
  unfold elevate
  congr 1
  apply List.map_congr_left
  intro r hr
  exact elevate_row r n hn (hrect r hr)


/-! ## `get_curvature` -/

/-- `get_curvature` of a planar curve (`2 × n` nodes, `n ≥ 2`, tangent `2 × 1`) is `Model.Py.curvature` = the model's
    `curvatureParts` followed by the division by `‖tangent‖³` -/
theorem get_curvature_src (sqrt : F → F) (r0 r1 : List F) (n : Nat) (hn : 2 ≤ n) (h0 : r0.length = n) (h1 : r1.length = n)
    (a b s : F) :
    Src.Py.get_curvature sqrt [r0, r1] [a, b] s = .ok (Py.curvature sqrt 55 [r0, r1] [a, b] s) := by
  have hne : [r0, r1] ≠ [] := by simp
  have hrect : ∀ r ∈ [r0, r1], r.length = n := by
    intro r hr
    rcases List.mem_cons.mp hr with rfl | hr
    · exact h0
    · rcases List.mem_cons.mp hr with rfl | hr
      · exact h1
      · cases hr
  unfold Src.Py.get_curvature Py.curvature curvatureParts
  rw [shape_rect' _ n hne hrect, ncols_rect' _ n hne hrect]
  simp only [Src.Py.Rt.bind_ok]
  by_cases h2 : n = 2
  · simp [h2]
  simp only [h2, ↓reduceIte, Src.Py.Rt.cols, slice_1_none, slice_none_neg1]
  rw [mzip_map _ [r0, r1] (fun r => r.drop 1) (fun r => r.dropLast) (by intro r; simp)]
  simp only [Src.Py.Rt.bind_ok, diffs_zip, List.map_map, Function.comp_def]
  rw [mzip_map _ [r0, r1] (fun r => (diffs r).drop 1) (fun r => (diffs r).dropLast) (by intro r; simp)]
  simp only [Src.Py.Rt.bind_ok, diffs_zip]
  rw [evaluate_multi_src _ (n - 2) (by omega)
    (by intro r hr; obtain ⟨r', h', rfl⟩ := List.mem_map.mp hr; rw [length_diffs, length_diffs, hrect r' h']; omega)]
  have hc : (((n : Int) - 1) * ((n : Int) - 2)) = (((n - 1) * (n - 2) : Nat) : Int) := by
    have e1 : ((n : Int) - 1) = ((n - 1 : Nat) : Int) := by omega
    have e2 : ((n : Int) - 2) = ((n - 2 : Nat) : Int) := by omega
    rw [e1, e2]
    push_cast
    rfl
  simp only [Src.Py.Rt.bind_ok, evalPoint, List.map_cons, List.map_nil, Src.Py.Rt.asPt, Src.Py.cross_product, cross2, seq,
    concavityRow, h0, h1, hc, Nat.cast_mul, List.getD_cons_zero, List.getD_cons_succ]
  have hof : (Src.Py.Rt.ofInt (((n - 1 : Nat) : Int) * ((n - 2 : Nat) : Int)) : F) = ((n - 1 : Nat) : F) * ((n - 2 : Nat) : F) := by
    rw [← Nat.cast_mul, ofInt_nat', Nat.cast_mul]
  rw [hof]


/-! ## `subdivide_nodes` -/

theorem lin_left : (Src.Py.curve_helpers._LINEAR_SUBDIVIDE_LEFT : List (List F)) = leftMat 1 := by
  have r2 : List.range 2 = [0, 1] := by decide
  simp [Src.Py.curve_helpers._LINEAR_SUBDIVIDE_LEFT, leftMat, leftCol, pascalHalfStep, q, r2]
  norm_num
theorem lin_right : (Src.Py.curve_helpers._LINEAR_SUBDIVIDE_RIGHT : List (List F)) = rightMat 1 := by
  have r2 : List.range 2 = [0, 1] := by decide
  simp [Src.Py.curve_helpers._LINEAR_SUBDIVIDE_RIGHT, rightMat, leftCol, pascalHalfStep, q, r2]
  norm_num
theorem quad_left : (Src.Py.curve_helpers._QUADRATIC_SUBDIVIDE_LEFT : List (List F)) = leftMat 2 := by
  have r3 : List.range 3 = [0, 1, 2] := by decide
  simp [Src.Py.curve_helpers._QUADRATIC_SUBDIVIDE_LEFT, leftMat, leftCol, pascalHalfStep, q, r3]
  norm_num
theorem quad_right : (Src.Py.curve_helpers._QUADRATIC_SUBDIVIDE_RIGHT : List (List F)) = rightMat 2 := by
  have r3 : List.range 3 = [0, 1, 2] := by decide
  simp [Src.Py.curve_helpers._QUADRATIC_SUBDIVIDE_RIGHT, rightMat, leftCol, pascalHalfStep, q, r3]
  norm_num
theorem cub_left : (Src.Py.curve_helpers._CUBIC_SUBDIVIDE_LEFT : List (List F)) = leftMat 3 := by
  have r4 : List.range 4 = [0, 1, 2, 3] := by decide
  simp [Src.Py.curve_helpers._CUBIC_SUBDIVIDE_LEFT, leftMat, leftCol, pascalHalfStep, q, r4]
  norm_num
theorem cub_right : (Src.Py.curve_helpers._CUBIC_SUBDIVIDE_RIGHT : List (List F)) = rightMat 3 := by
  have r4 : List.range 4 = [0, 1, 2, 3] := by decide
  simp [Src.Py.curve_helpers._CUBIC_SUBDIVIDE_RIGHT, rightMat, leftCol, pascalHalfStep, q, r4]
  norm_num


theorem setAt_zero {α : Type} (r : List α) (x : α) (h : r ≠ []) : Src.Py.Rt.setAt r 0 x = .ok (r.set 0 x) := by
  have hl := List.length_pos_iff.mpr h
  simp [Src.Py.Rt.setAt, Src.Py.Rt.pos, hl]

theorem mapM_idxLast (nodes : List (List F)) (g : List F → List F) (hg : ∀ r, g r ≠ []) :
    List.mapM Src.Py.Rt.idxLast (nodes.map g) = .ok (nodes.map fun r => seq (g r) ((g r).length - 1)) := by
  induction nodes with
  | nil => rfl
  | cons r rows ih =>
    rw [List.map_cons, SrcPy.mapM_cons_rt, ih, idxLast_ok _ (hg r)]
    rfl

theorem setColA_zero (nodes : List (List F)) (g : List F → List F) (hg : ∀ r, g r ≠ [])
    (y : List F → F) :
    Src.Py.Rt.setColA (nodes.map g) 0 (nodes.map y) = .ok (nodes.map fun r => (g r).set 0 (y r)) := by
  induction nodes with
  | nil => rfl
  | cons r rows ih =>
    simp only [List.map_cons, Src.Py.Rt.setColA]
    rw [ih, setAt_zero _ _ (hg r)]
    rfl

/-- the last statement of `subdivide_nodes`, `right_nodes[:, 0] = left_nodes[:, -1]`, is `Model.withJunction` on every row -/
theorem junction (nodes : List (List F)) (g h : List F → List F) (hg : ∀ r, g r ≠ []) (hh : ∀ r, h r ≠ []) :
    (Src.Py.Rt.bind (List.mapM Src.Py.Rt.idxLast (nodes.map g)) fun t =>
      Src.Py.Rt.bind (Src.Py.Rt.setColA (nodes.map h) (0 : Int) t) fun r' => .ok (nodes.map g, r')) =
      (.ok (nodes.map (fun r => (withJunction (g r, h r)).1), nodes.map (fun r => (withJunction (g r, h r)).2)) :
        Except Err (List (List F) × List (List F))) := by
  rw [mapM_idxLast nodes g hg]
  simp only [Src.Py.Rt.bind_ok]
  rw [setColA_zero nodes h hh]
  rfl

theorem rowMul_ne_nil (r : List F) (M : List (List F)) (h : 1 ≤ ncols M) : rowMul r M ≠ [] := by
  intro hc
  have := congrArg List.length hc
  simp [rowMul] at this
  omega

theorem ncols_leftMat (k : Nat) : ncols (leftMat (K := F) k) = k + 1 := by
  simp [ncols, leftMat, List.range_succ_eq_map]
theorem ncols_rightMat (k : Nat) : ncols (rightMat (K := F) k) = k + 1 := by
  simp [ncols, rightMat, List.range_succ_eq_map]
theorem length_leftMat (k : Nat) : (leftMat (K := F) k).length = k + 1 := by simp [leftMat]
theorem length_rightMat (k : Nat) : (rightMat (K := F) k).length = k + 1 := by simp [rightMat]
theorem rows_leftMat (k : Nat) : ∀ r ∈ leftMat (K := F) k, r.length = k + 1 := by
  intro r hr
  simp only [leftMat, List.mem_map] at hr
  obtain ⟨i, _, rfl⟩ := hr
  simp
theorem rows_rightMat (k : Nat) : ∀ r ∈ rightMat (K := F) k, r.length = k + 1 := by
  intro r hr
  simp only [rightMat, List.mem_map] at hr
  obtain ⟨i, _, rfl⟩ := hr
  simp

/-- both matrix products followed by the junction copy, for the matrices of the model -/
theorem subdivide_with (nodes : List (List F)) (k : Nat) (hne : nodes ≠ []) (hrect : ∀ r ∈ nodes, r.length = k + 1) :
    (Src.Py.Rt.bind (Src.Py.Rt.bind (Src.Py.matrix_product nodes (leftMat k)) fun left_nodes =>
        Src.Py.Rt.bind (Src.Py.matrix_product nodes (rightMat k)) fun right_nodes => .ok (left_nodes, right_nodes))
      fun (left_nodes, right_nodes) =>
      Src.Py.Rt.bind (List.mapM Src.Py.Rt.idxLast left_nodes) fun t =>
      Src.Py.Rt.bind (Src.Py.Rt.setColA right_nodes (0 : Int) t) fun right_nodes => .ok (left_nodes, right_nodes)) =
      .ok (Py.subdivideJ nodes) := by
  rw [matrix_product_src nodes _ (k + 1) (k + 1) hne (by omega) (by omega) hrect (length_leftMat k) (rows_leftMat k),
    matrix_product_src nodes _ (k + 1) (k + 1) hne (by omega) (by omega) hrect (length_rightMat k) (rows_rightMat k)]
  simp only [Src.Py.Rt.bind_ok, matrixProduct, matMul]
  rw [junction nodes _ _ (fun r => rowMul_ne_nil r _ (by rw [ncols_leftMat]; omega))
    (fun r => rowMul_ne_nil r _ (by rw [ncols_rightMat]; omega))]
  unfold Py.subdivideJ Py.subdivideRowJ
  congr 2
  · apply List.map_congr_left
    intro r hr
    simp [hrect r hr]
  · apply List.map_congr_left
    intro r hr
    simp [hrect r hr]


/-- `subdivide_nodes` given what `make_subdivision_matrices` returns on the generic path -/
theorem subdivide_nodes_src_of (nodes : List (List F)) (n : Nat) (hn : 1 ≤ n) (hne : nodes ≠ [])
    (hrect : ∀ r ∈ nodes, r.length = n)
    (hgen : n ≠ 2 → n ≠ 3 → n ≠ 4 →
      Src.Py.make_subdivision_matrices (K := F) ((n : Int) - (1 : Int)) = .ok (leftMat (n - 1), rightMat (n - 1))) :
    Src.Py.curve_helpers.subdivide_nodes nodes = .ok (Py.subdivideJ nodes) := by
  unfold Src.Py.curve_helpers.subdivide_nodes
  rw [shape_rect' nodes n hne hrect]
  simp only [Src.Py.Rt.bind_ok]
  by_cases h2 : n = 2
  · subst h2
    simp only [↓reduceIte, lin_left, lin_right]
    exact subdivide_with nodes 1 hne hrect
  by_cases h3 : n = 3
  · subst h3
    simp only [↓reduceIte, h2, quad_left, quad_right]
    exact subdivide_with nodes 2 hne hrect
  by_cases h4 : n = 4
  · subst h4
    simp only [↓reduceIte, h2, h3, cub_left, cub_right]
    exact subdivide_with nodes 3 hne hrect
  simp only [h2, h3, h4, ↓reduceIte, hgen h2 h3 h4, Src.Py.Rt.bind_ok]
  obtain ⟨k, rfl⟩ : ∃ k, n = k + 1 := ⟨n - 1, by omega⟩
  exact subdivide_with nodes k hne hrect


/-- `subdivide_nodes` on the TABLE path (2, 3 or 4 nodes): the products with the module-level tables (= `leftMat`, `rightMat`)
    followed by the junction copy -/
theorem subdivide_nodes_src_tables (nodes : List (List F)) (n : Nat) (hn : n = 2 ∨ n = 3 ∨ n = 4) (hne : nodes ≠ [])
    (hrect : ∀ r ∈ nodes, r.length = n) :
    Src.Py.curve_helpers.subdivide_nodes nodes = .ok (Py.subdivideJ nodes) :=
  subdivide_nodes_src_of nodes n (by omega) hne hrect (by omega)


/-! ## `make_subdivision_matrices`: arrays as entry functions -/

theorem mk_congr (a b : Nat) (f g : Nat → Nat → F) (h : ∀ i < a, ∀ j < b, f i j = g i j) : mk a b f = mk a b g := by
  unfold mk
  apply List.map_congr_left
  intro i hi
  apply List.map_congr_left
  intro j hj
  exact h i (List.mem_range.mp hi) j (List.mem_range.mp hj)

theorem mfill_eq_mk (a b : Nat) (c : F) : Src.Py.Rt.mfill a b c = mk a b (fun _ _ => c) := by
  unfold Src.Py.Rt.mfill mk
  simp [List.map_const']

theorem pos_nat (n j : Nat) (h : j < n) : Src.Py.Rt.pos n (j : Int) = .ok j := by
  unfold Src.Py.Rt.pos
  rw [if_pos (by omega)]
  simp [h]

theorem pos_neg (n c : Nat) (hc : 0 < c) (hcn : c ≤ n) : Src.Py.Rt.pos n (-(c : Int)) = .ok (n - c) := by
  unfold Src.Py.Rt.pos
  rw [if_neg (by omega), if_pos (by omega)]
  congr 1
  omega

theorem setAt_row (b : Nat) (g : Nat → F) (j : Int) (q : Nat) (hq : q < b) (hj : Src.Py.Rt.pos b j = .ok q) (x : F) :
    Src.Py.Rt.setAt ((List.range b).map g) j x = .ok ((List.range b).map fun c => if c = q then x else g c) := by
  unfold Src.Py.Rt.setAt
  simp only [List.length_map, List.length_range]
  rw [hj]
  simp only [Src.Py.Rt.bind_ok]
  congr 1
  apply List.ext_getElem
  · simp
  · intro i h1 h2
    simp only [List.length_map, List.length_range] at h2
    simp only [List.getElem_set, List.getElem_map, List.getElem_range]
    by_cases h : q = i
    · subst h; simp
    · have h' : ¬ i = q := fun e => h e.symm
      simp [h, h']

theorem setColA_block (L : List Nat) (b : Nat) (f : Nat → Nat → F) (j : Int) (q : Nat) (hq : q < b)
    (hj : Src.Py.Rt.pos b j = .ok q) (w : Nat → F) :
    Src.Py.Rt.setColA (L.map fun i => (List.range b).map (f i)) j (L.map w) =
      .ok (L.map fun i => (List.range b).map fun c => if c = q then w i else f i c) :=
  setColA_map L _ _ w j (fun i _ => setAt_row b (f i) j q hq hj (w i))

theorem mk_drop_take (a b : Nat) (f : Nat → Nat → F) (A B : Nat) (hAB : A ≤ B) (hB : B ≤ a) :
    ((mk a b f).drop A).take (B - A) = (List.range' A (B - A)).map fun i => (List.range b).map (f i) := by
  apply List.ext_getElem
  · simp [mk]
    omega
  · intro i h1 h2
    simp [mk]

theorem mk_splice (a b : Nat) (f g : Nat → Nat → F) (A B : Nat) (hAB : A ≤ B) (hB : B ≤ a) :
    (mk a b f).take A ++ ((List.range' A (B - A)).map fun i => (List.range b).map (g i)) ++ (mk a b f).drop (max A B) =
      mk a b (fun i c => if A ≤ i ∧ i < B then g i c else f i c) := by
  rw [max_eq_right hAB]
  apply List.ext_getElem
  · simp [mk]
    omega
  · intro i h1 h2
    simp only [mk, List.length_map, List.length_range] at h2
    by_cases hA : i < A
    · rw [List.getElem_append_left (by simp [mk]; omega), List.getElem_append_left (by simp [mk]; omega)]
      have : ¬ (A ≤ i ∧ i < B) := by omega
      simp [mk, this]
    · by_cases hBi : i < B
      · rw [List.getElem_append_left (by simp [mk]; omega), List.getElem_append_right (by simp [mk]; omega)]
        have e : A + (i - min A a) = i := by omega
        have : A ≤ i ∧ i < B := by omega
        simp [mk, e, this]
      · rw [List.getElem_append_right (by simp [mk]; omega)]
        have e : B + (i - (min A a + (B - A))) = i := by omega
        have : ¬ (A ≤ i ∧ i < B) := by omega
        simp [mk, e, this]


theorem length_mk (a b : Nat) (f : Nat → Nat → F) : (mk a b f).length = a := by simp [mk]

theorem setColSeg_core (a b : Nat) (f : Nat → Nat → F) (j : Int) (A B q : Nat) (hAB : A ≤ B) (hB : B ≤ a)
    (hq : q < b) (hj : Src.Py.Rt.pos b j = .ok q) (w : Nat → F) :
    (if ((List.range' A (B - A)).map w).length = B - A then
      Src.Py.Rt.bind (Src.Py.Rt.setColA (((mk a b f).drop A).take (B - A)) j ((List.range' A (B - A)).map w)) fun mid =>
        .ok ((mk a b f).take A ++ mid ++ (mk a b f).drop (max A B))
    else .error .badInput) =
      (.ok (mk a b fun i c => if A ≤ i ∧ i < B ∧ c = q then w i else f i c) : Except Err (List (List F))) := by
  simp only [List.length_map, List.length_range', ↓reduceIte]
  rw [mk_drop_take a b f A B hAB hB, setColA_block _ b f j q hq hj w]
  simp only [Src.Py.Rt.bind_ok]
  rw [mk_splice a b f _ A B hAB hB]
  congr 1
  apply mk_congr
  intro i _ c _
  by_cases h1 : A ≤ i ∧ i < B
  · by_cases h2 : c = q
    · simp [h1, h2]
    · simp [h1, h2]
  · have : ¬ (A ≤ i ∧ i < B ∧ c = q) := fun h => h1 ⟨h.1, h.2.1⟩
    simp [h1, this]

/-- the bounds of a Python slice `lo:hi` of a sequence of length `n` -/
def lowB (n : Nat) : Option Int → Nat
  | none => 0
  | some i => Src.Py.Rt.sliceIdx n i
def highB (n : Nat) : Option Int → Nat
  | none => n
  | some i => Src.Py.Rt.sliceIdx n i

/-- `m[lo:hi, j] = v` on an array given by its entries -/
theorem setColSeg_mk (a b : Nat) (f : Nat → Nat → F) (lo hi : Option Int) (j : Int) (A B q : Nat) (hAB : A ≤ B) (hB : B ≤ a)
    (hq : q < b) (hlo : lowB a lo = A) (hhi : highB a hi = B)
    (hj : Src.Py.Rt.pos b j = .ok q) (w : Nat → F) :
    Src.Py.Rt.setColSeg (mk a b f) lo hi j ((List.range' A (B - A)).map w) =
      .ok (mk a b fun i c => if A ≤ i ∧ i < B ∧ c = q then w i else f i c) := by
  unfold Src.Py.Rt.setColSeg
  rw [length_mk]
  cases lo <;> cases hi <;> simp only [lowB, highB] at hlo hhi <;> subst hlo <;> subst hhi <;>
    exact setColSeg_core a b f j _ _ q hAB hB hq hj w

theorem mapM_idxI_rows (L : List Nat) (b : Nat) (f : Nat → Nat → F) (q : Nat) (hq : q < b) :
    (L.map fun i => (List.range b).map (f i)).mapM (fun r => Src.Py.Rt.idxI r (q : Int)) = .ok (L.map fun i => f i q) := by
  induction L with
  | nil => rfl
  | cons i L ih =>
    rw [List.map_cons, SrcPy.mapM_cons_rt, ih]
    have : Src.Py.Rt.idxI ((List.range b).map (f i)) (q : Int) = .ok (f i q) := by
      unfold Src.Py.Rt.idxI Src.Py.Rt.idx
      simp [hq]
    rw [this]
    rfl

/-- `m[lo:hi, j]` of an array given by its entries -/
theorem colSeg_mk (a b : Nat) (f : Nat → Nat → F) (lo hi : Option Int) (A B q : Nat) (hAB : A ≤ B) (hB : B ≤ a) (hq : q < b)
    (hlo : lowB a lo = A) (hhi : highB a hi = B) :
    Src.Py.Rt.colSeg (mk a b f) lo hi (q : Int) = .ok ((List.range' A (B - A)).map fun i => f i q) := by
  unfold Src.Py.Rt.colSeg Src.Py.Rt.slice
  rw [length_mk]
  cases lo <;> cases hi <;> simp only [lowB, highB] at hlo hhi <;> subst hlo <;> subst hhi <;>
    (dsimp only; rw [mk_drop_take a b f _ _ hAB hB]; exact mapM_idxI_rows _ b f q hq)

/-- `m[i, j] = c` on an array given by its entries -/
theorem setEntry_mk (a b : Nat) (f : Nat → Nat → F) (i j : Int) (p q : Nat) (hp : p < a) (hq : q < b)
    (hi : Src.Py.Rt.pos a i = .ok p) (hj : Src.Py.Rt.pos b j = .ok q) (c : F) :
    Src.Py.Rt.setEntry (mk a b f) i j c = .ok (mk a b fun r k => if r = p ∧ k = q then c else f r k) := by
  unfold Src.Py.Rt.setEntry
  rw [length_mk, hi]
  simp only [Src.Py.Rt.bind_ok]
  have hrow : (mk a b f)[p]? = some ((List.range b).map (f p)) := by simp [mk, hp]
  rw [hrow]
  simp only []
  rw [setAt_row b (f p) j q hq hj c]
  simp only [Src.Py.Rt.bind_ok]
  congr 1
  apply List.ext_getElem
  · simp [mk]
  · intro r h1 h2
    simp only [length_mk] at h2
    simp only [mk, List.getElem_set, List.getElem_map, List.getElem_range]
    by_cases h : p = r
    · subst h
      simp
    · have h' : ¬ r = p := fun e => h e.symm
      simp [h, h']


/-! ### the Pascal recurrence of the model, entry by entry -/

theorem length_leftCol (c : Nat) : (leftCol (K := F) c).length = c + 1 := by
  induction c with
  | zero => rfl
  | succ c ih => simp [leftCol, pascalHalfStep, ih]

theorem getD_zipWith_add (l1 l2 : List F) (h : l1.length = l2.length) (r : Nat) :
    (List.zipWith (· + ·) l1 l2).getD r 0 = if r < l1.length then l1.getD r 0 + l2.getD r 0 else 0 := by
  induction l1 generalizing l2 r with
  | nil => simp
  | cons x xs ih =>
    cases l2 with
    | nil => simp at h
    | cons y ys =>
      cases r with
      | zero => simp
      | succ r =>
        simp only [List.zipWith_cons_cons, List.getD_cons_succ, List.length_cons, Nat.add_lt_add_iff_right]
        exact ih ys (by simpa using h) r

theorem getD_map_mul (c : F) (l : List F) (r : Nat) : (l.map fun x => c * x).getD r 0 = c * l.getD r 0 := by
  induction l generalizing r with
  | nil => simp
  | cons x xs ih =>
    cases r with
    | zero => simp
    | succ r => simpa using ih r

theorem getD_append_zero (l : List F) (r : Nat) : (l ++ [0]).getD r 0 = l.getD r 0 := by
  induction l generalizing r with
  | nil => cases r <;> simp
  | cons x xs ih =>
    cases r with
    | zero => simp
    | succ r => simpa using ih r

theorem getD_beyond (l : List F) (r : Nat) (h : l.length ≤ r) : l.getD r 0 = 0 := by
  simp [List.getD_eq_getElem?_getD, List.getElem?_eq_none h]

theorem half_eq : (1 : F) / (1 + 1) = q 1 2 := by
  simp [q]
  norm_num

/-- entry `r` of column `i + 1` of the left matrix from column `i` (`half_prev[r] + half_prev[r - 1]`) -/
theorem getD_leftCol_succ (i r : Nat) :
    (leftCol (K := F) (i + 1)).getD r 0 =
      if r ≤ i + 1 then (q 1 2 : F) * (leftCol (K := F) i).getD r 0 +
        (if r = 0 then 0 else (q 1 2 : F) * (leftCol (K := F) i).getD (r - 1) 0) else 0 := by
  show (pascalHalfStep (leftCol i)).getD r 0 = _
  unfold pascalHalfStep
  simp only [half_eq]
  rw [getD_zipWith_add _ _ (by simp)]
  simp only [List.length_append, List.length_map, length_leftCol, List.length_cons, List.length_nil]
  by_cases h : r ≤ i + 1
  · rw [if_pos (by omega), if_pos h, getD_append_zero, getD_map_mul]
    congr 1
    cases r with
    | zero => simp
    | succ r =>
      rw [List.getD_cons_succ, if_neg (by omega), Nat.add_sub_cancel]
      exact getD_map_mul _ _ _
  · rw [if_neg (by omega), if_neg h]


/-! ### the column loop -/

/-- entries of `left` after the columns `0 .. c` have been filled -/
def fL (c : Nat) : Nat → Nat → F := fun r j => if j ≤ c then (leftCol (K := F) j).getD r 0 else 0

/-- entries of the model's right matrix -/
def rE (k : Nat) : Nat → Nat → F := fun r j =>
  if r + (k - j) < k then 0 else (leftCol (K := F) (k - j)).getD (r + (k - j) - k) 0

/-- entries of `right` after the columns `k - c .. k` have been filled -/
def fR (k c : Nat) : Nat → Nat → F := fun r j => if k - c ≤ j then rE k r j else 0

theorem leftMat_eq (k : Nat) : leftMat (K := F) k = mk (k + 1) (k + 1) (fL k) := by
  show mk (k + 1) (k + 1) (fun r c => (leftCol (K := F) c).getD r 0) = _
  apply mk_congr
  intro r _ c hc
  have : c ≤ k := by omega
  simp [fL, this]

theorem rightMat_eq (k : Nat) : rightMat (K := F) k = mk (k + 1) (k + 1) (fR k k) := by
  show mk (k + 1) (k + 1) (fun r c => if r + (k - c) < k then (0 : F) else (leftCol (K := F) (k - c)).getD (r + (k - c) - k) 0) = _
  apply mk_congr
  intro r _ c hc
  simp [fR, rE]

theorem zip_shift (f : F → F → F) (n : Nat) (g1 g2 : Nat → F) :
    List.zipWith f ((List.range' 1 n).map g1) ((List.range' 0 n).map g2) =
      (List.range' 1 n).map (fun r => f (g1 r) (g2 (r - 1))) := by
  apply List.ext_getElem
  · simp
  · intro j h1 h2
    simp [List.getElem_range']

theorem reindex (A m : Nat) (g : Nat → F) :
    (List.range' 0 m).map g = (List.range' A m).map (fun r => g (r - A)) := by
  apply List.ext_getElem
  · simp
  · intro j h1 h2
    simp [List.getElem_range']

theorem fL_diag (i x : Nat) : fL (F := F) i x i = (leftCol (K := F) i).getD x 0 := by simp [fL]
theorem fL_next (i x : Nat) : fL (F := F) i x (i + 1) = 0 := by simp [fL]

/-- the new column `i + 1` of `left` as the two slice statements build it is column `i + 1` of the model -/
theorem left_entry_col (i r : Nat) :
    (if 1 ≤ r ∧ r < i + 2 ∧ True then
        (if 0 ≤ r ∧ r < i + 1 ∧ True then (q 1 2 : F) * fL i r i else fL i r (i + 1)) + (q 1 2 : F) * fL i (r - 1) i
      else if 0 ≤ r ∧ r < i + 1 ∧ True then (q 1 2 : F) * fL i r i else fL i r (i + 1)) =
      (leftCol (K := F) (i + 1)).getD r 0 := by
  rw [getD_leftCol_succ]
  simp only [fL_diag, fL_next, and_true, Nat.zero_le, true_and]
  rcases Nat.eq_zero_or_pos r with rfl | hr
  · simp
  · by_cases h1 : r ≤ i
    · have a1 : 1 ≤ r ∧ r < i + 2 := by omega
      have a2 : r < i + 1 := by omega
      have a3 : r ≤ i + 1 := by omega
      have a4 : r ≠ 0 := by omega
      simp [a1, a2, a3, a4]
    · by_cases h2 : r = i + 1
      · subst h2
        have z : (leftCol (K := F) i).getD (i + 1) 0 = 0 := getD_beyond _ _ (by rw [length_leftCol])
        have a1 : 1 ≤ i + 1 ∧ i + 1 < i + 2 := by omega
        have a2 : ¬ (i + 1 < i + 1) := by omega
        rw [if_pos a1, if_neg a2, if_pos (le_refl _), if_neg (Nat.succ_ne_zero i), z]
        simp
      · have a1 : ¬ (1 ≤ r ∧ r < i + 2) := by omega
        have a2 : ¬ r < i + 1 := by omega
        have a3 : ¬ r ≤ i + 1 := by omega
        simp [a1, a2, a3]

theorem left_entry (i r c : Nat) :
    (if 1 ≤ r ∧ r < i + 2 ∧ c = i + 1 then
        (if 0 ≤ r ∧ r < i + 1 ∧ True then (q 1 2 : F) * fL i r i else fL i r (i + 1)) + (q 1 2 : F) * fL i (r - 1) i
      else if 0 ≤ r ∧ r < i + 1 ∧ c = i + 1 then (q 1 2 : F) * fL i r i else fL i r c) = fL (F := F) (i + 1) r c := by
  by_cases hc : c = i + 1
  · subst hc
    have := left_entry_col (F := F) i r
    simp only [] at this ⊢
    rw [this]
    simp [fL]
  · have a1 : ¬ (1 ≤ r ∧ r < i + 2 ∧ c = i + 1) := fun h => hc h.2.2
    have a2 : ¬ (0 ≤ r ∧ r < i + 1 ∧ c = i + 1) := fun h => hc h.2.2
    rw [if_neg a1, if_neg a2]
    unfold fL
    by_cases h : c ≤ i
    · have : c ≤ i + 1 := by omega
      simp [h, this]
    · have : ¬ c ≤ i + 1 := by omega
      simp [h, this]

theorem right_entry (k i r c : Nat) (hi : i < k) (hr : r < k + 1) :
    (if k + 1 - (i + 2) ≤ r ∧ r < k + 1 ∧ c = k - (i + 1) then (leftCol (K := F) (i + 1)).getD (r - (k + 1 - (i + 2))) 0
      else fR k i r c) = fR (F := F) k (i + 1) r c := by
  unfold fR rE
  by_cases hc : c = k - (i + 1)
  · subst hc
    have e : k - (k - (i + 1)) = i + 1 := by omega
    have a0 : k - (i + 1) ≤ k - (i + 1) := le_refl _
    have a1 : ¬ k - i ≤ k - (i + 1) := by omega
    simp only [e, a0, a1, ↓reduceIte, and_true]
    by_cases h : r + (i + 1) < k
    · have : ¬ (k + 1 - (i + 2) ≤ r ∧ r < k + 1) := by omega
      rw [if_neg this, if_pos h]
    · have : k + 1 - (i + 2) ≤ r ∧ r < k + 1 := by omega
      have e2 : r - (k + 1 - (i + 2)) = r + (i + 1) - k := by omega
      rw [if_pos this, if_neg h, e2]
  · have a1 : ¬ (k + 1 - (i + 2) ≤ r ∧ r < k + 1 ∧ c = k - (i + 1)) := fun h => hc h.2.2
    rw [if_neg a1]
    by_cases h : k - i ≤ c
    · have : k - (i + 1) ≤ c := by omega
      simp [h, this]
    · have : ¬ k - (i + 1) ≤ c := by omega
      simp [h, this]

theorem sliceIdx_nat (n c : Nat) (h : c ≤ n) : Src.Py.Rt.sliceIdx n (c : Int) = c := by
  unfold Src.Py.Rt.sliceIdx
  rw [if_neg (by omega)]
  simp
  omega

theorem sliceIdx_negc (n c : Nat) (hc : 0 < c) (h : c ≤ n) : Src.Py.Rt.sliceIdx n (-(c : Int)) = n - c := by
  unfold Src.Py.Rt.sliceIdx
  rw [if_pos (by omega)]
  omega

/-- one iteration of the column loop of `make_subdivision_matrices` (the body of the generated fold, verbatim) -/
theorem msm_step (k i col : Nat) (hcol : col = i + 1) (hi : i < k) :
    (Src.Py.Rt.bind (Src.Py.Rt.colSeg (mk (k + 1) (k + 1) (fL (F := F) i)) none (some (col : Int)) ((col : Int) - (1 : Int))) fun t5 =>
      let half_prev := List.map (fun x => (Model.q 1 2 : F) * x) t5
      Src.Py.Rt.bind (Src.Py.Rt.setColSeg (mk (k + 1) (k + 1) (fL (F := F) i)) none (some (col : Int)) (col : Int) half_prev) fun left =>
      Src.Py.Rt.bind (Src.Py.Rt.colSeg left (some (1 : Int)) (some (col + (1 : Nat) : Int)) (col : Int)) fun t6 =>
      Src.Py.Rt.bind (Src.Py.Rt.vzip (fun x y => x + y) t6 half_prev) fun t7 =>
      Src.Py.Rt.bind (Src.Py.Rt.setColSeg left (some (1 : Int)) (some (col + (1 : Nat) : Int)) (col : Int) t7) fun left =>
      let complement := (k : Int) - (col : Int)
      Src.Py.Rt.bind (Src.Py.Rt.colSeg left none (some (col + (1 : Nat) : Int)) (col : Int)) fun t8 =>
      Src.Py.Rt.bind (Src.Py.Rt.setColSeg (mk (k + 1) (k + 1) (fR (F := F) k i)) (some (-(col + (1 : Nat) : Int))) none complement t8) fun right =>
      .ok (left, right)) =
      (.ok (mk (k + 1) (k + 1) (fL (F := F) (i + 1)), mk (k + 1) (k + 1) (fR (F := F) k (i + 1))) :
        Except Err (List (List F) × List (List F))) := by
  subst hcol
  have e1 : (((i + 1 : Nat) : Int) - (1 : Int)) = ((i : Nat) : Int) := by omega
  have e2 : (((i + 1 : Nat) : Int) + ((1 : Nat) : Int)) = ((i + 2 : Nat) : Int) := by omega
  have e3 : ((k : Int) - ((i + 1 : Nat) : Int)) = ((k - (i + 1) : Nat) : Int) := by omega
  simp only [e1, e2, e3]
  have hB1 : highB (k + 1) (some ((i + 1 : Nat) : Int)) = i + 1 := sliceIdx_nat _ _ (by omega)
  have hB2 : highB (k + 1) (some ((i + 2 : Nat) : Int)) = i + 2 := sliceIdx_nat _ _ (by omega)
  have hA1 : lowB (k + 1) (some (1 : Int)) = 1 := sliceIdx_nat _ 1 (by omega)
  have hA3 : lowB (k + 1) (some (-((i + 2 : Nat) : Int))) = k + 1 - (i + 2) := sliceIdx_negc _ _ (by omega) (by omega)
  rw [colSeg_mk (k + 1) (k + 1) (fL i) none (some ((i + 1 : Nat) : Int)) 0 (i + 1) i (by omega) (by omega) (by omega) rfl hB1]
  simp only [Src.Py.Rt.bind_ok, List.map_map, Function.comp_def]
  rw [setColSeg_mk (k + 1) (k + 1) (fL i) none (some ((i + 1 : Nat) : Int)) ((i + 1 : Nat) : Int) 0 (i + 1) (i + 1)
    (by omega) (by omega) (by omega) rfl hB1 (pos_nat _ _ (by omega)) (fun r => (q 1 2 : F) * fL i r i)]
  simp only [Src.Py.Rt.bind_ok]
  rw [colSeg_mk (k + 1) (k + 1) _ (some (1 : Int)) (some ((i + 2 : Nat) : Int)) 1 (i + 2) (i + 1) (by omega) (by omega) (by omega)
    hA1 hB2]
  simp only [Src.Py.Rt.bind_ok]
  rw [show i + 1 - 0 = i + 2 - 1 from by omega, SrcPy.vzip_eq _ _ _ (by simp), zip_shift]
  simp only [Src.Py.Rt.bind_ok]
  rw [setColSeg_mk (k + 1) (k + 1) _ (some (1 : Int)) (some ((i + 2 : Nat) : Int)) ((i + 1 : Nat) : Int) 1 (i + 2) (i + 1)
    (by omega) (by omega) (by omega) hA1 hB2 (pos_nat _ _ (by omega))]
  simp only [Src.Py.Rt.bind_ok]
  rw [colSeg_mk (k + 1) (k + 1) _ none (some ((i + 2 : Nat) : Int)) 0 (i + 2) (i + 1) (by omega) (by omega) (by omega) rfl hB2]
  simp only [Src.Py.Rt.bind_ok]
  rw [reindex (k + 1 - (i + 2)) (i + 2 - 0), show i + 2 - 0 = k + 1 - (k + 1 - (i + 2)) from by omega,
    setColSeg_mk (k + 1) (k + 1) (fR k i) (some (-((i + 2 : Nat) : Int))) none ((k - (i + 1) : Nat) : Int)
      (k + 1 - (i + 2)) (k + 1) (k - (i + 1)) (by omega) (by omega) (by omega) hA3 rfl (pos_nat _ _ (by omega))]
  simp only [Src.Py.Rt.bind_ok, left_entry_col]
  congr 2
  · apply mk_congr
    intro r _ c _
    exact left_entry i r c
  · apply mk_congr
    intro r hr c _
    exact right_entry k i r c hi hr


theorem init_left (k : Nat) :
    mk (k + 1) (k + 1) (fun r c => if r = 0 ∧ c = 0 then (1 : F) else (fun _ _ => (0 : F)) r c) = mk (k + 1) (k + 1) (fL 0) := by
  apply mk_congr
  intro r _ c _
  unfold fL
  by_cases hc : c = 0
  · subst hc
    cases r with
    | zero => simp [leftCol]
    | succ r => simp [leftCol]
  · have : ¬ c ≤ 0 := by omega
    simp [hc, this]

theorem init_right (k : Nat) :
    mk (k + 1) (k + 1) (fun r c => if r = k ∧ c = k then (1 : F) else (fun _ _ => (0 : F)) r c) = mk (k + 1) (k + 1) (fR k 0) := by
  apply mk_congr
  intro r hr c hc
  unfold fR rE
  by_cases h : c = k
  · subst h
    by_cases h2 : r = c
    · subst h2
      simp [leftCol]
    · have : r < c := by omega
      simp [h2, this]
  · have : ¬ k - 0 ≤ c := by omega
    have h' : ¬ (r = k ∧ c = k) := fun x => h x.2
    rw [if_neg h', if_neg this]

/-- `make_subdivision_matrices(k)` IS `(leftMat k, rightMat k)` for every degree `k ≥ 0`: induction over the column loop with
    its in-place column-segment updates -/
theorem make_subdivision_matrices_src (k : Nat) :
    Src.Py.make_subdivision_matrices (K := F) (k : Int) = .ok (leftMat k, rightMat k) := by
  unfold Src.Py.make_subdivision_matrices
  have hg : ¬ ((k : Int) + (1 : Int) < 0) := by omega
  have hS : Int.toNat ((k : Int) + (1 : Int)) = k + 1 := by omega
  have hp0 : Src.Py.Rt.pos (k + 1) (0 : Int) = .ok 0 := by
    unfold Src.Py.Rt.pos
    simp
  have hm1 : Src.Py.Rt.pos (k + 1) (-1 : Int) = .ok k := by
    unfold Src.Py.Rt.pos
    rw [if_neg (by omega), if_pos (by omega)]
    congr 1
    omega
  simp only [hg, ↓reduceIte, Src.Py.Rt.bind_ok, hS, mfill_eq_mk]
  rw [setEntry_mk (k + 1) (k + 1) _ 0 0 0 0 (by omega) (by omega) hp0 hp0,
    setEntry_mk (k + 1) (k + 1) _ (-1) (-1) k k (by omega) (by omega) hm1 hm1]
  simp only [Src.Py.Rt.bind_ok]
  rw [init_left, init_right, show k + 1 - 1 = k from by omega,
    foldM_range' k (fun c => (mk (k + 1) (k + 1) (fL (F := F) c), mk (k + 1) (k + 1) (fR (F := F) k c))) _
      (fun i hi => msm_step k i (i + 1) rfl hi)]
  simp only [Src.Py.Rt.bind_ok]
  rw [leftMat_eq, rightMat_eq]


/-- `subdivide_nodes` IS `Model.Py.subdivideJ` on every rectangular array with at least one row and one column: the table
    path (2, 3, 4 nodes), the generic path (`make_subdivision_matrices`), and on both the junction copy
    `right_nodes[:, 0] = left_nodes[:, -1]` of the repair e1b4310 -/
theorem subdivide_nodes_src (nodes : List (List F)) (n : Nat) (hn : 1 ≤ n) (hne : nodes ≠ [])
    (hrect : ∀ r ∈ nodes, r.length = n) :
    Src.Py.curve_helpers.subdivide_nodes nodes = .ok (Py.subdivideJ nodes) := by
  apply subdivide_nodes_src_of nodes n hn hne hrect
  intro _ _ _
  have e : ((n : Int) - 1) = ((n - 1 : Nat) : Int) := by omega
  rw [e]
  exact make_subdivision_matrices_src (n - 1)

/-! ## `vec_size`, `compute_length` -/

theorem normSq_map {α : Type} (l : List α) (g : α → F) :
    normSq (l.map g) = l.foldl (fun acc r => acc + g r * g r) 0 := by
  unfold normSq
  rw [List.foldl_map]

/-- `vec_size(nodes, s)` = `‖evaluate_multi(nodes, [s])‖₂` -/
theorem vec_size_src (sqrt : F → F) (nodes : List (List F)) (n : Nat) (hn : 1 ≤ n) (hrect : ∀ r ∈ nodes, r.length = n) (s : F) :
    Src.Py.vec_size sqrt nodes s = .ok (sqrt (normSq (evalPoint 55 nodes s))) := by
  unfold Src.Py.vec_size
  rw [evaluate_multi_src nodes n hn hrect]
  rfl

/-- `compute_length` IS `Model.Py.computeLength`: `ValueError` without nodes, `0.0` for one node, `‖v₁ - v₀‖₂` for two
    (the closed forms of `Model.lengthClosedFormSq`), otherwise `scipy.integrate.quad` of the norm of the curve with the
    control net `(N - 1) Δ` over `[0, 1]` -/
theorem compute_length_src (sqrt : F → F) (quad : (F → Except Err F) → F → F → Except Err (F × F))
    (nodes : List (List F)) (n : Nat) (hne : nodes ≠ []) (hrect : ∀ r ∈ nodes, r.length = n) :
    Src.Py.compute_length sqrt quad nodes = Py.computeLength sqrt quad 55 nodes := by
  unfold Src.Py.compute_length Py.computeLength lengthClosedFormSq
  rw [shape_rect' nodes n hne hrect, ncols_rect' nodes n hne hrect]
  simp only [Src.Py.Rt.bind_ok, Src.Py.Rt.cols, slice_1_none, slice_none_neg1]
  rw [mzip_map _ nodes (fun r => r.drop 1) (fun r => r.dropLast) (by intro r; simp)]
  simp only [Src.Py.Rt.bind_ok, diffs_zip, Src.Py.Rt.mmap, List.map_map, Function.comp_def]
  match n, hrect with
  | 0, _ => rfl
  | 1, _ => simp
  | 2, hrect =>
    simp only [OfNat.ofNat_ne_zero, ↓reduceIte, OfNat.ofNat_ne_one]
    rw [mapM_col _ 1 0 (by omega)
      (by intro r hr; obtain ⟨r', h', rfl⟩ := List.mem_map.mp hr; simp [length_diffs, hrect r' h'])]
    simp only [Src.Py.Rt.bind_ok, List.map_map, Function.comp_def, normSq_map]
    congr 2
    apply List.foldl_ext
    intro acc r hr
    obtain ⟨a, b, rfl⟩ := List.length_eq_two.mp (hrect r hr)
    have : (Src.Py.Rt.ofInt 1 : F) = 1 := by
      unfold Src.Py.Rt.ofInt
      simp
    simp [diffs, seq, this]
  | n + 3, hrect =>
    have h0 : n + 3 ≠ 0 := by omega
    have h1 : n + 3 ≠ 1 := by omega
    have h2 : n + 3 ≠ 2 := by omega
    simp only [h0, h1, h2, ↓reduceIte]
    have hD : (nodes.map fun x => (diffs x).map fun x => Src.Py.Rt.ofInt (((n + 3 : Nat) : Int) - 1) * x) =
        Py.lengthDerivNet nodes := by
      unfold Py.lengthDerivNet
      apply List.map_congr_left
      intro r hr
      have e : (((n + 3 : Nat) : Int) - 1) = ((n + 2 : Nat) : Int) := by omega
      rw [e, ofInt_nat', hrect r hr]
      rfl
    rw [hD]
    have hf : (fun x => Src.Py.vec_size sqrt (Py.lengthDerivNet nodes) x) =
        fun s => (.ok (sqrt (normSq (evalPoint 55 (Py.lengthDerivNet nodes) s))) : Except Err F) := by
      funext x
      exact vec_size_src sqrt _ (n + 2) (by omega)
        (by intro r hr; obtain ⟨r', h', rfl⟩ := List.mem_map.mp hr; simp [length_diffs, hrect r' h']) x
    rw [hf]
    cases quad (fun s => .ok (sqrt (normSq (evalPoint 55 (Py.lengthDerivNet nodes) s)))) 0 1 <;> rfl


/-! ## `projection_error`, `maybe_reduce`, `full_reduce`: tables and the abstract-`sqrt` form -/

theorem projMat2 : projectionMat (K := F) 2 = some [[q 1 2, q 1 2], [q 1 2, q 1 2]] := by
  have r2 : List.range 2 = [0, 1] := by decide
  have r1 : List.range 1 = [0] := by decide
  simp [projectionMat, reductionMat, matMul, rowMul, elevMat, elevateRow, unitVec, ncols, col, dot, seq, q, r2, r1]

theorem projMat3 : projectionMat (K := F) 3 =
    some [[q 5 6, q 2 6, q (-1) 6], [q 2 6, q 2 6, q 2 6], [q (-1) 6, q 2 6, q 5 6]] := by
  have r2 : List.range 2 = [0, 1] := by decide
  have r3 : List.range 3 = [0, 1, 2] := by decide
  simp [projectionMat, reductionMat, matMul, rowMul, elevMat, elevateRow, unitVec, ncols, col, dot, seq, q, r2, r3]
  norm_num

theorem projMat4 : projectionMat (K := F) 4 =
    some [[q 19 20, q 3 20, q (-3) 20, q 1 20], [q 3 20, q 11 20, q 9 20, q (-3) 20],
          [q (-3) 20, q 9 20, q 11 20, q 3 20], [q 1 20, q (-3) 20, q 3 20, q 19 20]] := by
  have r3 : List.range 3 = [0, 1, 2] := by decide
  have r4 : List.range 4 = [0, 1, 2, 3] := by decide
  simp [projectionMat, reductionMat, matMul, rowMul, elevMat, elevateRow, unitVec, ncols, col, dot, seq, q, r3, r4]
  norm_num

theorem projMat5 : projectionMat (K := F) 5 =
    some [[q 69 70, q 4 70, q (-6) 70, q 4 70, q (-1) 70], [q 4 70, q 54 70, q 24 70, q (-16) 70, q 4 70],
          [q (-6) 70, q 24 70, q 34 70, q 24 70, q (-6) 70], [q 4 70, q (-16) 70, q 24 70, q 54 70, q 4 70],
          [q (-1) 70, q 4 70, q (-6) 70, q 4 70, q 69 70]] := by
  have r5 : List.range 5 = [0, 1, 2, 3, 4] := by decide
  have r4 : List.range 4 = [0, 1, 2, 3] := by decide
  simp [projectionMat, reductionMat, matMul, rowMul, elevMat, elevateRow, unitVec, ncols, col, dot, seq, q, r5, r4]
  norm_num

theorem proj2 (r : List F) (h : r.length = 2) :
    (rowMul r (Src.Py.curve_helpers._PROJECTION0 : List (List F))).map (fun x => x / (1 : F)) =
      rowMul r [[q 1 2, q 1 2], [q 1 2, q 1 2]] := by
  obtain ⟨a, b, rfl⟩ := List.length_eq_two.mp h
  have r2 : List.range 2 = [0, 1] := by decide
  simp [rowMul, ncols, col, dot, Src.Py.curve_helpers._PROJECTION0, q, r2]

theorem proj3 (r : List F) (h : r.length = 3) :
    (rowMul r (Src.Py.curve_helpers._PROJECTION1 : List (List F))).map (fun x => x / ((3 : Nat) : F)) =
      rowMul r [[q 5 6, q 2 6, q (-1) 6], [q 2 6, q 2 6, q 2 6], [q (-1) 6, q 2 6, q 5 6]] := by
  obtain ⟨a, b, c, rfl⟩ := List.length_eq_three.mp h
  have r3 : List.range 3 = [0, 1, 2] := by decide
  simp [rowMul, ncols, col, dot, Src.Py.curve_helpers._PROJECTION1, q, r3]
  refine ⟨?_, ?_, ?_⟩ <;> ring

theorem proj4 (r : List F) (h : r.length = 4) :
    (rowMul r (Src.Py.curve_helpers._PROJECTION2 : List (List F))).map (fun x => x / ((5 : Nat) : F)) =
      rowMul r [[q 19 20, q 3 20, q (-3) 20, q 1 20], [q 3 20, q 11 20, q 9 20, q (-3) 20],
          [q (-3) 20, q 9 20, q 11 20, q 3 20], [q 1 20, q (-3) 20, q 3 20, q 19 20]] := by
  obtain ⟨a, b, c, d, rfl⟩ := length_eq_four h
  have r4 : List.range 4 = [0, 1, 2, 3] := by decide
  simp [rowMul, ncols, col, dot, Src.Py.curve_helpers._PROJECTION2, q, r4]
  refine ⟨?_, ?_, ?_, ?_⟩ <;> ring

theorem proj5 (r : List F) (h : r.length = 5) :
    (rowMul r (Src.Py.curve_helpers._PROJECTION3 : List (List F))).map (fun x => x / ((35 : Nat) : F)) =
      rowMul r [[q 69 70, q 4 70, q (-6) 70, q 4 70, q (-1) 70], [q 4 70, q 54 70, q 24 70, q (-16) 70, q 4 70],
          [q (-6) 70, q 24 70, q 34 70, q 24 70, q (-6) 70], [q 4 70, q (-16) 70, q 24 70, q 54 70, q 4 70],
          [q (-1) 70, q 4 70, q (-6) 70, q 4 70, q 69 70]] := by
  obtain ⟨a, b, c, d, e, rfl⟩ := length_eq_five h
  have r5 : List.range 5 = [0, 1, 2, 3, 4] := by decide
  simp [rowMul, ncols, col, dot, Src.Py.curve_helpers._PROJECTION3, q, r5]
  refine ⟨?_, ?_, ?_, ?_, ?_⟩ <;> ring

/-- `A - B` of two arrays of the same rectangular shape -/
theorem mzip_rect (f : F → F → F) (a b : List (List F)) (n : Nat) (hlen : a.length = b.length)
    (ha : ∀ r ∈ a, r.length = n) (hb : ∀ r ∈ b, r.length = n) :
    Src.Py.Rt.mzip f a b = .ok (List.zipWith (List.zipWith f) a b) := by
  induction a generalizing b with
  | nil =>
    cases b with
    | nil => rfl
    | cons y ys => simp at hlen
  | cons x xs ih =>
    cases b with
    | nil => simp at hlen
    | cons y ys =>
      have hx := ha x (List.mem_cons_self ..)
      have hy := hb y (List.mem_cons_self ..)
      simp only [Src.Py.Rt.mzip, hx, hy, ↓reduceIte,
        ih ys (by simpa using hlen) (fun r hr => ha r (List.mem_cons_of_mem _ hr))
          (fun r hr => hb r (List.mem_cons_of_mem _ hr)), Src.Py.Rt.bind_ok, List.zipWith_cons_cons]

/-- `projection_error` for two arrays of the same rectangular shape, abstract `sqrt` -/
theorem projection_error_src' (sqrt : F → F) (nodes projected : List (List F)) (n : Nat)
    (hlen : nodes.length = projected.length)
    (ha : ∀ r ∈ nodes, r.length = n) (hb : ∀ r ∈ projected, r.length = n) :
    Src.Py.projection_error sqrt nodes projected =
      .ok (let e := sqrt (frobSq (List.zipWith subRow nodes projected))
           if e ≠ 0 then e / sqrt (frobSq nodes) else e) := by
  unfold Src.Py.projection_error
  rw [mzip_rect _ nodes projected n hlen ha hb]
  rfl


end Field

/-! ## `maybe_reduce`, `full_reduce` over `ℝ` with `Real.sqrt` (the code takes norms, the model compares squares) -/

section Real

/-! ## real-number facts about `frobSq` -/

theorem frobSq_acc (m : List (List ℝ)) (a : ℝ) :
    m.foldl (fun acc r => r.foldl (fun a x => a + x * x) acc) a = a + (m.map fun r => normSq r).sum := by
  induction m generalizing a with
  | nil => simp
  | cons r rs ih =>
    rw [List.foldl_cons, ih, NormReal.foldl_sq_acc, List.map_cons, List.sum_cons, NormReal.normSq_eq_sum]
    ring

theorem frobSq_eq_sum (m : List (List ℝ)) : frobSq m = (m.map fun r => normSq r).sum := by
  unfold frobSq
  rw [frobSq_acc]
  ring

theorem frobSq_cons (r : List ℝ) (m : List (List ℝ)) : frobSq (r :: m) = normSq r + frobSq m := by
  simp [frobSq_eq_sum]

theorem frobSq_nonneg (m : List (List ℝ)) : 0 ≤ frobSq m := by
  induction m with
  | nil => simp [frobSq]
  | cons r rs ih =>
    rw [frobSq_cons]
    have := NormReal.normSq_nonneg r
    linarith

theorem frobSq_eq_zero_iff (m : List (List ℝ)) : frobSq m = 0 ↔ ∀ r ∈ m, ∀ x ∈ r, x = 0 := by
  induction m with
  | nil => simp [frobSq]
  | cons r rs ih =>
    rw [frobSq_cons]
    have h1 := NormReal.normSq_nonneg r
    have h2 := frobSq_nonneg rs
    constructor
    · intro h
      have hr : normSq r = 0 := by linarith
      have hrs : frobSq rs = 0 := by linarith
      intro y hy
      rcases List.mem_cons.mp hy with rfl | hy
      · exact (NormReal.normSq_eq_zero_iff _).mp hr
      · exact ih.mp hrs y hy
    · intro h
      have hr : normSq r = 0 := (NormReal.normSq_eq_zero_iff r).mpr (h r (List.mem_cons_self ..))
      have hrs : frobSq rs = 0 := ih.mpr (fun y hy => h y (List.mem_cons_of_mem _ hy))
      rw [hr, hrs]
      ring

theorem dot_zero_left (r c : List ℝ) (h : ∀ x ∈ r, x = 0) : dot r c = 0 := by
  unfold dot
  induction r generalizing c with
  | nil => simp
  | cons x xs ih =>
    cases c with
    | nil => simp
    | cons y ys =>
      have hx : x = 0 := h x (List.mem_cons_self ..)
      simp only [List.zipWith_cons_cons, List.foldl_cons, hx, zero_mul, add_zero]
      exact ih ys (fun z hz => h z (List.mem_cons_of_mem _ hz))

theorem subRow_zero (r s : List ℝ) (hr : ∀ x ∈ r, x = 0) (hs : ∀ y ∈ s, y = 0) : ∀ z ∈ subRow r s, z = 0 := by
  unfold subRow
  induction r generalizing s with
  | nil => simp
  | cons x xs ih =>
    cases s with
    | nil => simp
    | cons y ys =>
      intro z hz
      rw [List.zipWith_cons_cons] at hz
      rcases List.mem_cons.mp hz with rfl | hz
      · rw [hr x (List.mem_cons_self ..), hs y (List.mem_cons_self ..)]
        ring
      · exact ih ys (fun a ha => hr a (List.mem_cons_of_mem _ ha)) (fun a ha => hs a (List.mem_cons_of_mem _ ha)) z hz

theorem zipWith_subRow_map (nodes : List (List ℝ)) (g : List ℝ → List ℝ) :
    List.zipWith subRow nodes (nodes.map g) = nodes.map fun r => subRow r (g r) := by
  induction nodes with
  | nil => rfl
  | cons r rs ih => simp only [List.map_cons, List.zipWith_cons_cons, ih]

/-- a zero array has projection error zero, whatever the projection matrix: the case `‖nodes‖ = 0 < ‖nodes - projected‖`
    (in which the source would divide by zero) does not occur -/
theorem frobSq_zero_proj (nodes P : List (List ℝ)) (h : frobSq nodes = 0) :
    frobSq (List.zipWith subRow nodes (matMul nodes P)) = 0 := by
  rw [frobSq_eq_zero_iff] at h ⊢
  unfold matMul
  rw [zipWith_subRow_map]
  intro s hs x hx
  obtain ⟨r, hr, rfl⟩ := List.mem_map.mp hs
  refine subRow_zero r _ (h r hr) ?_ x hx
  intro y hy
  unfold rowMul at hy
  obtain ⟨c, _, rfl⟩ := List.mem_map.mp hy
  exact dot_zero_left r _ (h r hr)

theorem sqrt_div_lt_iff (e N t : ℝ) (hN : 0 < N) (ht : 0 < t) :
    Real.sqrt e / Real.sqrt N < t ↔ e < t ^ 2 * N := by
  have hsN : 0 < Real.sqrt N := Real.sqrt_pos.mpr hN
  rw [div_lt_iff₀ hsN, Real.sqrt_lt' (mul_pos ht hsN), mul_pow, Real.sq_sqrt hN.le]

/-- `projection_error` over the reals with the exact square root -/
theorem projection_error_src (nodes projected : List (List ℝ)) (n : Nat)
    (hlen : nodes.length = projected.length)
    (ha : ∀ r ∈ nodes, r.length = n) (hb : ∀ r ∈ projected, r.length = n) :
    Src.Py.projection_error Real.sqrt nodes projected =
      .ok (let e := Real.sqrt (frobSq (List.zipWith subRow nodes projected))
           if e ≠ 0 then e / Real.sqrt (frobSq nodes) else e) :=
  projection_error_src' Real.sqrt nodes projected n hlen ha hb

theorem thr_pos : (0 : ℝ) < (q 1 67108864 : ℝ) := by
  norm_num [q]

/-- the test of `maybe_reduce` (relative error `< 2^-26`, with the square roots) IS the squared test of `Model.canReduce` -/
theorem rel_test (e N t : ℝ) (he : 0 ≤ e) (hN : 0 ≤ N) (ht : 0 < t) (h0 : N = 0 → e = 0) :
    ((if Real.sqrt e ≠ 0 then Real.sqrt e / Real.sqrt N else Real.sqrt e) < t) ↔ (¬ (0 < e) ∨ e < t ^ 2 * N) := by
  by_cases hz : e = 0
  · subst hz
    simp [ht]
  · have hpos : 0 < e := lt_of_le_of_ne he (Ne.symm hz)
    have hNpos : 0 < N := lt_of_le_of_ne hN (fun h => hz (h0 h.symm))
    have hs : Real.sqrt e ≠ 0 := (Real.sqrt_pos.mpr hpos).ne'
    rw [if_pos hs, sqrt_div_lt_iff e N t hNpos ht]
    constructor
    · intro h
      exact Or.inr h
    · rintro (h | h)
      · exact absurd hpos h
      · exact h

/-- one branch of `maybe_reduce`: the product with the un-normalised projection table, the division, the relative error,
    the comparison and the reduction -/
theorem maybe_reduce_branch (nodes : List (List ℝ)) (n : Nat) (hn : 1 ≤ n) (hne : nodes ≠ [])
    (hrect : ∀ r ∈ nodes, r.length = n) (T P : List (List ℝ)) (d : ℝ)
    (hT : T.length = n) (hTr : ∀ r ∈ T, r.length = n) (hP : ncols P = n)
    (hrow : ∀ r : List ℝ, r.length = n → (rowMul r T).map (fun x => x / d) = rowMul r P) :
    (Src.Py.Rt.bind (Src.Py.matrix_product nodes T) fun t2 =>
      Src.Py.Rt.bind (Src.Py.projection_error Real.sqrt nodes (Src.Py.Rt.mmap (fun x => x / d) t2)) fun relative_err =>
      if relative_err < (q 1 67108864 : ℝ) then
        Src.Py.Rt.bind (Src.Py.reduce_pseudo_inverse nodes) fun t4 => .ok (true, t4)
      else .ok (false, nodes)) =
    (match (.ok (!(decide ((0 : ℝ) < frobSq (List.zipWith subRow nodes (matMul nodes P)))) ||
          decide (frobSq (List.zipWith subRow nodes (matMul nodes P)) < (q 1 67108864 : ℝ) ^ 2 * frobSq nodes)) :
          Except Err Bool) with
      | .error e => .error e
      | .ok false => .ok (false, nodes)
      | .ok true =>
        (match reducePinv nodes with
          | .error e => .error e
          | .ok r => .ok (true, r))) := by
  rw [matrix_product_src nodes T n n hne hn hn hrect hT hTr]
  simp only [Src.Py.Rt.bind_ok]
  have hproj : Src.Py.Rt.mmap (fun x => x / d) (matrixProduct nodes T) = matMul nodes P := by
    simp only [Src.Py.Rt.mmap, matrixProduct, matMul, List.map_map]
    apply List.map_congr_left
    intro r hr
    exact hrow r (hrect r hr)
  rw [hproj, projection_error_src nodes (matMul nodes P) n (by simp [matMul]) hrect
    (by intro r hr
        simp only [matMul, List.mem_map] at hr
        obtain ⟨s, _, rfl⟩ := hr
        simp [rowMul, hP]),
    reduce_pseudo_inverse_src nodes n hne hrect]
  simp only [Src.Py.Rt.bind_ok]
  have hiff := rel_test (frobSq (List.zipWith subRow nodes (matMul nodes P))) (frobSq nodes) (q 1 67108864 : ℝ)
    (frobSq_nonneg _) (frobSq_nonneg _) thr_pos (frobSq_zero_proj nodes P)
  by_cases hc : (¬ ((0 : ℝ) < frobSq (List.zipWith subRow nodes (matMul nodes P))) ∨
      frobSq (List.zipWith subRow nodes (matMul nodes P)) < (q 1 67108864 : ℝ) ^ 2 * frobSq nodes)
  · have hb : (!(decide ((0 : ℝ) < frobSq (List.zipWith subRow nodes (matMul nodes P)))) ||
          decide (frobSq (List.zipWith subRow nodes (matMul nodes P)) < (q 1 67108864 : ℝ) ^ 2 * frobSq nodes)) = true := by
      simpa using hc
    rw [if_pos (hiff.mpr hc), hb]
    cases reducePinv nodes <;> rfl
  · have hb : (!(decide ((0 : ℝ) < frobSq (List.zipWith subRow nodes (matMul nodes P)))) ||
          decide (frobSq (List.zipWith subRow nodes (matMul nodes P)) < (q 1 67108864 : ℝ) ^ 2 * frobSq nodes)) = false := by
      simpa using hc
    rw [if_neg (fun h => hc (hiff.mp h)), hb]

/-- **`maybe_reduce` IS the model's `canReduce` followed by `reducePinv`** (`K = ℝ`, `sqrt = Real.sqrt`, threshold
    `(2^-26)²` in the squared test of the model), on every rectangular array with at least one row and EVERY number of
    columns (fewer than 2: not reduced; more than 5: `UnsupportedDegree` on both sides). -/
theorem maybe_reduce_src (nodes : List (List ℝ)) (n : Nat) (hne : nodes ≠ []) (hrect : ∀ r ∈ nodes, r.length = n) :
    Src.Py.maybe_reduce Real.sqrt nodes =
      (match canReduce ((q 1 67108864 : ℝ) ^ 2) nodes with
        | .error e => .error e
        | .ok false => .ok (false, nodes)
        | .ok true =>
          (match reducePinv nodes with
            | .error e => .error e
            | .ok r => .ok (true, r))) := by
  unfold Src.Py.maybe_reduce canReduce
  rw [shape_rect' nodes n hne hrect, ncols_rect' nodes n hne hrect]
  simp only [Src.Py.Rt.bind_ok]
  by_cases h1 : n < 2
  · simp only [h1, ↓reduceIte]
  by_cases h2 : n = 2
  · subst h2
    simp only [h1, ↓reduceIte, projMat2]
    exact maybe_reduce_branch nodes 2 (by omega) hne hrect _ _ _ rfl
      (by simp [Src.Py.curve_helpers._PROJECTION0]) (by simp [ncols]) proj2
  by_cases h3 : n = 3
  · subst h3
    simp only [h1, h2, ↓reduceIte, projMat3]
    exact maybe_reduce_branch nodes 3 (by omega) hne hrect _ _ _ rfl
      (by simp [Src.Py.curve_helpers._PROJECTION1]) (by simp [ncols]) proj3
  by_cases h4 : n = 4
  · subst h4
    simp only [h1, h2, h3, ↓reduceIte, projMat4]
    exact maybe_reduce_branch nodes 4 (by omega) hne hrect _ _ _ rfl
      (by simp [Src.Py.curve_helpers._PROJECTION2]) (by simp [ncols]) proj4
  by_cases h5 : n = 5
  · subst h5
    simp only [h1, h2, h3, h4, ↓reduceIte, projMat5]
    exact maybe_reduce_branch nodes 5 (by omega) hne hrect _ _ _ rfl
      (by simp [Src.Py.curve_helpers._PROJECTION3]) (by simp [ncols]) proj5
  have hnone : projectionMat (K := ℝ) n = none := by
    match n, h1, h2, h3, h4, h5 with
    | 0, h1, _, _, _, _ => exact absurd (by omega) h1
    | 1, h1, _, _, _, _ => exact absurd (by omega) h1
    | n + 6, _, _, _, _, _ => rfl
  simp only [h1, h2, h3, h4, h5, ↓reduceIte, hnone]


theorem ncols_reductionMat (n : Nat) (R : List (List ℝ)) (h : reductionMat (K := ℝ) n = some R) : ncols R = n - 1 := by
  match n, h with
  | 2, h => cases h; rfl
  | 3, h => cases h; rfl
  | 4, h => cases h; rfl
  | 5, h => cases h; rfl

/-- a successful `reducePinv` of a rectangular array with `n` columns is rectangular with `n - 1` columns -/
theorem reducePinv_rect (nodes r : List (List ℝ)) (n : Nat) (hne : nodes ≠ []) (hrect : ∀ s ∈ nodes, s.length = n)
    (h : reducePinv nodes = .ok r) : r ≠ [] ∧ ∀ s ∈ r, s.length = n - 1 := by
  unfold reducePinv at h
  rw [ncols_rect' nodes n hne hrect] at h
  cases hR : reductionMat (K := ℝ) n with
  | none => rw [hR] at h; cases h
  | some R =>
    rw [hR] at h
    cases h
    constructor
    · simpa [matMul] using hne
    · intro s hs
      simp only [matMul, List.mem_map] at hs
      obtain ⟨t, _, rfl⟩ := hs
      simp [rowMul, ncols_reductionMat n R hR]

theorem canReduce_small (t : ℝ) (nodes : List (List ℝ)) (h : ncols nodes < 2) : canReduce t nodes = .ok false := by
  unfold canReduce
  simp only [h, ↓reduceIte]

theorem whileM_false (fuel : Nat) (nd : List (List ℝ))
    (step : List (List ℝ) × Bool → Except Err (List (List ℝ) × Bool)) :
    Src.Py.Rt.whileM fuel (nd, false) (fun (_, was_reduced) => was_reduced) step = .ok (nd, false) := by
  cases fuel <;> rfl

theorem full_reduce_go (k : Nat) : ∀ (fuel : Nat) (nodes : List (List ℝ)) (n : Nat), nodes ≠ [] →
    (∀ r ∈ nodes, r.length = n) → n ≤ k + 1 → k ≤ fuel →
    Src.Py.full_reduce Real.sqrt fuel nodes = fullReduce.go ((q 1 67108864 : ℝ) ^ 2) k nodes := by
  induction k with
  | zero =>
    intro fuel nodes n hne hrect hnk _
    unfold Src.Py.full_reduce
    rw [maybe_reduce_src nodes n hne hrect, canReduce_small _ _ (by rw [ncols_rect' nodes n hne hrect]; omega)]
    simp only [Src.Py.Rt.bind_ok, whileM_false]
    rfl
  | succ k ih =>
    intro fuel nodes n hne hrect hnk hfuel
    unfold Src.Py.full_reduce
    rw [maybe_reduce_src nodes n hne hrect, fullReduce.go]
    cases hc : canReduce ((q 1 67108864 : ℝ) ^ 2) nodes with
    | error e => rfl
    | ok b =>
      cases b with
      | false =>
        simp only [Src.Py.Rt.bind_ok, whileM_false]
      | true =>
        cases hr : reducePinv nodes with
        | error e => rfl
        | ok r =>
          obtain ⟨f, rfl⟩ : ∃ f, fuel = f + 1 := ⟨fuel - 1, by omega⟩
          obtain ⟨rne, rrect⟩ := reducePinv_rect nodes r n hne hrect hr
          have h := ih f r (n - 1) rne rrect (by omega) (by omega)
          dsimp only
          rw [← h]
          unfold Src.Py.full_reduce
          simp only [Src.Py.Rt.bind_ok, Src.Py.Rt.whileM]
          cases Src.Py.maybe_reduce Real.sqrt r with
          | error e => rfl
          | ok p => rfl

/-- **`full_reduce` IS `Model.fullReduce`** (`K = ℝ`, `sqrt = Real.sqrt`, threshold `(2^-26)²`) on every rectangular
    array with at least one row and `n` columns, for every `fuel ≥ n - 1` of the translated `while` loop (in particular
    every `fuel ≥ n`): each successful reduction removes one column and an array with fewer than 2 columns is never
    reduced, so the Python `while` stops within the model's loop bound `num_nodes - 1`, and the `Err.recursion` answer of
    `Rt.whileM` is never produced. -/
theorem full_reduce_src (fuel : Nat) (nodes : List (List ℝ)) (n : Nat) (hne : nodes ≠ [])
    (hrect : ∀ r ∈ nodes, r.length = n) (hfuel : n - 1 ≤ fuel) :
    Src.Py.full_reduce Real.sqrt fuel nodes = fullReduce ((q 1 67108864 : ℝ) ^ 2) nodes := by
  unfold fullReduce
  rw [ncols_rect' nodes n hne hrect]
  exact full_reduce_go (n - 1) fuel nodes n hne hrect (by omega) hfuel

end Real

end BezierVerif.SrcPyCurve
