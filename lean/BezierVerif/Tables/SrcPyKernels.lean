import BezierVerif.Generated.SrcPy
import BezierVerif.Tables.SrcPy
import BezierVerif.Tables.SrcPyReal
import Mathlib.Algebra.Field.Basic
import Mathlib.Data.Nat.Cast.Basic
import Mathlib.Order.Defs.LinearOrder

/-!
# Tables/SrcPyKernels — translated loops, lists, stateful pieces and evaluation kernels equal the model

Phase 2 of the source-to-Lean tie (`harness/translate_py.py` → `Generated/SrcPy.lean`, namespace `BezierVerif.Src.Py`):
Python `for` loops become folds over the iterated list (`List.foldl`, `Rt.foldM` when the body can raise, `Rt.forE` /
`Rt.forM` when it can `return`), lists that are updated in place are threaded through, NumPy array expressions become
row-wise list operations.  Every theorem states that the generated definition IS the hand-written model definition on
the stated domain; a semantic change of the source breaks it.

| source function (hazmat/…)                     | theorem(s)                                        | model definition                         | domain |
|------------------------------------------------|---------------------------------------------------|------------------------------------------|--------|
| helpers.is_separating                          | `is_separating_eq`, `is_separating_src`           | `paramRange`/`sepRanges`, `Py.isSeparating` | any `K`; all inputs resp. direction ≠ 0 (the NaN case) |
| helpers.polygon_collide                        | `polygon_collide_eq`, `polygon_collide_src`       | `polygonEdgeDirs`, `Py.polygonCollide`   | any `K`; all inputs resp. no zero edge direction |
| helpers.in_sorted                              | `in_sorted_src`                                   | `Py.inSorted` (`bisectLeft`)             | all inputs |
| helpers.matrix_product                         | `matrix_product_src`                              | `matrixProduct` (`matMul`)               | any field; `r × n` times `n × p`, `r, n, p ≥ 1` |
| geometric_intersection.linearization_error     | `linearization_error_src`, `linearization_error_sq` | `NormReal.linearizationErrorNorm`, `linearizationErrorSq` | `ℝ`, `Real.sqrt`; rectangular, ≥ 1 row |
| geometric_intersection.add_intersection        | `add_intersection_src`                            | `addIntersection`                        | `ℝ`; `G.zeroThr = 2^-10`, `G.ratioSq = (2^-36)²` |
| geometric_intersection.endpoint_check          | `endpoint_check_src`                              | `endpointCheck`                          | `ℝ`; equal lengths; `P.vectorClose` = squared `vector_close`, `eps = 2^-40` |
| geometric_intersection.tangent_bbox_intersection | `tangent_bbox_intersection_src`                 | `tangentBbox`                            | `ℝ`; same dimension, no empty row |
| curve_helpers.de_casteljau_one_round           | `de_casteljau_one_round_src`                      | `dcRound` on every row                   | any `K`, all inputs |
| curve_helpers.evaluate_multi_vs                | `evaluate_multi_vs_src`                           | `evalVS` (`vsLoop`, `vsStep`)            | any field; ONE parameter; rectangular, `n ≥ 1` columns |
| curve_helpers.evaluate_multi_de_casteljau      | `evaluate_multi_de_casteljau_src`                 | `evalDC`                                 | any field; ONE parameter; rectangular, `n ≥ 2`, ≥ 1 row |
| curve_helpers.evaluate_multi_barycentric       | `evaluate_multi_barycentric_src`                  | `evalBary 55`                            | as above, `n ≥ 1` |
| curve_helpers.evaluate_multi                   | `evaluate_multi_src`                              | `evalPoint 55`                           | as above |
| curve_helpers.evaluate_hodograph               | `evaluate_hodograph_src`                          | `hodograph 55`                           | `n ≥ 2`, ≥ 1 row |
| curve_helpers.newton_refine                    | `newton_refine_src`                               | `newtonRefine 55`                        | `n ≥ 2`, ≥ 1 row, `point` with one entry per row |

"any field" means `[Field F] [LinearOrder F]` (the order is not used; it only supplies the comparison instances the
generated file declares).  `ℝ` appears where the code takes a norm and the model compares squares.
-/

set_option linter.unusedSectionVars false

namespace BezierVerif.SrcPyKernels

open BezierVerif BezierVerif.Model
open BezierVerif.Src.Py (Rt.Ext)

variable {K : Type} [Add K] [Sub K] [Mul K] [Div K] [Neg K] [OfNat K 0] [OfNat K 1] [NatCast K]
  [LT K] [DecidableLT K] [LE K] [DecidableLE K] [DecidableEq K]

/-! ## reading the columns of `rowsOf pts` -/

theorem shape2_rowsOf (pts : List (Pt K)) :
    Src.Py.Rt.shape2 (pts.map (·.1)) (pts.map (·.2)) = .ok pts.length := by
  simp [Src.Py.Rt.shape2]

theorem idx_map (f : Pt K → K) (pts : List (Pt K)) (i : Nat) (h : i < pts.length) :
    Src.Py.Rt.idx (pts.map f) i = .ok (f (getP pts i)) := by
  unfold Src.Py.Rt.idx getP
  simp [List.getD_eq_getElem?_getD, List.getElem?_eq_getElem h]

theorem map_range_getP (pts : List (Pt K)) : (List.range pts.length).map (getP pts) = pts := by
  apply List.ext_getElem
  · simp
  · intro n h1 h2
    simp [getP, List.getD_eq_getElem?_getD, List.getElem?_eq_getElem h2]

/-- a `for index in range(N)` loop that reads column `index` and updates its state without raising is the
    left fold over the columns -/
theorem foldM_cols {σ : Type} (pts : List (Pt K)) (g : σ → Pt K → σ)
    (F : σ → Nat → Except Err σ)
    (hF : ∀ st i, F st i = Src.Py.Rt.bind (Src.Py.Rt.idx (pts.map (·.1)) i) fun a =>
      Src.Py.Rt.bind (Src.Py.Rt.idx (pts.map (·.2)) i) fun b => .ok (g st (a, b))) (init : σ) :
    Src.Py.Rt.foldM (List.range pts.length) init F = .ok (pts.foldl g init) := by
  have key : ∀ (xs : List Nat) (init : σ), (∀ i ∈ xs, i < pts.length) →
      Src.Py.Rt.foldM xs init F = .ok ((xs.map (getP pts)).foldl g init) := by
    intro xs
    induction xs with
    | nil => intro init _; rfl
    | cons i xs ih =>
      intro init h
      have hi : i < pts.length := h i (List.mem_cons_self ..)
      unfold Src.Py.Rt.foldM
      rw [hF, idx_map _ _ _ hi, idx_map _ _ _ hi]
      simp only [Src.Py.Rt.bind_ok, List.map_cons, List.foldl_cons]
      exact ih _ (fun j hj => h j (List.mem_cons_of_mem _ hj))
  rw [key _ _ (fun i hi => List.mem_range.mp hi), map_range_getP]

/-! ## `is_separating` (hazmat/helpers.py) -/

/-- the running `(min_param, max_param)` start at `(inf, -inf)`; the model's `paramRange` is `none` for no vertex -/
def encRange : Option (K × K) → Src.Py.Rt.Ext K × Src.Py.Rt.Ext K
  | none => (.pinf, .ninf)
  | some (a, b) => (.fin a, .fin b)

theorem ext_fold_fin (f : Pt K → K) (vs : List (Pt K)) (a b : K) :
    vs.foldl (fun (st : Src.Py.Rt.Ext K × Src.Py.Rt.Ext K) v =>
        (Src.Py.Rt.Ext.min st.1 (.fin (f v)), Src.Py.Rt.Ext.max st.2 (.fin (f v)))) (.fin a, .fin b) =
      encRange (some (vs.foldl (fun (acc : K × K) w => (minK acc.1 (f w), maxK acc.2 (f w))) (a, b))) := by
  induction vs generalizing a b with
  | nil => rfl
  | cons v vs ih =>
    simp only [List.foldl_cons]
    have h1 : Src.Py.Rt.Ext.min (.fin a) (.fin (f v)) = .fin (minK a (f v)) := by
      unfold Src.Py.Rt.Ext.min Src.Py.Rt.Ext.lt minK
      by_cases h : f v < a <;> simp [h]
    have h2 : Src.Py.Rt.Ext.max (.fin b) (.fin (f v)) = .fin (maxK b (f v)) := by
      unfold Src.Py.Rt.Ext.max Src.Py.Rt.Ext.lt maxK
      by_cases h : b < f v <;> simp [h]
    rw [h1, h2]
    exact ih _ _

/-- the loop over the vertices of one polygon is `paramRange` -/
theorem ext_fold_paramRange (d : Pt K) (n : K) (pts : List (Pt K)) :
    pts.foldl (fun (st : Src.Py.Rt.Ext K × Src.Py.Rt.Ext K) v =>
        (Src.Py.Rt.Ext.min st.1 (.fin (cross d v / n)), Src.Py.Rt.Ext.max st.2 (.fin (cross d v / n))))
        (.pinf, Src.Py.Rt.Ext.neg .pinf) = encRange (paramRange d n pts) := by
  cases pts with
  | nil => rfl
  | cons v vs =>
    simp only [List.foldl_cons, paramRange]
    exact ext_fold_fin (fun w => cross d w / n) vs _ _

/-- the final comparison `params[0][0] > params[1][1] or params[0][1] < params[1][0]` is `sepRanges` -/
theorem sep_enc (r1 r2 : Option (K × K)) :
    (Src.Py.Rt.Ext.lt (encRange r2).2 (encRange r1).1 || Src.Py.Rt.Ext.lt (encRange r1).2 (encRange r2).1) =
      sepRanges r1 r2 := by
  rcases r1 with _ | ⟨a1, b1⟩ <;> rcases r2 with _ | ⟨a2, b2⟩ <;> rfl

/-- `is_separating` on the `2 × N` arrays with columns `p1`, `p2`: the two vertex loops are `Model.paramRange`, the final
    comparison `Model.sepRanges` (every `K`, every direction, polygons of any size including none) -/
theorem is_separating_eq (d : Pt K) (p1 p2 : List (Pt K)) :
    Src.Py.is_separating d (rowsOf p1) (rowsOf p2) =
      .ok (sepRanges (paramRange d (d.1 * d.1 + d.2 * d.2) p1) (paramRange d (d.1 * d.1 + d.2 * d.2) p2)) := by
  unfold Src.Py.is_separating rowsOf
  dsimp only
  rw [shape2_rowsOf, shape2_rowsOf]
  simp only [Src.Py.Rt.bind_ok]
  rw [foldM_cols p1 (fun st v => (Src.Py.Rt.Ext.min st.1 (.fin (cross d v / (d.1 * d.1 + d.2 * d.2))),
        Src.Py.Rt.Ext.max st.2 (.fin (cross d v / (d.1 * d.1 + d.2 * d.2))))) _ (by intro ⟨m, M⟩ i; rfl),
    foldM_cols p2 (fun st v => (Src.Py.Rt.Ext.min st.1 (.fin (cross d v / (d.1 * d.1 + d.2 * d.2))),
        Src.Py.Rt.Ext.max st.2 (.fin (cross d v / (d.1 * d.1 + d.2 * d.2))))) _ (by intro ⟨m, M⟩ i; rfl)]
  simp only [Src.Py.Rt.bind_ok, ext_fold_paramRange]
  rw [← sep_enc]
  generalize encRange (paramRange d (d.1 * d.1 + d.2 * d.2) p1) = e1
  generalize encRange (paramRange d (d.1 * d.1 + d.2 * d.2) p2) = e2
  simp only [Src.Py.Rt.lidx, List.nil_append, List.cons_append, List.getElem?_cons_zero, List.getElem?_cons_succ,
    Src.Py.Rt.bind_ok]
  cases Src.Py.Rt.Ext.lt e2.2 e1.1 <;> rfl

/-- … hence the model's `Py.isSeparating` for a direction that is not zero (a zero direction divides `0/0`: every
    `param` is NaN in binary64 and the routine answers `True`, which is what the model transcribes; `K` has no NaN) -/
theorem is_separating_src (d : Pt K) (p1 p2 : List (Pt K)) (hd : d.1 * d.1 + d.2 * d.2 ≠ 0) :
    Src.Py.is_separating d (rowsOf p1) (rowsOf p2) = .ok (Py.isSeparating d p1 p2) := by
  rw [is_separating_eq]
  simp only [Py.isSeparating, hd, ↓reduceIte]

/-! ## `polygon_collide` (hazmat/helpers.py) -/

/-- a loop whose body only decides whether to `return False` is `List.any` -/
theorem forM_any {ι : Type} (xs : List ι) (P : ι → Bool) (F : Unit → ι → Except Err (Bool ⊕ Unit))
    (hF : ∀ i ∈ xs, F () i = .ok (if P i = true then .inl false else .inr ())) :
    Src.Py.Rt.forM xs () F = .ok (if xs.any P = true then .inl false else .inr ()) := by
  induction xs with
  | nil => rfl
  | cons i xs ih =>
    unfold Src.Py.Rt.forM
    rw [hF i (List.mem_cons_self ..)]
    cases hP : P i
    · simp only [Bool.false_eq_true, ↓reduceIte, Src.Py.Rt.bind_ok, List.any_cons, hP, Bool.false_or]
      exact ih (fun j hj => hF j (List.mem_cons_of_mem _ hj))
    · simp [hP, Src.Py.Rt.bind_ok]

/-- `polygon[:, index - 1]`: index `-1` wraps around to the last column -/
theorem idxI_map_pred (f : Pt K → K) (pts : List (Pt K)) (i : Nat) (h : i < pts.length) :
    Src.Py.Rt.idxI (pts.map f) ((i : Int) - (1 : Int)) =
      .ok (f (if i = 0 then getP pts (pts.length - 1) else getP pts (i - 1))) := by
  unfold Src.Py.Rt.idxI
  cases i with
  | zero =>
    have h1 : ¬ (0 : Int) ≤ ((0 : Nat) : Int) - 1 := by omega
    have h2 : -((pts.map f).length : Int) ≤ ((0 : Nat) : Int) - 1 := by simp; omega
    have h3 : (((pts.map f).length : Int) + (((0 : Nat) : Int) - 1)).toNat = pts.length - 1 := by simp; omega
    rw [if_neg h1, if_pos h2, h3, idx_map _ _ _ (by omega)]
    rfl
  | succ j =>
    have h1 : (0 : Int) ≤ ((j + 1 : Nat) : Int) - 1 := by omega
    have h3 : (((j + 1 : Nat) : Int) - 1).toNat = j := by omega
    rw [if_pos h1, h3, idx_map _ _ _ (by omega)]
    rfl

/-- the edge directions in the order of the loop: `polygon[:, index] - polygon[:, index - 1]`, `index = 0, 1, …` -/
theorem map_range_edges (pts : List (Pt K)) :
    (List.range pts.length).map (fun i => psub (getP pts i) (if i = 0 then getP pts (pts.length - 1) else getP pts (i - 1)))
      = polygonEdgeDirs pts := by
  unfold polygonEdgeDirs
  apply List.ext_getElem
  · simp
  · intro n h1 h2
    have hn : n < pts.length := by simpa using h1
    rw [List.getElem_map, List.getElem_range, List.getElem_zipWith]
    cases n with
    | zero =>
      simp only [↓reduceIte, List.getElem_cons_zero, getP, List.getD_eq_getElem?_getD,
        List.getElem?_eq_getElem hn, Option.getD_some, List.getLastD_eq_getLast?, List.getLast?_eq_getElem?]
    | succ m =>
      have hm : m < pts.length := by omega
      simp [getP, List.getD_eq_getElem?_getD, List.getElem?_eq_getElem hn, List.getElem?_eq_getElem hm]

/-- the loop over the edges of one polygon -/
theorem forM_edges (pts : List (Pt K)) (P : Pt K → Bool) (G : Pt K → Except Err (Bool ⊕ Unit))
    (hG : ∀ d, G d = .ok (if P d = true then .inl false else .inr ()))
    (F : Unit → Nat → Except Err (Bool ⊕ Unit))
    (hF : ∀ i, F () i = Src.Py.Rt.bind (Src.Py.Rt.idx (pts.map (·.1)) i) fun a =>
      Src.Py.Rt.bind (Src.Py.Rt.idx (pts.map (·.2)) i) fun b =>
      Src.Py.Rt.bind (Src.Py.Rt.idxI (pts.map (·.1)) ((i : Int) - (1 : Int))) fun c =>
      Src.Py.Rt.bind (Src.Py.Rt.idxI (pts.map (·.2)) ((i : Int) - (1 : Int))) fun e =>
      G (psub (a, b) (c, e))) :
    Src.Py.Rt.forM (List.range pts.length) () F =
      .ok (if (polygonEdgeDirs pts).any P = true then .inl false else .inr ()) := by
  rw [← map_range_edges, List.any_map]
  apply forM_any
  intro i hi
  have hi' : i < pts.length := List.mem_range.mp hi
  rw [hF, idx_map _ _ _ hi', idx_map _ _ _ hi', idxI_map_pred _ _ _ hi', idxI_map_pred _ _ _ hi']
  simp only [Src.Py.Rt.bind_ok, hG, Function.comp]

/-- is `d` a separating direction (the un-normalised parameter ranges of the two polygons do not overlap)? -/
def sepDir (p1 p2 : List (Pt K)) (d : Pt K) : Bool :=
  sepRanges (paramRange d (d.1 * d.1 + d.2 * d.2) p1) (paramRange d (d.1 * d.1 + d.2 * d.2) p2)

/-- `polygon_collide`: edges of polygon 1 (wrap-around edge first), then of polygon 2; the first separating edge
    direction returns `False` - the model's `any` over `polygonEdgeDirs` (every `K`, every pair of polygons) -/
theorem polygon_collide_eq (p1 p2 : List (Pt K)) :
    Src.Py.polygon_collide (rowsOf p1) (rowsOf p2) =
      .ok (!((polygonEdgeDirs p1 ++ polygonEdgeDirs p2).any (sepDir p1 p2))) := by
  have hsep : ∀ d, Src.Py.is_separating d [p1.map (·.1), p1.map (·.2)] [p2.map (·.1), p2.map (·.2)] =
      .ok (sepDir p1 p2 d) := fun d => is_separating_eq d p1 p2
  unfold Src.Py.polygon_collide rowsOf
  dsimp only
  rw [shape2_rowsOf, shape2_rowsOf]
  simp only [Src.Py.Rt.bind_ok]
  rw [forM_edges p1 (sepDir p1 p2) (fun d => Src.Py.Rt.bind
        (Src.Py.is_separating d [p1.map (·.1), p1.map (·.2)] [p2.map (·.1), p2.map (·.2)]) fun t =>
          if t = true then .ok (Sum.inl false) else .ok (Sum.inr ()))
        (by intro d; rw [hsep]; cases sepDir p1 p2 d <;> rfl) _ (by intro i; rfl)]
  simp only [Src.Py.Rt.bind_ok, List.any_append]
  cases h1 : (polygonEdgeDirs p1).any (sepDir p1 p2)
  · simp only [Bool.false_eq_true, ↓reduceIte, Bool.false_or]
    rw [forM_edges p2 (sepDir p1 p2) (fun d => Src.Py.Rt.bind
          (Src.Py.is_separating d [p1.map (·.1), p1.map (·.2)] [p2.map (·.1), p2.map (·.2)]) fun t =>
            if t = true then .ok (Sum.inl false) else .ok (Sum.inr ()))
          (by intro d; rw [hsep]; cases sepDir p1 p2 d <;> rfl) _ (by intro i; rfl)]
    simp only [Src.Py.Rt.bind_ok]
    cases (polygonEdgeDirs p2).any (sepDir p1 p2) <;> rfl
  · rfl

theorem any_congr_mem {α : Type} (l : List α) (f g : α → Bool) (h : ∀ a ∈ l, f a = g a) : l.any f = l.any g := by
  induction l with
  | nil => rfl
  | cons a l ih =>
    simp only [List.any_cons, h a (List.mem_cons_self ..), ih (fun b hb => h b (List.mem_cons_of_mem _ hb))]

/-- … hence the model's `Py.polygonCollide` when no edge direction is zero (on a zero edge the code computes `0/0 = NaN`
    and answers "separating", which the model transcribes as such; `K` has no NaN) -/
theorem polygon_collide_src (p1 p2 : List (Pt K))
    (hz : ∀ d ∈ polygonEdgeDirs p1 ++ polygonEdgeDirs p2, d.1 * d.1 + d.2 * d.2 ≠ 0) :
    Src.Py.polygon_collide (rowsOf p1) (rowsOf p2) = .ok (Py.polygonCollide p1 p2) := by
  rw [polygon_collide_eq, Py.polygonCollide]
  congr 2
  apply any_congr_mem
  intro d hd
  simp only [sepDir, Py.isSeparating, hz d hd, ↓reduceIte]

/-! ## `in_sorted` (hazmat/helpers.py) -/

/-- `in_sorted`: `bisect.bisect_left` is the library routine as transcribed in `Model.bisectLeft`; the index test and the
    comparison are the model's (no `IndexError` is possible) -/
theorem in_sorted_src (values : List Nat) (value : Nat) :
    Src.Py.in_sorted values value = .ok (Py.inSorted values value) := by
  unfold Src.Py.in_sorted Py.inSorted
  dsimp only
  generalize bisectLeft values value (values.length + 1) 0 values.length = index
  by_cases h : values.length ≤ index
  · simp only [h, ↓reduceIte]
  · have hlt : index < values.length := by omega
    simp only [h, ↓reduceIte, Src.Py.Rt.lidx, List.getElem?_eq_getElem hlt, Src.Py.Rt.bind_ok]
    by_cases hv : values[index] = value <;> simp [hv]

/-! ## array slices and entrywise operations; `de_casteljau_one_round` (hazmat/curve_helpers.py) -/

theorem sliceIdx_neg1 (n : Nat) : Src.Py.Rt.sliceIdx n (-1) = n - 1 := by
  unfold Src.Py.Rt.sliceIdx; rw [if_pos (by decide)]; omega

theorem sliceIdx_neg2 (n : Nat) : Src.Py.Rt.sliceIdx n (-2) = n - 2 := by
  unfold Src.Py.Rt.sliceIdx; rw [if_pos (by decide)]; omega

theorem sliceIdx_1 (n : Nat) : Src.Py.Rt.sliceIdx n 1 = min 1 n := by
  unfold Src.Py.Rt.sliceIdx; rw [if_neg (by decide)]; rfl

theorem sliceIdx_2 (n : Nat) : Src.Py.Rt.sliceIdx n 2 = min 2 n := by
  unfold Src.Py.Rt.sliceIdx; rw [if_neg (by decide)]; rfl

theorem slice_none_neg1 {α : Type} (r : List α) : Src.Py.Rt.slice r none (some (-1 : Int)) = r.dropLast := by
  simp only [Src.Py.Rt.slice, sliceIdx_neg1, List.drop_zero, Nat.sub_zero, List.dropLast_eq_take]

theorem slice_1_none {α : Type} (r : List α) : Src.Py.Rt.slice r (some (1 : Int)) none = r.drop 1 := by
  simp only [Src.Py.Rt.slice, sliceIdx_1]
  cases r with
  | nil => rfl
  | cons x xs => simp

theorem slice_none_neg2 {α : Type} (r : List α) : Src.Py.Rt.slice r none (some (-2 : Int)) = r.take (r.length - 2) := by
  simp only [Src.Py.Rt.slice, sliceIdx_neg2, List.drop_zero, Nat.sub_zero]

theorem slice_1_neg1 {α : Type} (r : List α) :
    Src.Py.Rt.slice r (some (1 : Int)) (some (-1 : Int)) = (r.drop 1).take (r.length - 2) := by
  simp only [Src.Py.Rt.slice, sliceIdx_1, sliceIdx_neg1]
  cases r with
  | nil => rfl
  | cons x xs =>
    simp only [List.length_cons, show min 1 (xs.length + 1) = 1 by omega, show xs.length + 1 - 1 - 1 = xs.length + 1 - 2 by omega]

theorem slice_2_none {α : Type} (r : List α) : Src.Py.Rt.slice r (some (2 : Int)) none = r.drop 2 := by
  simp only [Src.Py.Rt.slice, sliceIdx_2]
  rcases r with _ | ⟨x, _ | ⟨y, ys⟩⟩
  · rfl
  · rfl
  · simp

/-- entrywise `A ± B` of two arrays derived row by row from the same array -/
theorem mzip_map (f : K → K → K) (rows : List (List K)) (g h : List K → List K)
    (hlen : ∀ r, (g r).length = (h r).length) :
    Src.Py.Rt.mzip f (rows.map g) (rows.map h) = .ok (rows.map fun r => List.zipWith f (g r) (h r)) := by
  induction rows with
  | nil => rfl
  | cons r rows ih =>
    simp only [List.map_cons, Src.Py.Rt.mzip, hlen r, ↓reduceIte, ih, Src.Py.Rt.bind_ok]

theorem dcRound_zip (a b : K) (r : List K) :
    List.zipWith (fun x y => x + y) (r.dropLast.map fun x => a * x) ((r.drop 1).map fun x => b * x) = dcRound a b r := by
  induction r with
  | nil => rfl
  | cons x xs ih =>
    cases xs with
    | nil => rfl
    | cons y ys =>
      simp only [List.dropLast_cons_cons, List.map_cons, List.drop_succ_cons, List.drop_zero, List.zipWith_cons_cons,
        dcRound]
      simpa using ih

/-- `de_casteljau_one_round`: `lambda1 * nodes[:, :-1] + lambda2 * nodes[:, 1:]` is the model's `dcRound` on every row
    (every `K`, every list of rows) -/
theorem de_casteljau_one_round_src (nodes : List (List K)) (a b : K) :
    Src.Py.de_casteljau_one_round nodes a b = .ok (nodes.map (dcRound a b)) := by
  unfold Src.Py.de_casteljau_one_round Src.Py.Rt.cols Src.Py.Rt.mmap
  simp only [List.map_map, Function.comp_def, slice_none_neg1, slice_1_none]
  rw [mzip_map _ nodes (fun r => r.dropLast.map fun x => a * x) (fun r => (r.drop 1).map fun x => b * x)
    (by intro r; simp)]
  simp only [dcRound_zip]

/-! ## `linearization_error` (hazmat/geometric_intersection.py), `K := ℝ` -/

theorem shape_rect (nodes : List (List ℝ)) (n : Nat) (hne : nodes ≠ []) (hrect : ∀ r ∈ nodes, r.length = n) :
    Src.Py.Rt.shape nodes = .ok (nodes.length, n) := by
  obtain ⟨r, rs, rfl⟩ := List.exists_cons_of_ne_nil hne
  have hr : r.length = n := hrect r (List.mem_cons_self ..)
  have hall : (rs.all fun x => x.length == r.length) = true := by
    rw [List.all_eq_true]
    intro x hx
    simp [hrect x (List.mem_cons_of_mem _ hx), hr]
  unfold Src.Py.Rt.shape
  dsimp only
  rw [if_pos hall, hr]
  rfl

theorem ncols_rect (nodes : List (List ℝ)) (n : Nat) (hne : nodes ≠ []) (hrect : ∀ r ∈ nodes, r.length = n) :
    ncols nodes = n := by
  obtain ⟨r, rs, rfl⟩ := List.exists_cons_of_ne_nil hne
  simpa [ncols] using hrect r (List.mem_cons_self ..)

/-- `row[:-2] - 2.0 * row[1:-1] + row[2:]` is the model's `secondDiffs` -/
theorem secondDiffs_zip (r : List ℝ) :
    List.zipWith (fun x y => x + y)
      (List.zipWith (fun x y => x - y) (r.take (r.length - 2)) (((r.drop 1).take (r.length - 2)).map fun x => ((2 : Nat) : ℝ) * x))
      (r.drop 2) = secondDiffs r := by
  induction r with
  | nil => rfl
  | cons x xs ih =>
    rcases xs with _ | ⟨y, _ | ⟨z, rest⟩⟩
    · rfl
    · rfl
    · have e : (x :: y :: z :: rest).length - 2 = (y :: z :: rest).length - 2 + 1 := by simp
      rw [e]
      simp only [List.take_succ_cons, List.drop_succ_cons, List.drop_zero, List.map_cons, List.zipWith_cons_cons,
        secondDiffs]
      congr 1
      · push_cast; ring

theorem length_secondDiffs (r : List ℝ) : (secondDiffs r).length = r.length - 2 := by
  induction r with
  | nil => rfl
  | cons x xs ih =>
    rcases xs with _ | ⟨y, _ | ⟨z, rest⟩⟩
    · rfl
    · rfl
    · simp only [secondDiffs, List.length_cons, ih]; omega

theorem ofInt_nat (k : Nat) : (Src.Py.Rt.ofInt (k : Int) : ℝ) = (k : ℝ) := by
  unfold Src.Py.Rt.ofInt
  rw [if_neg (by omega)]
  simp

/-- `np.max(np.abs(second_deriv), axis=1)` on rows with at least one second difference -/
theorem worst_ok (rows : List (List ℝ)) (h : ∀ r ∈ rows, secondDiffs r ≠ []) :
    ∃ w, List.mapM Src.Py.Rt.npMax (Src.Py.Rt.mmap absK (rows.map secondDiffs)) = .ok w ∧
      rows.mapM (fun r => maxAbs? (secondDiffs r)) = some w := by
  induction rows with
  | nil => exact ⟨[], rfl, rfl⟩
  | cons r rows ih =>
    obtain ⟨w, h1, h2⟩ := ih (fun x hx => h x (List.mem_cons_of_mem _ hx))
    obtain ⟨x, xs, hx⟩ := List.exists_cons_of_ne_nil (h r (List.mem_cons_self ..))
    refine ⟨maxOf (absK x) (xs.map absK) :: w, ?_, ?_⟩
    · unfold Src.Py.Rt.mmap at h1 ⊢
      rw [List.map_cons, List.map_cons, SrcPy.mapM_cons_rt, h1, hx]
      rfl
    · rw [List.mapM_cons, h2, hx]
      rfl

/-- `linearization_error` on a rectangular array with at least one row IS the hand transcription
    `NormReal.linearizationErrorNorm` (error branches included: fewer than two nodes make `np.max` raise) … -/
theorem linearization_error_src (nodes : List (List ℝ)) (n : Nat) (hne : nodes ≠ [])
    (hrect : ∀ r ∈ nodes, r.length = n) :
    Src.Py.linearization_error Real.sqrt nodes = NormReal.linearizationErrorNorm nodes := by
  unfold Src.Py.linearization_error NormReal.linearizationErrorNorm
  rw [shape_rect nodes n hne hrect, ncols_rect nodes n hne hrect]
  simp only [Src.Py.Rt.bind_ok]
  by_cases h2 : n = 2
  · subst h2; rfl
  · have hd : ¬ ((n : Int) - 1 = 1) := by omega
    simp only [hd, h2, ↓reduceIte]
    unfold Src.Py.Rt.cols
    simp only [Src.Py.Rt.mmap, List.map_map, Function.comp_def, slice_none_neg2, slice_1_neg1, slice_2_none]
    rw [mzip_map _ nodes (fun r => r.take (r.length - 2))
      (fun r => ((r.drop 1).take (r.length - 2)).map fun x => ((2 : Nat) : ℝ) * x) (by intro r; simp; omega)]
    simp only [Src.Py.Rt.bind_ok]
    rw [mzip_map _ nodes _ (fun r => r.drop 2) (by intro r; simp; omega)]
    simp only [Src.Py.Rt.bind_ok, secondDiffs_zip]
    by_cases h3 : n < 3
    · -- fewer than two nodes: every row of second differences is empty, `np.max` raises
      simp only [h3, ↓reduceIte]
      obtain ⟨r, rs, rfl⟩ := List.exists_cons_of_ne_nil hne
      have hr : secondDiffs r = [] := by
        have := length_secondDiffs r
        rw [hrect r (List.mem_cons_self ..)] at this
        exact List.length_eq_zero_iff.mp (by omega)
      simp only [List.map_cons, hr, List.map_nil, SrcPy.mapM_cons_rt]
      rfl
    · simp only [h3, ↓reduceIte]
      have hsd : ∀ r ∈ nodes, secondDiffs r ≠ [] := by
        intro r hr h0
        have := length_secondDiffs r
        rw [hrect r hr, h0] at this
        simp at this
        omega
      obtain ⟨w, h1, hw⟩ := worst_ok nodes hsd
      unfold Src.Py.Rt.mmap at h1
      rw [h1, hw]
      simp only [Src.Py.Rt.bind_ok]
      have e1 : ((n : Int) - 1) = ((n - 1 : Nat) : Int) := by omega
      have e2 : (((n - 1 : Nat) : Int) - 1) = ((n - 1 - 1 : Nat) : Int) := by omega
      rw [e1, e2, ofInt_nat, ofInt_nat, NormReal.q_one_eight]
      rfl

/-- … hence the model's squared form: `linearizationErrorSq nodes = (linearization_error nodes)²` -/
theorem linearization_error_sq (nodes : List (List ℝ)) (n : Nat) (hne : nodes ≠ [])
    (hrect : ∀ r ∈ nodes, r.length = n) :
    linearizationErrorSq nodes = (Src.Py.linearization_error Real.sqrt nodes).map (· ^ 2) := by
  rw [linearization_error_src nodes n hne hrect, NormReal.linearizationErrorSq_eq_map]

/-! ## `add_intersection`, `endpoint_check`, `tangent_bbox_intersection` (hazmat/geometric_intersection.py)

The code compares norms (`np.linalg.norm`, translated with an abstract `sqrt`); the model compares the squares
(`GeoConsts.ratioSq = NEWTON_ERROR_RATIO²`).  The relation is stated at `K := ℝ` with `Real.sqrt`.  A list argument that
the code updates in place (`intersections`) is an argument AND the result of the generated definition. -/

/-- a loop without running variables whose body only decides whether to `return r` -/
theorem forE_any {α ρ : Type} (xs : List α) (P : α → Bool) (r : ρ) (F : Unit → α → ρ ⊕ Unit)
    (hF : ∀ x, F () x = if P x = true then .inl r else .inr ()) :
    Src.Py.Rt.forE xs () F = if xs.any P = true then .inl r else .inr () := by
  induction xs with
  | nil => rfl
  | cons x xs ih =>
    unfold Src.Py.Rt.forE
    rw [hF x]
    cases hP : P x <;> simp [hP, ih]

theorem q_real (a b : Nat) : (q (a : Int) b : ℝ) = (a : ℝ) / (b : ℝ) := by
  simp [q]

/-- `‖(a, b)‖ < c · ‖(x, y)‖ ⇔ a² + b² < c² (x² + y²)` for `c ≥ 0` -/
theorem norm_lt_iff (a b c x y : ℝ) (hc : 0 ≤ c) :
    Real.sqrt (normSq [a, b]) < c * Real.sqrt (normSq [x, y]) ↔ a * a + b * b < c ^ 2 * (x * x + y * y) := by
  have e1 : normSq [a, b] = a * a + b * b := by simp [normSq]
  have e2 : normSq [x, y] = x * x + y * y := by simp [normSq]
  have h2 : 0 ≤ x * x + y * y := by nlinarith [mul_self_nonneg x, mul_self_nonneg y]
  rw [e1, e2, show c * Real.sqrt (x * x + y * y) = Real.sqrt (c ^ 2 * (x * x + y * y)) by
    rw [Real.sqrt_mul (sq_nonneg c), Real.sqrt_sq hc]]
  exact Real.sqrt_lt_sqrt_iff (by nlinarith [mul_self_nonneg a, mul_self_nonneg b])

/-- `add_intersection(s, t, intersections)`: the list after the call is the model's `addIntersection`
    (`ZERO_THRESHOLD = 2^-10`, `NEWTON_ERROR_RATIO = 2^-36` are read from the source by the translator) -/
theorem add_intersection_src (G : GeoConsts ℝ) (hz : G.zeroThr = 1 / 2 ^ 10) (hr : G.ratioSq = (1 / 2 ^ 36) ^ 2)
    (s t : ℝ) (acc : List (ℝ × ℝ)) :
    Src.Py.add_intersection Real.sqrt s t acc = Model.addIntersection G s t acc := by
  unfold Src.Py.add_intersection Model.addIntersection
  by_cases he : acc.isEmpty = true
  · have : acc = [] := List.isEmpty_iff.mp he
    subst this
    rfl
  · simp only [he, Bool.false_eq_true, ↓reduceIte]
    have hq1 : (q 1 1024 : ℝ) = 1 / 2 ^ 10 := by rw [show (1 : Int) = ((1 : Nat) : Int) by rfl, q_real]; norm_num
    have hq2 : (q 1 68719476736 : ℝ) = 1 / 2 ^ 36 := by rw [show (1 : Int) = ((1 : Nat) : Int) by rfl, q_real]; norm_num
    rw [forE_any acc (fun p => decide ((s - p.1) * (s - p.1) + (t - p.2) * (t - p.2) <
          G.ratioSq * ((if s < G.zeroThr then 1 - s else s) * (if s < G.zeroThr then 1 - s else s) +
            (if t < G.zeroThr then 1 - t else t) * (if t < G.zeroThr then 1 - t else t)))) acc]
    · cases acc.any _ <;> rfl
    · intro ⟨es, et⟩
      dsimp only
      rw [hq1, hq2, hz, hr]
      have := norm_lt_iff (s - es) (t - et) (1 / 2 ^ 36) (if s < 1 / 2 ^ 10 then 1 - s else s)
        (if t < 1 / 2 ^ 10 then 1 - t else t) (by positivity)
      by_cases h : Real.sqrt (normSq [s - es, t - et]) <
          1 / 2 ^ 36 * Real.sqrt (normSq [if s < 1 / 2 ^ 10 then 1 - s else s, if t < 1 / 2 ^ 10 then 1 - t else t])
      · simp only [h, ↓reduceIte, this.mp h, decide_true]
      · simp only [h, ↓reduceIte, mt this.mpr h, decide_false, Bool.false_eq_true]

/-- `endpoint_check` for end points with equally many coordinates; `vector_close` is called with its default
    `eps = 2^-40`, which the model's primitive carries squared (`concretePrims`: `vectorCloseSq · · epsSq`) -/
theorem endpoint_check_src (P : Prims ℝ) (G : GeoConsts ℝ) (hz : G.zeroThr = 1 / 2 ^ 10)
    (hr : G.ratioSq = (1 / 2 ^ 36) ^ 2) (first second : SubCurve ℝ) (nodeFirst nodeSecond : List ℝ) (s t : ℝ)
    (acc : List (ℝ × ℝ)) (hlen : nodeFirst.length = nodeSecond.length)
    (hvc : P.vectorClose nodeFirst nodeSecond = vectorCloseSq nodeFirst nodeSecond ((1 / 2 ^ 40) ^ 2)) :
    Src.Py.endpoint_check Real.sqrt first nodeFirst s second nodeSecond t acc =
      .ok (Model.endpointCheck P G first nodeFirst s second nodeSecond t acc) := by
  unfold Src.Py.endpoint_check Model.endpointCheck
  have hq : (q 1 1099511627776 : ℝ) = 1 / 2 ^ 40 := by
    rw [show (1 : Int) = ((1 : Nat) : Int) by rfl, q_real]; norm_num
  rw [hq, SrcPy.vector_close_src nodeFirst nodeSecond (1 / 2 ^ 40) hlen (by positivity), hvc]
  simp only [Src.Py.Rt.bind_ok, add_intersection_src G hz hr]

/-- `nodes[:, 0]` / `nodes[:, -1]` of an array without empty rows -/
theorem mapM_first (nodes : List (List ℝ)) (h : ∀ r ∈ nodes, r ≠ []) :
    List.mapM (fun r => Src.Py.Rt.idx r 0) nodes = .ok (firstNode nodes) := by
  induction nodes with
  | nil => rfl
  | cons r rows ih =>
    rw [SrcPy.mapM_cons_rt, ih (fun x hx => h x (List.mem_cons_of_mem _ hx))]
    obtain ⟨x, xs, rfl⟩ := List.exists_cons_of_ne_nil (h r (List.mem_cons_self ..))
    rfl

theorem mapM_last (nodes : List (List ℝ)) (h : ∀ r ∈ nodes, r ≠ []) :
    List.mapM Src.Py.Rt.idxLast nodes = .ok (lastNode nodes) := by
  induction nodes with
  | nil => rfl
  | cons r rows ih =>
    rw [SrcPy.mapM_cons_rt, ih (fun x hx => h x (List.mem_cons_of_mem _ hx))]
    obtain ⟨x, xs, rfl⟩ := List.exists_cons_of_ne_nil (h r (List.mem_cons_self ..))
    simp only [Src.Py.Rt.idxLast, lastNode, List.map_cons, Src.Py.Rt.bind_ok]
    rw [List.getLast?_eq_getElem?]
    simp [List.getD_eq_getElem?_getD]

/-- `tangent_bbox_intersection`: the four end-point pairs, for two sub-curves of the same dimension with at least one
    node each; `P.vectorClose` is the squared `vector_close` with the default `eps` -/
theorem tangent_bbox_intersection_src (P : Prims ℝ) (G : GeoConsts ℝ) (hz : G.zeroThr = 1 / 2 ^ 10)
    (hr : G.ratioSq = (1 / 2 ^ 36) ^ 2) (hvc : ∀ a b, P.vectorClose a b = vectorCloseSq a b ((1 / 2 ^ 40) ^ 2))
    (first second : SubCurve ℝ) (acc : List (ℝ × ℝ)) (hdim : first.nodes.length = second.nodes.length)
    (h1 : ∀ r ∈ first.nodes, r ≠ []) (h2 : ∀ r ∈ second.nodes, r ≠ []) :
    Src.Py.tangent_bbox_intersection Real.sqrt first second acc = .ok (Model.tangentBbox P G first second acc) := by
  unfold Src.Py.tangent_bbox_intersection Model.tangentBbox
  rw [mapM_first _ h1, mapM_last _ h1, mapM_first _ h2, mapM_last _ h2]
  have l1 : (firstNode first.nodes).length = first.nodes.length := by simp [firstNode]
  have l2 : (lastNode first.nodes).length = first.nodes.length := by simp [lastNode]
  have l3 : (firstNode second.nodes).length = second.nodes.length := by simp [firstNode]
  have l4 : (lastNode second.nodes).length = second.nodes.length := by simp [lastNode]
  simp only [Src.Py.Rt.bind_ok]
  rw [endpoint_check_src P G hz hr _ _ _ _ _ _ _ (by omega) (hvc _ _)]
  simp only [Src.Py.Rt.bind_ok]
  rw [endpoint_check_src P G hz hr _ _ _ _ _ _ _ (by omega) (hvc _ _)]
  simp only [Src.Py.Rt.bind_ok]
  rw [endpoint_check_src P G hz hr _ _ _ _ _ _ _ (by omega) (hvc _ _)]
  simp only [Src.Py.Rt.bind_ok]
  rw [endpoint_check_src P G hz hr _ _ _ _ _ _ _ (by omega) (hvc _ _)]

/-! ## the evaluation kernels of hazmat/curve_helpers.py (any field; ONE parameter value)

NumPy broadcasts the kernels over the vector of parameter values; every operation acts on the parameter axis entry by
entry.  The translator fixes that axis to length 1 (kind `S1`: a one-entry array is a number of `K`, a `d × 1` array is
the list of its `d` entries), so the generated definitions compute one column of the result. -/

section Field
variable {F : Type} [Field F] [LinearOrder F]

theorem foldM_append {α σ : Type} (xs ys : List α) (init : σ) (G : σ → α → Except Err σ) :
    Src.Py.Rt.foldM (xs ++ ys) init G = Src.Py.Rt.bind (Src.Py.Rt.foldM xs init G) fun s => Src.Py.Rt.foldM ys s G := by
  induction xs generalizing init with
  | nil => rfl
  | cons x xs ih =>
    simp only [List.cons_append, Src.Py.Rt.foldM]
    cases G init x with
    | error e => rfl
    | ok s => simp only [Src.Py.Rt.bind_ok, ih]

/-- a counting loop `for index in range(1, m + 1)` whose `index`-th step takes `state (index - 1)` to `state index` -/
theorem foldM_range' {σ : Type} (m : Nat) (state : Nat → σ) (G : σ → Nat → Except Err σ)
    (h : ∀ i, i < m → G (state i) (i + 1) = .ok (state (i + 1))) :
    Src.Py.Rt.foldM (List.range' 1 m) (state 0) G = .ok (state m) := by
  induction m with
  | zero => rfl
  | succ m ih =>
    rw [List.range'_1_concat, foldM_append, ih (fun i hi => h i (by omega))]
    simp only [Src.Py.Rt.bind_ok, Src.Py.Rt.foldM]
    rw [show 1 + m = m + 1 by omega, h m (by omega)]
    rfl

/-- column `j` of a rectangular array -/
theorem mapM_col (nodes : List (List F)) (n j : Nat) (hj : j < n) (hrect : ∀ r ∈ nodes, r.length = n) :
    List.mapM (fun r => Src.Py.Rt.idx r j) nodes = .ok (nodes.map fun r => seq r j) := by
  induction nodes with
  | nil => rfl
  | cons r rows ih =>
    rw [SrcPy.mapM_cons_rt, ih (fun x hx => hrect x (List.mem_cons_of_mem _ hx))]
    have hr : j < r.length := by rw [hrect r (List.mem_cons_self ..)]; exact hj
    simp only [Src.Py.Rt.idx, List.getElem?_eq_getElem hr, Src.Py.Rt.bind_ok, List.map_cons, seq,
      List.getD_eq_getElem?_getD, Option.getD_some]

theorem shape_rect' (nodes : List (List F)) (n : Nat) (hne : nodes ≠ []) (hrect : ∀ r ∈ nodes, r.length = n) :
    Src.Py.Rt.shape nodes = .ok (nodes.length, n) := by
  obtain ⟨r, rs, rfl⟩ := List.exists_cons_of_ne_nil hne
  have hr : r.length = n := hrect r (List.mem_cons_self ..)
  have hall : (rs.all fun x => x.length == r.length) = true := by
    rw [List.all_eq_true]
    intro x hx
    simp [hrect x (List.mem_cons_of_mem _ hx), hr]
  unfold Src.Py.Rt.shape
  dsimp only
  rw [if_pos hall, hr]
  rfl

theorem ofInt_nat' (k : Nat) : (Src.Py.Rt.ofInt (k : Int) : F) = (k : F) := by
  unfold Src.Py.Rt.ofInt
  rw [if_neg (by omega)]
  simp

/-- the running `(lambda2_pow, binom_val)` of the VS loop do not depend on the row -/
def vsPB (d : Nat) (l2 : F) : Nat → F × F
  | 0 => (1, 1)
  | i + 1 => ((vsPB d l2 i).1 * l2, ((vsPB d l2 i).2 * ((d - (i + 1) + 1 : Nat) : F)) / ((i + 1 : Nat) : F))

theorem vsLoop_pb (d : Nat) (l1 l2 : F) (v : Nat → F) (i : Nat) :
    ((vsLoop d l1 l2 v i).pow, (vsLoop d l1 l2 v i).binom) = vsPB d l2 i := by
  induction i with
  | zero => rfl
  | succ i ih =>
    have h1 : (vsLoop d l1 l2 v i).pow = (vsPB d l2 i).1 := congrArg Prod.fst ih
    have h2 : (vsLoop d l1 l2 v i).binom = (vsPB d l2 i).2 := congrArg Prod.snd ih
    simp only [vsLoop, vsStep, vsPB, h1, h2]

/-- `evaluate_multi_vs` for ONE parameter pair on a rectangular array with `n ≥ 1` columns: every row is the model's
    `evalVS` (the running binomial loop with its three running variables) -/
theorem evaluate_multi_vs_src (nodes : List (List F)) (n : Nat) (hn : 1 ≤ n) (hrect : ∀ r ∈ nodes, r.length = n)
    (l1 l2 : F) :
    Src.Py.evaluate_multi_vs nodes l1 l2 = .ok (nodes.map fun row => evalVS (n - 1) l1 l2 (seq row)) := by
  by_cases hne : nodes = []
  · subst hne; rfl
  unfold Src.Py.evaluate_multi_vs
  rw [shape_rect' nodes n hne hrect]
  simp only [Src.Py.Rt.bind_ok]
  rw [mapM_col nodes n 0 (by omega) hrect]
  simp only [Src.Py.Rt.bind_ok]
  rw [SrcPy.vzip_eq _ _ _ (by simp)]
  simp only [Src.Py.Rt.bind_ok]
  have hdeg : ((n : Int) - 1) = ((n - 1 : Nat) : Int) := by omega
  rw [hdeg]
  simp only [Int.toNat_natCast]
  -- the loop
  rw [show ((List.zipWith (fun x y => x + y) (List.replicate nodes.length (0 : F))
        (List.map (fun x => l1 * x) (List.map (fun r => seq r 0) nodes)), (1 : F), (1 : F)) : List F × F × F) =
      (nodes.map fun row => (vsLoop (n - 1) l1 l2 (seq row) 0).result, (vsPB (n - 1) l2 0).2,
        (vsPB (n - 1) l2 0).1) by
    simp only [vsPB, vsLoop, List.map_map, Function.comp_def]
    congr 1
    apply List.ext_getElem
    · simp
    · intro k h1 h2
      simp]
  rw [foldM_range' (n - 1 - 1) (fun i => (nodes.map fun row => (vsLoop (n - 1) l1 l2 (seq row) i).result,
        (vsPB (n - 1) l2 i).2, (vsPB (n - 1) l2 i).1)) _ (by
    intro i hi
    dsimp only
    rw [mapM_col nodes n (i + 1) (by omega) hrect]
    simp only [Src.Py.Rt.bind_ok]
    rw [SrcPy.vzip_eq _ _ _ (by simp)]
    simp only [Src.Py.Rt.bind_ok]
    have hc : ((n - 1 : Nat) : Int) - ((i + 1 : Nat) : Int) + 1 = ((n - 1 - (i + 1) + 1 : Nat) : Int) := by omega
    rw [hc, ofInt_nat']
    congr 2
    simp only [vsLoop, vsStep, List.map_map, Function.comp_def]
    apply List.ext_getElem
    · simp
    · intro k h1 h2
      have hp := fun row => congrArg Prod.fst (vsLoop_pb (n - 1) l1 l2 (seq row) i)
      have hb := fun row => congrArg Prod.snd (vsLoop_pb (n - 1) l1 l2 (seq row) i)
      simp only at hp hb
      simp [hp, hb])]
  simp only [Src.Py.Rt.bind_ok]
  have hidx : List.mapM (fun r => Src.Py.Rt.idxI r ((n - 1 : Nat) : Int)) nodes =
      .ok (nodes.map fun r => seq r (n - 1)) := by
    rw [← mapM_col nodes n (n - 1) (by omega) hrect]
    congr 1
  rw [hidx]
  simp only [Src.Py.Rt.bind_ok]
  rw [SrcPy.vzip_eq _ _ _ (by simp)]
  congr 1
  apply List.ext_getElem
  · simp
  · intro k h1 h2
    have hp := fun row => congrArg Prod.fst (vsLoop_pb (n - 1) l1 l2 (seq row) (n - 1 - 1))
    simp only at hp
    simp [evalVS, hp]

/-! ### `evaluate_multi_de_casteljau`: the in-place work array -/

theorem map_congr_rect {β : Type} (nodes : List (List F)) (n : Nat) (hrect : ∀ r ∈ nodes, r.length = n)
    (f g : List F → β) (h : ∀ r, r.length = n → f r = g r) : nodes.map f = nodes.map g :=
  List.map_congr_left (fun r hr => h r (hrect r hr))

/-- entrywise operation of two arrays derived row by row from the same array (lengths agree on its rows) -/
theorem mzip_map_mem (f : F → F → F) (ws : List (List F)) (g h : List F → List F)
    (hlen : ∀ w ∈ ws, (g w).length = (h w).length) :
    Src.Py.Rt.mzip f (ws.map g) (ws.map h) = .ok (ws.map fun w => List.zipWith f (g w) (h w)) := by
  induction ws with
  | nil => rfl
  | cons w ws ih =>
    simp only [List.map_cons, Src.Py.Rt.mzip, hlen w (List.mem_cons_self ..), ↓reduceIte,
      ih (fun x hx => hlen x (List.mem_cons_of_mem _ hx)), Src.Py.Rt.bind_ok]

theorem setCols_prefix (ws : List (List F)) (j : Nat) (t : List F → List F)
    (hlen : ∀ w ∈ ws, (t w).length = min j w.length) :
    Src.Py.Rt.setCols ws none (some (j : Int)) (ws.map t) = .ok (ws.map fun w => t w ++ w.drop j) := by
  induction ws with
  | nil => rfl
  | cons w ws ih =>
    have hs : Src.Py.Rt.sliceIdx w.length (j : Int) = min j w.length := by
      unfold Src.Py.Rt.sliceIdx; rw [if_neg (by omega)]; simp
    simp only [List.map_cons, Src.Py.Rt.setCols, hs, Nat.sub_zero, hlen w (List.mem_cons_self ..), ↓reduceIte,
      ih (fun x hx => hlen x (List.mem_cons_of_mem _ hx)), Src.Py.Rt.bind_ok, List.take_zero, List.nil_append,
      Nat.zero_max]
    congr 3
    by_cases h : j ≤ w.length
    · rw [Nat.min_eq_left h]
    · rw [Nat.min_eq_right (by omega), List.drop_of_length_le (by omega), List.drop_of_length_le (by omega)]

theorem slice_none_nat {α : Type} (r : List α) (j : Nat) : Src.Py.Rt.slice r none (some (j : Int)) = r.take j := by
  have hs : Src.Py.Rt.sliceIdx r.length (j : Int) = min j r.length := by
    unfold Src.Py.Rt.sliceIdx; rw [if_neg (by omega)]; simp
  simp only [Src.Py.Rt.slice, hs, List.drop_zero, Nat.sub_zero]
  by_cases h : j ≤ r.length
  · rw [Nat.min_eq_left h]
  · rw [Nat.min_eq_right (by omega), List.take_of_length_le (by omega), List.take_of_length_le (by omega)]

theorem slice_1_nat {α : Type} (r : List α) (j : Nat) :
    Src.Py.Rt.slice r (some (1 : Int)) (some ((j + 1 : Nat) : Int)) = (r.drop 1).take j := by
  have hs : Src.Py.Rt.sliceIdx r.length ((j + 1 : Nat) : Int) = min (j + 1) r.length := by
    unfold Src.Py.Rt.sliceIdx; rw [if_neg (by omega)]; simp
  simp only [Src.Py.Rt.slice, hs, sliceIdx_1]
  cases r with
  | nil => simp
  | cons x xs =>
    simp only [List.length_cons, show min 1 (xs.length + 1) = 1 by omega, List.drop_succ_cons, List.drop_zero]
    by_cases h : j ≤ xs.length
    · rw [show min (j + 1) (xs.length + 1) - 1 = j by omega]
    · rw [show min (j + 1) (xs.length + 1) - 1 = xs.length by omega, List.take_of_length_le (by omega),
        List.take_of_length_le (by omega)]

/-- one pass of the in-place de Casteljau loop on one row of the work array: the first `j` entries are replaced -/
def dcStepRow (a b : F) (k j : Nat) (w : List F) : List F :=
  List.zipWith (fun x y => x + y)
    (List.zipWith (fun x y => x * y) ((List.replicate k a).take j) (w.take j))
    (List.zipWith (fun x y => x * y) ((List.replicate k b).take j) ((w.drop 1).take j)) ++ w.drop j

theorem zipWith_replicate_mul (c : F) (j : Nat) (l : List F) (h : l.length ≤ j) :
    List.zipWith (fun x y => x * y) (List.replicate j c) l = l.map fun x => c * x := by
  induction l generalizing j with
  | nil => simp
  | cons x xs ih =>
    obtain ⟨j', rfl⟩ : ∃ j', j = j' + 1 := ⟨j - 1, by simp at h; omega⟩
    simp only [List.replicate_succ, List.zipWith_cons_cons, List.map_cons]
    rw [ih j' (by simpa using h)]

theorem dcStepRow_take (a b : F) (k j : Nat) (w : List F) (hj : j ≤ k) (hw : j + 1 ≤ w.length) :
    (dcStepRow a b k j w).take j = dcRound a b (w.take (j + 1)) := by
  unfold dcStepRow
  rw [List.take_replicate, Nat.min_eq_left hj, List.take_replicate, Nat.min_eq_left hj,
    zipWith_replicate_mul a j _ (by simp), zipWith_replicate_mul b j _ (by simp)]
  rw [List.take_append_of_le_length (by simp; omega), List.take_of_length_le (by simp)]
  rw [← dcRound_zip]
  congr 2
  · rw [List.dropLast_eq_take, List.length_take, Nat.min_eq_left hw, List.take_take]
    simp
  · rw [List.drop_take]
    simp

theorem length_dcStepRow (a b : F) (k j : Nat) (w : List F) (hj : j ≤ k) (hw : j + 1 ≤ w.length) :
    (dcStepRow a b k j w).length = w.length := by
  unfold dcStepRow
  simp
  omega

theorem iter_succ' {α : Type} (f : α → α) (n : Nat) (x : α) : iter f (n + 1) x = f (iter f n x) := by
  induction n generalizing x with
  | zero => rfl
  | succ n ih => rw [iter, ih]; rfl

theorem evalDC_eq_iter (a b : F) (n : Nat) (l : List F) : evalDC a b n l = (iter (dcRound a b) n l).headD 0 := by
  induction n generalizing l with
  | zero => rfl
  | succ n ih => rw [evalDC, ih]; rfl

theorem length_dcRound (a b : F) (l : List F) : (dcRound a b l).length = l.length - 1 := by
  induction l with
  | nil => rfl
  | cons x xs ih =>
    cases xs with
    | nil => rfl
    | cons y ys => simp only [dcRound, List.length_cons, ih]; omega

theorem length_iter_dcRound (a b : F) (i : Nat) (l : List F) : (iter (dcRound a b) i l).length = l.length - i := by
  induction i with
  | zero => rfl
  | succ i ih => rw [iter_succ', length_dcRound, ih]; omega

/-- the descending loop `for index in range(m, 0, -1)` on one row: if the first `m + 1` entries hold round `k - m` of
    de Casteljau, the first entry ends up holding round `k` -/
theorem dc_row_loop (a b : F) (k : Nat) (row : List F) (_hrow : row.length = k + 1) (m : Nat) (hm : m + 1 ≤ k)
    (w : List F) (hw : w.length = k) (hinv : w.take (m + 1) = iter (dcRound a b) (k - m) row) :
    (((List.range' 1 m).reverse.foldl (fun w j => dcStepRow a b k j w) w).take 1) = iter (dcRound a b) k row := by
  induction m generalizing w with
  | zero => simpa using hinv
  | succ m ih =>
    rw [List.range'_1_concat, List.reverse_append, List.reverse_singleton, List.singleton_append, List.foldl_cons,
      show 1 + m = m + 1 by omega]
    apply ih (by omega)
    · rw [length_dcStepRow a b k (m + 1) w (by omega) (by omega), hw]
    · rw [dcStepRow_take a b k (m + 1) w (by omega) (by omega), hinv, show k - m = (k - (m + 1)) + 1 by omega,
        iter_succ']

/-- a loop whose step rewrites every row of the work array independently -/
theorem foldM_rows (js : List Nat) (S : Nat → List F → List F)
    (G : List (List F) → Nat → Except Err (List (List F))) (d k : Nat)
    (hS : ∀ j ∈ js, ∀ w : List F, w.length = k → (S j w).length = k)
    (hG : ∀ j ∈ js, ∀ ws : List (List F), ws.length = d → (∀ w ∈ ws, w.length = k) → G ws j = .ok (ws.map (S j)))
    (ws : List (List F)) (hd : ws.length = d) (hws : ∀ w ∈ ws, w.length = k) :
    Src.Py.Rt.foldM js ws G = .ok (ws.map fun w => js.foldl (fun w j => S j w) w) := by
  induction js generalizing ws with
  | nil => simp [Src.Py.Rt.foldM]
  | cons j js ih =>
    rw [Src.Py.Rt.foldM, hG j (List.mem_cons_self ..) ws hd hws]
    simp only [Src.Py.Rt.bind_ok]
    rw [ih (fun i hi => hS i (List.mem_cons_of_mem _ hi)) (fun i hi => hG i (List.mem_cons_of_mem _ hi))
      (ws.map (S j)) (by simpa using hd)
      (by intro w hw; obtain ⟨w0, h0, rfl⟩ := List.mem_map.mp hw; exact hS j (List.mem_cons_self ..) w0 (hws w0 h0))]
    simp only [List.map_map, Function.comp_def, List.foldl_cons]

theorem mapM_map_ok {α : Type} (f : List F → Except Err α) (h : List F → List F) (g : List F → α)
    (l : List (List F)) (hyp : ∀ r ∈ l, f (h r) = .ok (g r)) : List.mapM f (l.map h) = .ok (l.map g) := by
  induction l with
  | nil => rfl
  | cons r rows ih =>
    rw [List.map_cons, SrcPy.mapM_cons_rt, hyp r (List.mem_cons_self ..),
      ih (fun x hx => hyp x (List.mem_cons_of_mem _ hx))]
    rfl

theorem idx_zero_of_take (l r : List F) (h : l.take 1 = r) (hr : r.length = 1) :
    Src.Py.Rt.idx l 0 = .ok (r.headD 0) := by
  cases l with
  | nil => subst h; simp at hr
  | cons x xs => subst h; rfl

/-- `evaluate_multi_de_casteljau` for ONE parameter pair on a rectangular array with `n ≥ 2` columns and at least one
    row: the work array `workspace[:, 0, :]` is updated in place, row by row as the model's `dcRound`; after the
    descending loop its first column holds `evalDC … (n - 1)` of every row -/
theorem evaluate_multi_de_casteljau_src (nodes : List (List F)) (n : Nat) (hn : 2 ≤ n) (hne : nodes ≠ [])
    (hrect : ∀ r ∈ nodes, r.length = n) (a b : F) :
    Src.Py.evaluate_multi_de_casteljau nodes a b = .ok (nodes.map fun row => evalDC a b (n - 1) row) := by
  unfold Src.Py.evaluate_multi_de_casteljau
  rw [shape_rect' nodes n hne hrect]
  simp only [Src.Py.Rt.bind_ok]
  obtain ⟨k, rfl⟩ : ∃ k, n = k + 1 := ⟨n - 1, by omega⟩
  have hk : 1 ≤ k := by omega
  have hdeg : (((k + 1 : Nat) : Int) - 1) = (k : Int) := by omega
  rw [hdeg, if_neg (by omega)]
  simp only [Int.toNat_natCast, Src.Py.Rt.cols, Src.Py.Rt.mmap, List.map_map, Function.comp_def, slice_none_nat,
    slice_1_none, Nat.add_sub_cancel, Nat.sub_zero]
  -- the initial work array: one round of de Casteljau on every row
  rw [mzip_map_mem _ nodes (fun r => (r.take k).map fun x => a * x) (fun r => (r.drop 1).map fun x => b * x)
    (by intro r hr; simp [hrect r hr])]
  simp only [Src.Py.Rt.bind_ok]
  have h0 : (nodes.map fun r => List.zipWith (fun x y => x + y) ((r.take k).map fun x => a * x)
      ((r.drop 1).map fun x => b * x)) = nodes.map (dcRound a b) :=
    map_congr_rect nodes (k + 1) hrect _ _ (fun r hr => by
      rw [← dcRound_zip, List.dropLast_eq_take, hr]; rfl)
  rw [h0]
  have hlen0 : ∀ w ∈ nodes.map (dcRound a b), w.length = k := by
    intro w hw
    obtain ⟨r, hr, rfl⟩ := List.mem_map.mp hw
    rw [length_dcRound, hrect r hr]; rfl
  have hshape : Src.Py.Rt.asShape nodes.length k (nodes.map (dcRound a b)) = .ok (nodes.map (dcRound a b)) := by
    unfold Src.Py.Rt.asShape
    rw [if_pos]
    refine ⟨by simp, ?_⟩
    rw [List.all_eq_true]
    intro w hw
    simp [hlen0 w hw]
  rw [hshape]
  simp only [Src.Py.Rt.bind_ok]
  have hk1 : (((k : Int) - 1).toNat) = k - 1 := by omega
  rw [hk1]
  -- the descending loop
  rw [foldM_rows _ (fun j w => dcStepRow a b k j w) _ nodes.length k
    (by
      intro j hj w hw
      have hj' : 1 ≤ j ∧ j < 1 + (k - 1) := by simpa [List.mem_range'_1] using hj
      rw [length_dcStepRow a b k j w (by omega) (by omega), hw])
    (by
      intro j hj ws hd hws
      have hj' : 1 ≤ j ∧ j < 1 + (k - 1) := by simpa [List.mem_range'_1] using hj
      have hfill : ∀ c : F, Src.Py.Rt.mfill nodes.length k c = ws.map fun _ => List.replicate k c := by
        intro c
        rw [Src.Py.Rt.mfill, List.map_const', hd]
      rw [hfill a, hfill b]
      simp only [List.map_map, Function.comp_def]
      rw [mzip_map_mem _ ws (fun _ => (List.replicate k a).take j) (fun w => w.take j)
        (by intro w hw; simp [hws w hw])]
      simp only [Src.Py.Rt.bind_ok]
      have hs1 : ∀ w : List F, Src.Py.Rt.slice w (some (1 : Int)) (some ((j : Int) + ((1 : Nat) : Int))) =
          (w.drop 1).take j := by
        intro w
        rw [show ((j : Int) + ((1 : Nat) : Int)) = ((j + 1 : Nat) : Int) by push_cast; rfl]
        exact slice_1_nat w j
      simp only [hs1]
      rw [mzip_map_mem _ ws (fun _ => (List.replicate k b).take j) (fun w => (w.drop 1).take j)
        (by intro w hw; simp [hws w hw]; omega)]
      simp only [Src.Py.Rt.bind_ok]
      rw [mzip_map_mem _ ws _ _ (by intro w hw; simp [hws w hw]; omega)]
      simp only [Src.Py.Rt.bind_ok]
      rw [setCols_prefix ws j _ (by intro w hw; simp [hws w hw]; omega)]
      rfl)
    (nodes.map (dcRound a b)) (by simp) hlen0]
  simp only [Src.Py.Rt.bind_ok, List.map_map, Function.comp_def]
  -- the first column
  have hcol : ∀ r ∈ nodes, Src.Py.Rt.idx ((List.range' 1 (k - 1)).reverse.foldl (fun w j => dcStepRow a b k j w)
      (dcRound a b r)) 0 = .ok (evalDC a b (k + 1 - 1) r) := by
    intro r hr
    have hr' : r.length = k + 1 := hrect r hr
    have := dc_row_loop a b k r hr' (k - 1) (by omega) (dcRound a b r) (by rw [length_dcRound, hr']; rfl)
      (by rw [show k - 1 + 1 = k by omega, show k - (k - 1) = 1 by omega, List.take_of_length_le (by
        rw [length_dcRound, hr']; omega)]; rfl)
    rw [idx_zero_of_take _ _ this (by rw [length_iter_dcRound, hr']; omega), evalDC_eq_iter]
    rfl
  exact mapM_map_ok _ _ _ nodes hcol

/-! ### the dispatch and the routines built on `evaluate_multi` -/

/-- `evaluate_multi_barycentric`: the switch `num_nodes > 55` between the two kernels is the model's `evalBary 55` -/
theorem evaluate_multi_barycentric_src (nodes : List (List F)) (n : Nat) (hn : 1 ≤ n)
    (hrect : ∀ r ∈ nodes, r.length = n) (l1 l2 : F) :
    Src.Py.evaluate_multi_barycentric nodes l1 l2 = .ok (nodes.map fun row => evalBary 55 row l1 l2) := by
  by_cases hne : nodes = []
  · subst hne; rfl
  unfold Src.Py.evaluate_multi_barycentric
  rw [shape_rect' nodes n hne hrect]
  simp only [Src.Py.Rt.bind_ok]
  by_cases h : 55 < n
  · rw [if_pos h, evaluate_multi_de_casteljau_src nodes n (by omega) hne hrect]
    congr 1
    exact map_congr_rect nodes n hrect _ _ (fun r hr => by simp [evalBary, hr, h])
  · rw [if_neg h, evaluate_multi_vs_src nodes n hn hrect]
    congr 1
    exact map_congr_rect nodes n hrect _ _ (fun r hr => by simp [evalBary, hr, h])

/-- `evaluate_multi` at ONE parameter value is the model's `evalPoint` -/
theorem evaluate_multi_src (nodes : List (List F)) (n : Nat) (hn : 1 ≤ n) (hrect : ∀ r ∈ nodes, r.length = n) (s : F) :
    Src.Py.evaluate_multi nodes s = .ok (evalPoint 55 nodes s) := by
  unfold Src.Py.evaluate_multi
  exact evaluate_multi_barycentric_src nodes n hn hrect _ _

theorem diffs_zip (r : List F) : List.zipWith (fun x y => x - y) (r.drop 1) r.dropLast = diffs r := by
  induction r with
  | nil => rfl
  | cons x xs ih =>
    cases xs with
    | nil => rfl
    | cons y ys =>
      simp only [List.drop_succ_cons, List.drop_zero, List.dropLast_cons_cons, List.zipWith_cons_cons, diffs]
      simpa using ih

theorem length_diffs (r : List F) : (diffs r).length = r.length - 1 := by
  induction r with
  | nil => rfl
  | cons x xs ih =>
    cases xs with
    | nil => rfl
    | cons y ys => simp only [diffs, List.length_cons, ih]; omega

/-- `evaluate_hodograph` (at least two nodes): `(num_nodes - 1) * evaluate_multi(nodes[:, 1:] - nodes[:, :-1], [s])` -/
theorem evaluate_hodograph_src (nodes : List (List F)) (n : Nat) (hn : 2 ≤ n) (hne : nodes ≠ []) (hrect : ∀ r ∈ nodes, r.length = n) (s : F) :
    Src.Py.evaluate_hodograph s nodes = .ok (hodograph 55 nodes s) := by
  unfold Src.Py.evaluate_hodograph
  rw [shape_rect' nodes n hne hrect]
  simp only [Src.Py.Rt.bind_ok, Src.Py.Rt.cols, slice_1_none, slice_none_neg1]
  rw [mzip_map _ nodes (fun r => r.drop 1) (fun r => r.dropLast) (by intro r; simp)]
  simp only [Src.Py.Rt.bind_ok, diffs_zip]
  rw [evaluate_multi_src (nodes.map diffs) (n - 1) (by omega)
    (by intro r hr; obtain ⟨r0, h0, rfl⟩ := List.mem_map.mp hr; rw [length_diffs, hrect r0 h0])]
  simp only [Src.Py.Rt.bind_ok, evalPoint, hodograph, List.map_map, Function.comp_def]
  congr 1
  have hc : ((n : Int) - 1) = ((n - 1 : Nat) : Int) := by omega
  rw [hc, ofInt_nat']
  exact map_congr_rect nodes n hrect _ _ (fun r hr => by simp [hodographRow, hr])

/-- `newton_refine` (curve, at least two nodes, `point` with one entry per row) -/
theorem newton_refine_src (nodes : List (List F)) (n : Nat) (hn : 2 ≤ n) (hne : nodes ≠ []) (hrect : ∀ r ∈ nodes, r.length = n)
    (point : List F) (hp : point.length = nodes.length) (s : F) :
    Src.Py.newton_refine nodes point s = .ok (newtonRefine 55 nodes point s) := by
  unfold Src.Py.newton_refine
  rw [evaluate_multi_src nodes n (by omega) hrect, evaluate_hodograph_src nodes n hn hne hrect]
  simp only [Src.Py.Rt.bind_ok]
  rw [SrcPy.vzip_eq _ _ _ (by simp [evalPoint, hp])]
  rfl

end Field
/-! ## `matrix_product` (hazmat/helpers.py), any field -/

section Mat
variable {F : Type} [Field F] [LinearOrder F]

/-- the `a × b` array with entries `f i j` -/
def mk (a b : Nat) (f : Nat → Nat → F) : List (List F) := (List.range a).map fun i => (List.range b).map (f i)

theorem rect_eq_mk (m : List (List F)) (b : Nat) (h : ∀ r ∈ m, r.length = b) :
    m = mk m.length b (fun i j => (m.getD i []).getD j 0) := by
  unfold mk
  apply List.ext_getElem
  · simp
  · intro i h1 h2
    have hr : (m[i]).length = b := h _ (List.getElem_mem h1)
    apply List.ext_getElem
    · simp [hr]
    · intro j h3 h4
      simp [List.getD_eq_getElem?_getD, List.getElem?_eq_getElem h1, List.getElem?_eq_getElem h3]

theorem ncols_mk (a b : Nat) (f : Nat → Nat → F) (ha : 1 ≤ a) : ncols (mk a b f) = b := by
  obtain ⟨a', rfl⟩ : ∃ a', a = a' + 1 := ⟨a - 1, by omega⟩
  simp [ncols, mk, List.range_succ_eq_map]

theorem col_mk (a b : Nat) (f : Nat → Nat → F) (c : Nat) (hc : c < b) :
    col (mk a b f) c = (List.range a).map fun i => f i c := by
  simp [col, mk, List.getD_eq_getElem?_getD, hc]

theorem transpose_mk (a b : Nat) (f : Nat → Nat → F) (ha : 1 ≤ a) :
    transpose (mk a b f) = mk b a (fun j i => f i j) := by
  unfold transpose
  rw [ncols_mk a b f ha]
  unfold mk
  apply List.map_congr_left
  intro c hc
  exact col_mk a b f c (List.mem_range.mp hc)

theorem matMul_mk (a b c : Nat) (f g : Nat → Nat → F) (hb : 1 ≤ b) :
    matMul (mk a b f) (mk b c g) =
      mk a c (fun i j => dot ((List.range b).map (f i)) ((List.range b).map fun k => g k j)) := by
  unfold matMul rowMul
  rw [ncols_mk b c g hb]
  unfold mk
  rw [List.map_map]
  apply List.map_congr_left
  intro i _
  apply List.map_congr_left
  intro j hj
  rw [show (List.map (fun i => List.map (g i) (List.range c)) (List.range b)) = mk b c g from rfl,
    col_mk b c g j (List.mem_range.mp hj)]

theorem dot_comm (x y : List F) : dot x y = dot y x := by
  unfold dot
  congr 1
  exact List.zipWith_comm_of_comm (fun a b => mul_comm a b)

/-- `matrix_product(mat1, mat2) = (mat2ᵀ mat1ᵀ)ᵀ` is the model's `matrixProduct = mat1 · mat2` on an `r × n` and an
    `n × p` array with `r, n, p ≥ 1` (a commutative `*` is needed: the code multiplies `mat2[k][j] * mat1[i][k]`) -/
theorem matrix_product_src (m1 m2 : List (List F)) (n p : Nat) (hr : m1 ≠ []) (hn : 1 ≤ n) (hp : 1 ≤ p)
    (h1 : ∀ r ∈ m1, r.length = n) (h2l : m2.length = n) (h2 : ∀ r ∈ m2, r.length = p) :
    Src.Py.matrix_product m1 m2 = .ok (Model.matrixProduct m1 m2) := by
  have hr' : 1 ≤ m1.length := List.length_pos_iff.mpr hr
  rw [rect_eq_mk m1 n h1, rect_eq_mk m2 p h2, h2l]
  generalize (fun i j => (m1.getD i []).getD j (0 : F)) = e1
  generalize (fun i j => (m2.getD i []).getD j (0 : F)) = e2
  generalize m1.length = r at hr'
  unfold Src.Py.matrix_product Model.matrixProduct
  rw [transpose_mk n p e2 hn, transpose_mk r n e1 hr', matMul_mk r n p e1 e2 hn]
  have hall : ((mk p n fun j i => e2 i j).all fun row => row.length == (mk n r fun j i => e1 i j).length) = true := by
    simp [mk]
  simp only [Src.Py.Rt.npDot, hall, ↓reduceIte, Src.Py.Rt.bind_ok]
  rw [matMul_mk p n r _ _ hn, transpose_mk p r _ hp]
  congr 1
  unfold mk
  apply List.map_congr_left
  intro i _
  apply List.map_congr_left
  intro j _
  exact dot_comm _ _

end Mat
end BezierVerif.SrcPyKernels
