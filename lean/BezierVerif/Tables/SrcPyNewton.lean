import BezierVerif.Tables.SrcPyKernels
import BezierVerif.Model.AlgebraicAssembly

/-!
# Tables/SrcPyNewton — the Newton refinement of `hazmat/intersection_helpers.py` (phase 3 of the source tie)

Generated definitions: `Generated/SrcPy.lean` (rewritten on every run by `harness/translate_py.py`).

| source (hazmat/intersection_helpers.py) | theorem                      | model definition                       | domain / hypotheses |
|------------------------------------------|------------------------------|----------------------------------------|---------------------|
| full_newton_nonzero                      | `full_newton_nonzero_src`    | `Model.fullNewtonNonzero`              | any `K`; rectangular arrays with ≥ 1 row; the three untranslated callees are parameters, assumed to be the model's (`hS`, `hD`, `hI`) |
| full_newton                              | `full_newton_src`            | `Model.fullNewton … (q 1 1024) …`      | as above; `ZERO_THRESHOLD` is read from the source |
| newton_refine (curve–curve)              | `newton_refine_curves_src`   | `Model.Alg.newtonRefineCurves 55`      | any field; two planar curves with ≥ 2 nodes |
| NewtonSimpleRoot.__call__                | `newton_simple_call_src`     | `Model.newtonSimple 55`                | any field; planar curves with ≥ 2 nodes; fields `first_deriv_i` = `derivNet` of the rows |

`full_newton_nonzero_src` is the tie that pins the derivative control nets: `first_deriv_i = (num_nodes_i − 1)·Δ nodes_i` and
`second_deriv_i = (num_nodes_i − 2)·Δ first_deriv_i` must be `derivNet` resp. `derivNet ∘ derivNet` of the rows of the SAME curve
(exchanging `num_nodes1` / `num_nodes2`, or a wrong factor, breaks it), the double-root iteration starts where the simple-root
iteration stopped, and no convergence raises `NotImplementedError`.  Not translated (parameters of the generated definitions):
`newton_iterate` (loop with `break` and `None`-valued running variables), the constructors of the two classes, and
`NewtonDoubleRoot.__call__` (a 3 × 2 array filled entry by entry).  `newton_simple_call_src` discharges the hypothesis `hS` of
`full_newton_nonzero_src` pointwise for the translated `__call__`.
-/

set_option linter.unusedSectionVars false

namespace BezierVerif.SrcPyNewton

open BezierVerif BezierVerif.Model BezierVerif.SrcPyKernels

variable {K : Type} [Add K] [Sub K] [Mul K] [Div K] [Neg K] [OfNat K 0] [OfNat K 1] [NatCast K]
  [LT K] [DecidableLT K] [LE K] [DecidableLE K] [DecidableEq K]

theorem ofInt_natCast (k : Nat) : (Src.Py.Rt.ofInt (k : Int) : K) = ((k : Nat) : K) := by
  unfold Src.Py.Rt.ofInt
  rw [if_neg (by omega), Int.natAbs_natCast]

theorem shape_rect (nodes : List (List K)) (n : Nat) (hne : nodes ≠ []) (hrect : ∀ r ∈ nodes, r.length = n) :
    Src.Py.Rt.shape nodes = .ok (nodes.length, n) := by
  obtain ⟨r, rs, rfl⟩ := List.exists_cons_of_ne_nil hne
  have hr : r.length = n := hrect r (List.mem_cons_self ..)
  have hall : (rs.all fun x => x.length == r.length) = true := by
    rw [List.all_eq_true]
    intro x hx
    simp [hrect x (List.mem_cons_of_mem _ hx), hr]
  unfold Src.Py.Rt.shape
  dsimp only
  rw [if_pos hall, hr]
  rfl

theorem diffs_zip (r : List K) : List.zipWith (fun x y => x - y) (r.drop 1) r.dropLast = diffs r := by
  induction r with
  | nil => rfl
  | cons x xs ih =>
    cases xs with
    | nil => rfl
    | cons y ys =>
      simp only [List.drop_succ_cons, List.drop_zero, List.dropLast_cons_cons, List.zipWith_cons_cons, diffs]
      simpa using ih

theorem diffs_short (r : List K) (h : r.length ≤ 1) : diffs r = [] := by
  rcases r with _ | ⟨x, _ | ⟨y, ys⟩⟩
  · rfl
  · rfl
  · simp at h

theorem length_derivNet (r : List K) : (derivNet r).length = r.length - 1 := by
  have : ∀ l : List K, (diffs l).length = l.length - 1 := by
    intro l
    induction l with
    | nil => rfl
    | cons x xs ih =>
      cases xs with
      | nil => rfl
      | cons y ys => simp only [diffs, List.length_cons, ih]; omega
  simp [derivNet, this]

/-- `c * (rows[:, 1:] - rows[:, :-1])` with the Python int `c = (number of columns) - 1` is `derivNet` on every row
    (for at most one column both are empty whatever `c` is) -/
theorem deriv_rows (rows : List (List K)) (m : Nat) (c : Int) (hc : 2 ≤ m → c = ((m - 1 : Nat) : Int))
    (hrect : ∀ r ∈ rows, r.length = m) :
    Src.Py.Rt.mzip (fun x y => x - y) (Src.Py.Rt.cols rows (some (1 : Int)) none)
        (Src.Py.Rt.cols rows none (some (-1 : Int))) =
      .ok (rows.map diffs) ∧
    Src.Py.Rt.mmap (fun x => Src.Py.Rt.ofInt c * x) (rows.map diffs) = rows.map derivNet := by
  constructor
  · simp only [Src.Py.Rt.cols, slice_1_none, slice_none_neg1]
    rw [mzip_map _ rows (fun r => r.drop 1) (fun r => r.dropLast) (by intro r; simp)]
    simp only [diffs_zip]
  · simp only [Src.Py.Rt.mmap, List.map_map, Function.comp_def]
    apply List.map_congr_left
    intro r hr
    by_cases h2 : 2 ≤ m
    · rw [hc h2, ofInt_natCast, derivNet, hrect r hr]
    · rw [derivNet, diffs_short r (by rw [hrect r hr]; omega)]
      rfl

/-- how the three untranslated pieces answer: `newton_iterate` returns `(converged, s, t)` -/
def encOutcome : NewtonOutcome K → Bool × K × K
  | .converged s t => (true, s, t)
  | .failed s t => (false, s, t)

/-- **`full_newton_nonzero`**: the derivative control nets handed to `NewtonSimpleRoot` / `NewtonDoubleRoot` are
    `(num_nodes - 1) · Δ` and `(num_nodes - 2) · Δ²` of the RIGHT curve each, the double-root iteration starts where the
    simple-root iteration stopped, and no convergence is `NotImplementedError`.  `NewtonSimpleRoot`, `NewtonDoubleRoot`
    (classes) and `newton_iterate` are not translated: they are parameters of the generated definition, assumed here to be
    the model's `newtonSimple`, `newtonDouble` (given the derivative nets of the model) and `newtonIterate`. -/
theorem full_newton_nonzero_src (solve : Solver K) (cut : Nat → Nat → Bool) (rnd : K → K) (ratioSq : K) (thr fuel : Nat)
    (mkD : List (List K) → List (List K) → List (List K) → List (List K) → List (List K) → List (List K) → NewtonEval K)
    (mkS : List (List K) → List (List K) → List (List K) → List (List K) → NewtonEval K)
    (it : NewtonEval K → K → K → Except Err (Bool × K × K))
    (hS : ∀ n1 n2, mkS n1 (n1.map derivNet) n2 (n2.map derivNet) = newtonSimple thr n1 n2)
    (hD : ∀ n1 n2, mkD n1 (n1.map derivNet) (n1.map fun r => derivNet (derivNet r)) n2 (n2.map derivNet)
        (n2.map fun r => derivNet (derivNet r)) = newtonDouble thr n1 n2)
    (hI : ∀ ev s t, it ev s t = .ok (encOutcome (newtonIterate solve cut rnd ratioSq ev fuel s t)))
    (s t : K) (n1 n2 : List (List K)) (m1 m2 : Nat) (h1 : n1 ≠ []) (h2 : n2 ≠ [])
    (r1 : ∀ r ∈ n1, r.length = m1) (r2 : ∀ r ∈ n2, r.length = m2) :
    Src.Py.full_newton_nonzero mkD mkS it s n1 t n2 = fullNewtonNonzero solve cut rnd ratioSq thr fuel s n1 t n2 := by
  unfold Src.Py.full_newton_nonzero fullNewtonNonzero
  rw [shape_rect n1 m1 h1 r1, shape_rect n2 m2 h2 r2]
  simp only [Src.Py.Rt.bind_ok]
  obtain ⟨a1, b1⟩ := deriv_rows n1 m1 ((m1 : Int) - 1) (by intro h; omega) r1
  obtain ⟨a2, b2⟩ := deriv_rows n2 m2 ((m2 : Int) - 1) (by intro h; omega) r2
  rw [a1, a2]
  simp only [Src.Py.Rt.bind_ok, b1, b2, hS, hI]
  cases newtonIterate solve cut rnd ratioSq (newtonSimple thr n1 n2) fuel s t with
  | converged s' t' => rfl
  | failed s' t' =>
    simp only [encOutcome, Bool.false_eq_true, ↓reduceIte]
    obtain ⟨c1, d1⟩ := deriv_rows (n1.map derivNet) (m1 - 1) ((m1 : Int) - 2) (by intro h; omega)
      (by intro r hr; obtain ⟨r0, h0, rfl⟩ := List.mem_map.mp hr; rw [length_derivNet, r1 r0 h0])
    obtain ⟨c2, d2⟩ := deriv_rows (n2.map derivNet) (m2 - 1) ((m2 : Int) - 2) (by intro h; omega)
      (by intro r hr; obtain ⟨r0, h0, rfl⟩ := List.mem_map.mp hr; rw [length_derivNet, r2 r0 h0])
    rw [c1, c2]
    simp only [Src.Py.Rt.bind_ok, d1, d2]
    simp only [List.map_map, Function.comp_def, hD, hI]
    cases newtonIterate solve cut rnd ratioSq (newtonDouble thr n1 n2) fuel s' t' <;> rfl

/-- **`full_newton`**: a parameter below `ZERO_THRESHOLD = 2^-10` (read from the source) is handled on the reversed curve
    (`nodes[:, ::-1]`, parameter `1 - s`, result mapped back) -/
theorem full_newton_src (solve : Solver K) (cut : Nat → Nat → Bool) (rnd : K → K) (ratioSq : K) (thr fuel : Nat)
    (mkD : List (List K) → List (List K) → List (List K) → List (List K) → List (List K) → List (List K) → NewtonEval K)
    (mkS : List (List K) → List (List K) → List (List K) → List (List K) → NewtonEval K)
    (it : NewtonEval K → K → K → Except Err (Bool × K × K))
    (hS : ∀ n1 n2, mkS n1 (n1.map derivNet) n2 (n2.map derivNet) = newtonSimple thr n1 n2)
    (hD : ∀ n1 n2, mkD n1 (n1.map derivNet) (n1.map fun r => derivNet (derivNet r)) n2 (n2.map derivNet)
        (n2.map fun r => derivNet (derivNet r)) = newtonDouble thr n1 n2)
    (hI : ∀ ev s t, it ev s t = .ok (encOutcome (newtonIterate solve cut rnd ratioSq ev fuel s t)))
    (s t : K) (n1 n2 : List (List K)) (m1 m2 : Nat) (h1 : n1 ≠ []) (h2 : n2 ≠ [])
    (r1 : ∀ r ∈ n1, r.length = m1) (r2 : ∀ r ∈ n2, r.length = m2) :
    Src.Py.full_newton mkD mkS it s n1 t n2 =
      fullNewton solve cut rnd ratioSq (q 1 1024) thr fuel s n1 t n2 := by
  have hrev : ∀ (n : List (List K)) (m : Nat), n ≠ [] → (∀ r ∈ n, r.length = m) →
      (n.map List.reverse ≠ [] ∧ ∀ r ∈ n.map List.reverse, r.length = m) := by
    intro n m hn hr
    refine ⟨by simpa using hn, ?_⟩
    intro r hr'
    obtain ⟨r0, h0, rfl⟩ := List.mem_map.mp hr'
    simpa using hr r0 h0
  have key := fun s n1 t n2 m1 m2 h1 h2 r1 r2 =>
    full_newton_nonzero_src solve cut rnd ratioSq thr fuel mkD mkS it hS hD hI s t n1 n2 m1 m2 h1 h2 r1 r2
  unfold Src.Py.full_newton fullNewton Src.Py.Rt.mrev
  dsimp only
  obtain ⟨e1, f1⟩ := hrev n1 m1 h1 r1
  obtain ⟨e2, f2⟩ := hrev n2 m2 h2 r2
  split
  · split
    · rw [key _ _ _ _ m1 m2 e1 e2 f1 f2]
      cases fullNewtonNonzero solve cut rnd ratioSq thr fuel (1 - s) (n1.map List.reverse) (1 - t)
        (n2.map List.reverse) <;> rfl
    · rw [key _ _ _ _ m1 m2 e1 h2 f1 r2]
      cases fullNewtonNonzero solve cut rnd ratioSq thr fuel (1 - s) (n1.map List.reverse) t n2 <;> rfl
  · split
    · rw [key _ _ _ _ m1 m2 h1 e2 r1 f2]
      cases fullNewtonNonzero solve cut rnd ratioSq thr fuel s n1 (1 - t) (n2.map List.reverse) <;> rfl
    · exact key _ _ _ _ m1 m2 h1 h2 r1 r2

/-! ## `newton_refine` (curve–curve, one Newton step; any field) -/

section Field
variable {F : Type} [Field F] [LinearOrder F]

/-- `intersection_helpers.newton_refine(s, nodes1, t, nodes2)` on two planar curves with at least two nodes each: the
    function value `B₂(t) − B₁(s)`, the exact-zero exit, the Jacobian `[B₁'(s), −B₂'(t)]` filled by columns into
    `np.empty((2, 2))`, `solve2x2` and `ValueError` on a singular Jacobian are `Alg.newtonRefineCurves` -/
theorem newton_refine_curves_src (s t : F) (x1 y1 x2 y2 : List F) (m1 m2 : Nat) (h1 : 2 ≤ m1) (h2 : 2 ≤ m2)
    (hx1 : x1.length = m1) (hy1 : y1.length = m1) (hx2 : x2.length = m2) (hy2 : y2.length = m2) :
    Src.Py.intersection_helpers.newton_refine s [x1, y1] t [x2, y2] =
      Alg.newtonRefineCurves 55 s [x1, y1] t [x2, y2] := by
  have r1 : ∀ r ∈ [x1, y1], r.length = m1 := by
    intro r hr; simp at hr; rcases hr with rfl | rfl <;> assumption
  have r2 : ∀ r ∈ [x2, y2], r.length = m2 := by
    intro r hr; simp at hr; rcases hr with rfl | rfl <;> assumption
  unfold Src.Py.intersection_helpers.newton_refine Alg.newtonRefineCurves
  rw [evaluate_multi_src _ m2 (by omega) r2, evaluate_multi_src _ m1 (by omega) r1]
  simp only [Src.Py.Rt.bind_ok]
  rw [SrcPy.vzip_eq _ _ _ (by simp [evalPoint])]
  simp only [Src.Py.Rt.bind_ok, List.all_map, Function.comp_def, id, subRow]
  by_cases hz : ((List.zipWith (fun x y => x - y) (evalPoint 55 [x2, y2] t) (evalPoint 55 [x1, y1] s)).all
      fun x => decide (x = 0)) = true
  · simp only [hz, ↓reduceIte]
  · simp only [hz, Bool.false_eq_true, ↓reduceIte]
    rw [evaluate_hodograph_src _ m1 h1 (by simp) r1, evaluate_hodograph_src _ m2 h2 (by simp) r2]
    simp only [Src.Py.Rt.bind_ok, hodograph, evalPoint, List.map_cons, List.map_nil, Src.Py.Rt.asPt,
      List.zipWith_cons_cons, List.zipWith_nil_right, seq, List.getD_cons_zero, List.getD_cons_succ]
    rw [SrcPy.solve2x2_src]
    simp only [Src.Py.Rt.bind_ok]
    cases Model.solve2x2 (hodographRow 55 x1 s) (-hodographRow 55 x2 t) (hodographRow 55 y1 s)
      (-hodographRow 55 y2 t) (evalBary 55 x2 (1 - t) t - evalBary 55 x1 (1 - s) s)
      (evalBary 55 y2 (1 - t) t - evalBary 55 y1 (1 - s) s) with
    | none => rfl
    | some p => rfl

/-! ## `NewtonSimpleRoot.__call__` (the object's fields are arguments of the generated definition) -/

/-- the code returns `(jacobian or None, func_val)`; the model `none` / `some ((a, b, c, d), (f0, f1))` -/
def encEval (o : Option ((F × F × F × F) × (F × F))) (fv : List F) : Option (List (List F)) × List F :=
  match o with
  | none => (none, fv)
  | some ((a, b, c, d), _) => (some [[a, b], [c, d]], fv)

/-- `NewtonSimpleRoot(nodes1, first_deriv1, nodes2, first_deriv2)(s, t)` on two planar curves with at least two nodes,
    GIVEN the derivative nets `derivNet` of the model (which `full_newton_nonzero_src` shows are the ones passed in):
    `F = B₁(s) − B₂(t)`, the exact-zero exit, the Jacobian `[B₁'(s), −B₂'(t)]` are `Model.newtonSimple` -/
theorem newton_simple_call_src (s t : F) (x1 y1 x2 y2 : List F) (m1 m2 : Nat) (h1 : 2 ≤ m1) (h2 : 2 ≤ m2)
    (hx1 : x1.length = m1) (hy1 : y1.length = m1) (hx2 : x2.length = m2) (hy2 : y2.length = m2) :
    Src.Py.NewtonSimpleRoot.call [x1, y1] [derivNet x1, derivNet y1] [x2, y2] [derivNet x2, derivNet y2] s t =
      .ok (encEval (newtonSimple 55 [x1, y1] [x2, y2] s t)
        [evalRow 55 x1 s - evalRow 55 x2 t, evalRow 55 y1 s - evalRow 55 y2 t]) := by
  have r1 : ∀ r ∈ [x1, y1], r.length = m1 := by
    intro r hr; simp at hr; rcases hr with rfl | rfl <;> assumption
  have r2 : ∀ r ∈ [x2, y2], r.length = m2 := by
    intro r hr; simp at hr; rcases hr with rfl | rfl <;> assumption
  have d1 : ∀ r ∈ [derivNet x1, derivNet y1], r.length = m1 - 1 := by
    intro r hr; simp at hr; rcases hr with rfl | rfl <;> simp [length_derivNet, hx1, hy1]
  have d2 : ∀ r ∈ [derivNet x2, derivNet y2], r.length = m2 - 1 := by
    intro r hr; simp at hr; rcases hr with rfl | rfl <;> simp [length_derivNet, hx2, hy2]
  unfold Src.Py.NewtonSimpleRoot.call newtonSimple
  dsimp only
  rw [evaluate_multi_src _ m1 (by omega) r1, evaluate_multi_src _ m2 (by omega) r2]
  simp only [Src.Py.Rt.bind_ok]
  rw [SrcPy.vzip_eq _ _ _ (by simp [evalPoint])]
  simp only [Src.Py.Rt.bind_ok, evalPoint, List.map_cons, List.map_nil, List.zipWith_cons_cons,
    List.zipWith_nil_right, List.all_cons, List.all_nil, id, Bool.and_true, List.getD_cons_zero,
    List.getD_cons_succ, evalRow]
  by_cases hz : evalBary 55 x1 (1 - s) s - evalBary 55 x2 (1 - t) t = 0 ∧
      evalBary 55 y1 (1 - s) s - evalBary 55 y2 (1 - t) t = 0
  · simp [hz, encEval]
  · have hz' : ¬ ((decide (evalBary 55 x1 (1 - s) s - evalBary 55 x2 (1 - t) t = 0) &&
        decide (evalBary 55 y1 (1 - s) s - evalBary 55 y2 (1 - t) t = 0)) = true) := by
      simpa using hz
    rw [if_neg hz', if_neg hz, evaluate_multi_src _ (m1 - 1) (by omega) d1,
      evaluate_multi_src _ (m2 - 1) (by omega) d2]
    simp only [Src.Py.Rt.bind_ok, evalPoint, List.map_cons, List.map_nil, Src.Py.Rt.asPt, encEval]

end Field

end BezierVerif.SrcPyNewton
