import BezierVerif.Tables.SrcPyNewton
import BezierVerif.Model.GeometricInst

/-!
# Tables/SrcPyPipeline — the curve–curve intersection pipeline of `hazmat/intersection_helpers.py` /
`hazmat/geometric_intersection.py` (phase 4 of the source tie, builder `pypipeline`)

Generated definitions: `Generated/SrcPy.lean` (rewritten on every run by `harness/translate_py.py`).

| source                                   | theorem                         | model definition                              | domain / hypotheses |
|------------------------------------------|---------------------------------|-----------------------------------------------|---------------------|
| intersection_helpers.newton_iterate      | `newton_iterate_src`            | `Model.newtonIterate solverOf Py.cut id (2^-36)² · 10` | `ℝ`, `Real.sqrt`; `evaluate_fn` any callable that answers like a `NewtonEval` (`EvalLike`) |
|                                          | `newton_iterate_simple_src`     | … `(newtonSimple 55 n1 n2)`                    | the callable is the TRANSLATED `NewtonSimpleRoot.__call__` (planar curves, ≥ 2 nodes) |
|                                          | `newton_iterate_hI`, `full_newton_with_iterate_src` | `Model.fullNewton solverOf Py.cut id (2^-36)² 2^-10 · 10` | discharges `hI` of `SrcPyNewton.full_newton_src`: `full_newton` with the translated loop plugged in |
| intersection_helpers.NewtonDoubleRoot.__call__ | `newton_double_call_src`    | `Model.newtonDouble 55`                       | any field; planar curves with ≥ 2 nodes; fields = `derivNet`, `derivNet ∘ derivNet` of the rows |
|                                          | `newton_iterate_double_src`     | `newtonIterate … (newtonDouble 55 n1 n2) 10`   | `ℝ`; translated loop on the translated `__call__` (read through `firstCol`: `func_val[:, 0]` of a `2 × 1` array) |
| geometric_intersection.make_same_degree  | `make_same_degree_src`, `make_same_degree_model` | `iter elev (m₂ − m₁) n₁, iter elev (m₁ − m₂) n₂` = `Model.makeSameDegree` | any `K`; rectangular arrays with ≥ 1 row; `elevate_nodes` is a parameter |
| geometric_intersection.coincident_parameters | `coincident_parameters_src` | `Model.coincidentParameters P G`              | `ℝ`; `locate_point`, `specialize_curve`, `elevate_nodes` parameters (= `P.locate`, `P.specialize`, `elevate`); planar nets, shapes that make `vector_close` well formed |
| geometric_intersection.from_linearized   | `from_linearized_src`           | `Model.fromLinearized P G orig₁ orig₂ c₁ e₁ c₂ e₂` | `ℝ`; `Linearization` objects as `__init__` builds them (`LinOk`); `convex_hull_collide` parameter; `full_newton` the translated one (`hfn`) |
| geometric_intersection.prune_candidates  | `prune_candidates_src`, `prune_candidates_model` | `Model.pruneCandidates P`               | any `K`; candidates related by `CandRel`; `convex_hull_collide` parameter |
| geometric_intersection.check_lines       | `check_lines_src`               | `Model.checkLines P`                          | any `K`; candidates related by `CandRel`, linearizations as `__init__` builds them; `P.parallelLines` read off the translated `parallel_lines_parameters` (`decPar`) |
| geometric_intersection.all_intersections | `all_intersections_unfold`, `all_loop`, `all_intersections_src` | `Model.allIntersections P G` (`maxRounds = 20`, `maxCandidates = 64`) | any `K`; `Linearization.from_shape`, `intersect_one_round` parameters that answer like the model's on related candidates; `check_lines`, `prune_candidates`, `coincident_parameters` the translated ones |
| SubdividedCurve.subdivide (method)       | `subdivide_src`, `subdivide_model` | the two sub-curves of `Model.subdivideCand`  | `ℝ`; `subdivide_nodes` parameter |
| Linearization.from_shape (class method)  | `from_shape_src`, `from_shape_model` | `Model.fromShape P G`                       | `ℝ`; `_ERROR_VAL = 2^-26`; the model carries the squared error |

`newton_iterate_src` discharges the hypothesis `hI` of `SrcPyNewton.full_newton_nonzero_src` (see `newton_iterate_hI`).
The code compares norms (`np.linalg.norm`, an abstract `sqrt`), the model their squares; as in Tables/SrcPyKernels the
relation is stated at `K := ℝ` with `Real.sqrt`.  The running variables `norm_update_prev` / `norm_update` start as `None`;
that the code never multiplies `None` (`0.25 * norm_update_prev` is guarded by `index > 0`) is part of the proof: the
generated definition answers `Err.badInput` there and the theorem shows that this branch is not taken.
-/

set_option linter.unusedSectionVars false
set_option linter.unusedSimpArgs false
set_option linter.unnecessarySeqFocus false

namespace BezierVerif.SrcPyPipeline

open BezierVerif BezierVerif.Model BezierVerif.SrcPyKernels BezierVerif.SrcPyNewton

/-! ## `newton_iterate` -/

/-- the state the translated loop carries: `(norm_update_prev, norm_update, linear_updates, current_s, current_t)` -/
abbrev PyNewtonState := Option ℝ × Option ℝ × Nat × ℝ × ℝ

/-- a Python callable `evaluate_fn(s, t) -> (jacobian or None, func_val)` answers like the model's `ev`:
    `None` exactly when `ev` says `F = 0`, otherwise the 2 × 2 system of `ev` (`func_val` is the right-hand side) -/
def EvalLike (efn : ℝ → ℝ → Except Err (Option (List (List ℝ)) × List ℝ)) (ev : NewtonEval ℝ) : Prop :=
  ∀ s t, ∃ fv, efn s t = .ok (encEval (ev s t) fv) ∧ ∀ lhs f0 f1, ev s t = some (lhs, (f0, f1)) → fv = [f0, f1]

/-- what follows the loop: `return False, current_s, current_t` -/
def pyNewtonPost (res : (Bool × ℝ × ℝ) ⊕ PyNewtonState) : Except Err (Bool × ℝ × ℝ) :=
  match res with
  | .inl r => .ok r
  | .inr (_, _, _, current_s, current_t) => .ok (false, current_s, current_t)

/-- the body of the translated loop (a copy of the generated term; `newton_iterate_unfold` checks by `rfl` that the
    generated definition is this loop) -/
noncomputable def pyNewtonStep (efn : ℝ → ℝ → Except Err (Option (List (List ℝ)) × List ℝ)) :
    PyNewtonState → Nat → Except Err (Src.Py.Rt.Step (Bool × ℝ × ℝ) PyNewtonState) :=
  fun (norm_update_prev, norm_update, linear_updates, current_s, current_t) index =>
    Src.Py.Rt.bind (efn current_s current_t) fun (jacobian, func_val) =>
    if Option.isNone jacobian then
      .ok (Src.Py.Rt.Step.ret (true, current_s, current_t))
    else
      Src.Py.Rt.bind (Src.Py.Rt.unwrap jacobian) fun t2 =>
      Src.Py.Rt.bind (Src.Py.Rt.asPt func_val) fun t3 =>
      Src.Py.Rt.bind (Src.Py.solve2x2 t2 t3) fun (singular, delta_s, delta_t) =>
      if singular then
        .ok (Src.Py.Rt.Step.brk (norm_update_prev, norm_update, linear_updates, current_s, current_t))
      else
        let norm_update_prev := norm_update
        Src.Py.Rt.bind (Src.Py.Rt.unwrap delta_s) fun t5 =>
        Src.Py.Rt.bind (Src.Py.Rt.unwrap delta_t) fun t6 =>
        let norm_update := Real.sqrt (Model.normSq [t5, t6])
        Src.Py.Rt.bind
          (if (0 : Nat) < index then
            Src.Py.Rt.bind (Src.Py.Rt.unwrap norm_update_prev) fun t7 =>
            .ok (decide (((Model.q 1 4 : ℝ) * t7) < norm_update))
          else
            .ok false : Except Err Bool) fun t8 =>
        let linear_updates :=
          (if t8 then
            let linear_updates := linear_updates + (1 : Nat)
            linear_updates
          else
            linear_updates)
        if ((4 : Nat) ≤ index) ∧ (((2 : Nat) * (index + (1 : Nat))) ≤ ((3 : Nat) * linear_updates)) then
          .ok (Src.Py.Rt.Step.brk (norm_update_prev, some norm_update, linear_updates, current_s, current_t))
        else
          let norm_soln := Real.sqrt (Model.normSq [current_s, current_t])
          Src.Py.Rt.bind (Src.Py.Rt.unwrap delta_s) fun t9 =>
          let current_s := current_s - t9
          Src.Py.Rt.bind (Src.Py.Rt.unwrap delta_t) fun t10 =>
          let current_t := current_t - t10
          if norm_update < ((Model.q 1 68719476736 : ℝ) * norm_soln) then
            .ok (Src.Py.Rt.Step.ret (true, current_s, current_t))
          else
            .ok (Src.Py.Rt.Step.next (norm_update_prev, some norm_update, linear_updates, current_s, current_t))

/-- the generated `newton_iterate` IS: `MAX_NEWTON_ITERATIONS = 10` rounds of `pyNewtonStep` from
    `(None, None, 0, s, t)`, then `return False, current_s, current_t` -/
theorem newton_iterate_unfold (efn : ℝ → ℝ → Except Err (Option (List (List ℝ)) × List ℝ)) (s t : ℝ) :
    Src.Py.newton_iterate Real.sqrt efn s t =
      Src.Py.Rt.bind (Src.Py.Rt.loopM (List.range 10) ((none, none, 0, s, t) : PyNewtonState) (pyNewtonStep efn))
        pyNewtonPost := by
  unfold Src.Py.newton_iterate
  dsimp only
  congr 1          -- the loop (its body is `pyNewtonStep efn` by `rfl`); left: the statements after the loop
  funext st
  rcases st with r | ⟨a, b, c, d, e⟩ <;> rfl

@[simp] theorem unwrap_some {α : Type} (v : α) : Src.Py.Rt.unwrap (some v) = .ok v := rfl
@[simp] theorem unwrap_none {α : Type} : Src.Py.Rt.unwrap (none : Option α) = .error .badInput := rfl

theorem q14 : (q 1 4 : ℝ) = 1 / 4 := by
  rw [show (1 : Int) = ((1 : Nat) : Int) by rfl, q_real]; norm_num

theorem q36 : (q 1 68719476736 : ℝ) = 1 / 2 ^ 36 := by
  rw [show (1 : Int) = ((1 : Nat) : Int) by rfl, q_real]; norm_num

/-- `‖δ‖ > ¼ ‖δ_prev‖ ⇔ ‖δ_prev‖² < 16 ‖δ‖²` -/
theorem quarter_lt_iff (p a b : ℝ) (hp : 0 ≤ p) :
    1 / 4 * Real.sqrt p < Real.sqrt (normSq [a, b]) ↔ p < ((16 : Nat) : ℝ) * (a * a + b * b) := by
  have e1 : normSq [a, b] = a * a + b * b := by simp [normSq]
  have h2 : 0 ≤ a * a + b * b := by nlinarith [mul_self_nonneg a, mul_self_nonneg b]
  rw [e1, show (1 : ℝ) / 4 * Real.sqrt p = Real.sqrt (p / 16) by
    rw [show p / 16 = (1 / 4) ^ 2 * p by ring, Real.sqrt_mul (sq_nonneg _), Real.sqrt_sq (by norm_num)]]
  rw [Real.sqrt_lt_sqrt_iff (by positivity)]
  push_cast
  constructor <;> intro h <;> linarith

/-- what `Rt.loopM` does with the answer of one round -/
def stepK {α σ ρ : Type} (xs : List α) (step : σ → α → Except Err (Src.Py.Rt.Step ρ σ)) :
    Src.Py.Rt.Step ρ σ → Except Err (ρ ⊕ σ)
  | .ret r => .ok (.inl r)
  | .brk s => .ok (.inr s)
  | .next s => Src.Py.Rt.loopM xs s step

theorem loopM_cons {α σ ρ : Type} (x : α) (xs : List α) (init : σ) (step : σ → α → Except Err (Src.Py.Rt.Step ρ σ)) :
    Src.Py.Rt.loopM (x :: xs) init step = Src.Py.Rt.bind (step init x) (stepK xs step) := by
  rw [Src.Py.Rt.loopM]
  congr 1

theorem bind_ite {α β : Type} (c : Prop) [Decidable c] (a b : Except Err α) (f : α → Except Err β) :
    Src.Py.Rt.bind (if c then a else b) f = if c then Src.Py.Rt.bind a f else Src.Py.Rt.bind b f := by
  split <;> rfl

/-- one loop, any remaining number of rounds, any reachable state: the translated loop followed by the final `return`
    is `newtonIterate.go` (invariants: the previous squared update is `≥ 0`, and it exists from the second round on) -/
theorem newton_loop (efn : ℝ → ℝ → Except Err (Option (List (List ℝ)) × List ℝ)) (ev : NewtonEval ℝ)
    (hE : EvalLike efn ev) (r : Nat) :
    ∀ (index : Nat) (pv np : Option ℝ) (lu : Nat) (cs ct : ℝ), (∀ p, np = some p → 0 ≤ p) → (0 < index → np ≠ none) →
      Src.Py.Rt.bind (Src.Py.Rt.loopM (List.range' index r) ((pv, np.map Real.sqrt, lu, cs, ct) : PyNewtonState)
          (pyNewtonStep efn)) pyNewtonPost =
        .ok (encOutcome (newtonIterate.go solverOf Py.cut id ((1 / 2 ^ 36) ^ 2) ev r index
          { s := cs, t := ct, normPrevSq := np, linear := lu })) := by
  induction r with
  | zero =>
    intro index pv np lu cs ct _ _
    rfl
  | succ r ih =>
    intro index pv np lu cs ct hnn hidx
    rw [List.range'_succ, loopM_cons]
    unfold newtonIterate.go
    obtain ⟨fv, hefn, hfv⟩ := hE cs ct
    simp only [pyNewtonStep, hefn, Src.Py.Rt.bind_ok]
    cases hev : ev cs ct with
    | none => rfl
    | some sys =>
      obtain ⟨⟨a, b, c, d⟩, f0, f1⟩ := sys
      rw [hfv _ _ _ hev]
      simp only [encEval, Option.isNone_some, Bool.false_eq_true, ↓reduceIte, unwrap_some, Src.Py.Rt.asPt,
        Src.Py.Rt.bind_ok, SrcPy.solve2x2_src]
      have hsol : solverOf (a, b, c, d) (f0, f1) = Model.solve2x2 a b c d f0 f1 := rfl
      rw [hsol]
      cases Model.solve2x2 a b c d f0 f1 with
      | none => rfl
      | some sol =>
        obtain ⟨ds, dt⟩ := sol
        simp only [SrcPy.encSolve, Bool.false_eq_true, ↓reduceIte, unwrap_some, Src.Py.Rt.bind_ok, id]
        have hnu : normSq [ds, dt] = ds * ds + dt * dt := by simp [normSq]
        -- everything after the "linear update" counter `lin` is known
        have tail : ∀ lin : Nat,
            Src.Py.Rt.bind (Src.Py.Rt.bind
              (if 4 ≤ index ∧ 2 * (index + 1) ≤ 3 * lin then
                (.ok (Src.Py.Rt.Step.brk (np.map Real.sqrt, some (Real.sqrt (normSq [ds, dt])), lin, cs, ct)) :
                  Except Err (Src.Py.Rt.Step (Bool × ℝ × ℝ) PyNewtonState))
              else if Real.sqrt (normSq [ds, dt]) < q 1 68719476736 * Real.sqrt (normSq [cs, ct]) then
                .ok (Src.Py.Rt.Step.ret (true, cs - ds, ct - dt))
              else .ok (Src.Py.Rt.Step.next (np.map Real.sqrt, some (Real.sqrt (normSq [ds, dt])), lin, cs - ds, ct - dt)))
              (stepK (List.range' (index + 1) r) (pyNewtonStep efn))) pyNewtonPost =
            .ok (encOutcome (if Py.cut index lin = true then NewtonOutcome.failed cs ct
              else if ds * ds + dt * dt < (1 / 2 ^ 36) ^ 2 * (cs * cs + ct * ct) then .converged (cs - ds) (ct - dt)
              else newtonIterate.go solverOf Py.cut id ((1 / 2 ^ 36) ^ 2) ev r (index + 1)
                { s := cs - ds, t := ct - dt, normPrevSq := some (ds * ds + dt * dt), linear := lin })) := by
          intro lin
          by_cases hcut : Py.cut index lin = true
          · have : 4 ≤ index ∧ 2 * (index + 1) ≤ 3 * lin := by simpa [Py.cut] using hcut
            simp only [this, and_self, ↓reduceIte, hcut]
            rfl
          · have : ¬ (4 ≤ index ∧ 2 * (index + 1) ≤ 3 * lin) := by simpa [Py.cut] using hcut
            simp only [this, ↓reduceIte, hcut, Bool.false_eq_true]
            have hn := norm_lt_iff ds dt (1 / 2 ^ 36) cs ct (by positivity)
            rw [q36]
            by_cases hc : Real.sqrt (normSq [ds, dt]) < 1 / 2 ^ 36 * Real.sqrt (normSq [cs, ct])
            · simp only [hc, ↓reduceIte, hn.mp hc]
              rfl
            · simp only [hc, ↓reduceIte, mt hn.mpr hc, Src.Py.Rt.bind_ok, stepK]
              have := ih (index + 1) (np.map Real.sqrt) (some (ds * ds + dt * dt)) lin (cs - ds) (ct - dt)
                (by intro p hp; cases hp; nlinarith [mul_self_nonneg ds, mul_self_nonneg dt]) (by intro _; simp)
              simp only [Option.map_some] at this
              rw [hnu]
              exact this
        cases np with
        | none =>
          have hi : ¬ 0 < index := fun h => hidx h rfl
          simp only [hi, ↓reduceIte, Src.Py.Rt.bind_ok, Bool.false_eq_true]
          exact tail lu
        | some p =>
          have hq := quarter_lt_iff p ds dt (hnn p rfl)
          by_cases hi : 0 < index
          · simp only [hi, ↓reduceIte, Option.map_some, unwrap_some, Src.Py.Rt.bind_ok, q14, gt_iff_lt, true_and]
            by_cases hl : 1 / 4 * Real.sqrt p < Real.sqrt (normSq [ds, dt])
            · simp only [hl, hq.mp hl, ↓reduceIte, decide_true]
              exact tail (lu + 1)
            · simp only [hl, mt hq.mpr hl, ↓reduceIte, decide_false, Bool.false_eq_true]
              exact tail lu
          · simp only [hi, ↓reduceIte, Src.Py.Rt.bind_ok, Bool.false_eq_true, gt_iff_lt, false_and]
            exact tail lu

/-- **`newton_iterate`**: for every callable that answers like a `NewtonEval`, the translated loop (at most
    `MAX_NEWTON_ITERATIONS = 10` rounds; exact-zero exit; `break` on a singular system; the "linear updates" cut rule
    `index >= 4 and 3 * linear_updates >= 2 * (index + 1)` of the repair `ab67aa1`; relative-error exit with
    `NEWTON_ERROR_RATIO = 2^-36`) is `Model.newtonIterate` with the transcribed `solve2x2`, `Py.cut` and 10 rounds -/
theorem newton_iterate_src (efn : ℝ → ℝ → Except Err (Option (List (List ℝ)) × List ℝ)) (ev : NewtonEval ℝ)
    (hE : EvalLike efn ev) (s t : ℝ) :
    Src.Py.newton_iterate Real.sqrt efn s t =
      .ok (encOutcome (newtonIterate solverOf Py.cut id ((1 / 2 ^ 36) ^ 2) ev 10 s t)) := by
  rw [newton_iterate_unfold, List.range_eq_range']
  exact newton_loop efn ev hE 10 0 none none 0 s t (by intro p hp; cases hp) (by intro h; omega)

/-- a `NewtonEval` seen as a Python callable (the form `full_newton_nonzero` hands to `newton_iterate`) -/
def pyOf (ev : NewtonEval ℝ) : ℝ → ℝ → Except Err (Option (List (List ℝ)) × List ℝ) := fun s t =>
  .ok (match ev s t with
    | none => (none, [])
    | some ((a, b, c, d), (f0, f1)) => (some [[a, b], [c, d]], [f0, f1]))

theorem pyOf_evalLike (ev : NewtonEval ℝ) : EvalLike (pyOf ev) ev := by
  intro s t
  unfold pyOf
  cases h : ev s t with
  | none => exact ⟨[], rfl, by intro _ _ _ hh; cases hh⟩
  | some sys =>
    obtain ⟨⟨a, b, c, d⟩, f0, f1⟩ := sys
    exact ⟨[f0, f1], rfl, by intro _ _ _ hh; cases hh; rfl⟩

/-- the hypothesis `hI` of `SrcPyNewton.full_newton_nonzero_src` / `full_newton_src` holds for the TRANSLATED
    `newton_iterate` (on the reals, `MAX_NEWTON_ITERATIONS = 10`, `NEWTON_ERROR_RATIO = 2^-36`, no rounding) … -/
theorem newton_iterate_hI (ev : NewtonEval ℝ) (s t : ℝ) :
    Src.Py.newton_iterate Real.sqrt (pyOf ev) s t =
      .ok (encOutcome (newtonIterate solverOf Py.cut id ((1 / 2 ^ 36) ^ 2) ev 10 s t)) :=
  newton_iterate_src _ _ (pyOf_evalLike ev) s t

/-- … so `full_newton` with the translated `newton_iterate` plugged in is `Model.fullNewton` with the constants of the source
    (`ZERO_THRESHOLD = 2^-10`, 10 rounds, ratio `2^-36`); only the two class constructors remain parameters -/
theorem full_newton_with_iterate_src (thr : Nat)
    (mkD : List (List ℝ) → List (List ℝ) → List (List ℝ) → List (List ℝ) → List (List ℝ) → List (List ℝ) → NewtonEval ℝ)
    (mkS : List (List ℝ) → List (List ℝ) → List (List ℝ) → List (List ℝ) → NewtonEval ℝ)
    (hS : ∀ n1 n2, mkS n1 (n1.map derivNet) n2 (n2.map derivNet) = newtonSimple thr n1 n2)
    (hD : ∀ n1 n2, mkD n1 (n1.map derivNet) (n1.map fun r => derivNet (derivNet r)) n2 (n2.map derivNet)
        (n2.map fun r => derivNet (derivNet r)) = newtonDouble thr n1 n2)
    (s t : ℝ) (n1 n2 : List (List ℝ)) (m1 m2 : Nat) (h1 : n1 ≠ []) (h2 : n2 ≠ [])
    (r1 : ∀ r ∈ n1, r.length = m1) (r2 : ∀ r ∈ n2, r.length = m2) :
    Src.Py.full_newton mkD mkS (fun ev s t => Src.Py.newton_iterate Real.sqrt (pyOf ev) s t) s n1 t n2 =
      fullNewton solverOf Py.cut id ((1 / 2 ^ 36) ^ 2) (q 1 1024) thr 10 s n1 t n2 :=
  full_newton_src solverOf Py.cut id ((1 / 2 ^ 36) ^ 2) thr 10 mkD mkS _ hS hD (fun ev s t => newton_iterate_hI ev s t)
    s t n1 n2 m1 m2 h1 h2 r1 r2

/-- the translated `NewtonSimpleRoot.__call__` answers like `Model.newtonSimple` (planar curves with at least two nodes,
    the derivative nets that `full_newton_nonzero_src` shows are passed in) -/
theorem simple_evalLike (x1 y1 x2 y2 : List ℝ) (m1 m2 : Nat) (h1 : 2 ≤ m1) (h2 : 2 ≤ m2)
    (hx1 : x1.length = m1) (hy1 : y1.length = m1) (hx2 : x2.length = m2) (hy2 : y2.length = m2) :
    EvalLike (Src.Py.NewtonSimpleRoot.call [x1, y1] [derivNet x1, derivNet y1] [x2, y2] [derivNet x2, derivNet y2])
      (newtonSimple 55 [x1, y1] [x2, y2]) := by
  intro s t
  refine ⟨_, newton_simple_call_src s t x1 y1 x2 y2 m1 m2 h1 h2 hx1 hy1 hx2 hy2, ?_⟩
  intro lhs f0 f1 hev
  unfold newtonSimple at hev
  dsimp only at hev
  split at hev
  · cases hev
  · simp only [List.getD_cons_zero, List.getD_cons_succ, Option.some.injEq, Prod.mk.injEq] at hev
    obtain ⟨_, rfl, rfl⟩ := hev
    rfl

/-- `newton_iterate` applied to the translated `NewtonSimpleRoot.__call__`: source loop and source evaluation together
    are the model's simple-root iteration -/
theorem newton_iterate_simple_src (x1 y1 x2 y2 : List ℝ) (m1 m2 : Nat) (h1 : 2 ≤ m1) (h2 : 2 ≤ m2)
    (hx1 : x1.length = m1) (hy1 : y1.length = m1) (hx2 : x2.length = m2) (hy2 : y2.length = m2) (s t : ℝ) :
    Src.Py.newton_iterate Real.sqrt
        (Src.Py.NewtonSimpleRoot.call [x1, y1] [derivNet x1, derivNet y1] [x2, y2] [derivNet x2, derivNet y2]) s t =
      .ok (encOutcome (newtonIterate solverOf Py.cut id ((1 / 2 ^ 36) ^ 2) (newtonSimple 55 [x1, y1] [x2, y2]) 10 s t)) :=
  newton_iterate_src _ _ (simple_evalLike x1 y1 x2 y2 m1 m2 h1 h2 hx1 hy1 hx2 hy2) s t

/-! ## `NewtonDoubleRoot.__call__` (the object's fields are arguments of the generated definition) -/

section Field
variable {F : Type} [Field F] [LinearOrder F]

/-- the code returns `(DGᵀDG or None, rhs)` with 2-D arrays (`rhs` is `2 × 1`); the model `none` /
    `some ((a, b, c, d), (e, f))` -/
def encEvalM (o : Option ((F × F × F × F) × (F × F))) (fv : List (List F)) : Option (List (List F)) × List (List F) :=
  match o with
  | none => (none, fv)
  | some ((a, b, c, d), (e, f)) => (some [[a, b], [c, d]], [[e], [f]])

theorem range2 : List.range 2 = [0, 1] := rfl
theorem range1 : List.range 1 = [0] := rfl
theorem range3 : List.range 3 = [0, 1, 2] := rfl

theorem transpose32 (a b c d e f : F) : transpose [[a, b], [c, d], [e, f]] = [[a, c, e], [b, d, f]] := by
  simp [transpose, ncols, col, range2]

theorem mp_lhs (a b c d e f : F) :
    Src.Py.matrix_product (transpose [[a, b], [c, d], [e, f]]) [[a, b], [c, d], [e, f]] =
      .ok [[a * a + c * c + e * e, a * b + c * d + e * f], [a * b + c * d + e * f, b * b + d * d + f * f]] := by
  rw [transpose32, matrix_product_src _ _ 3 2 (by simp) (by omega) (by omega) (by simp) (by simp) (by simp)]
  simp only [Model.matrixProduct, matMul, rowMul, dot, col, ncols, List.range_succ, List.range_zero]
  simp [range2]
  ring

theorem mp_rhs (a b c d e f g0 g1 g2 : F) :
    Src.Py.matrix_product (transpose [[a, b], [c, d], [e, f]]) [[g0], [g1], [g2]] =
      .ok [[a * g0 + c * g1 + e * g2], [b * g0 + d * g1 + f * g2]] := by
  rw [transpose32, matrix_product_src _ _ 3 1 (by simp) (by omega) (by omega) (by simp) (by simp) (by simp)]
  simp only [Model.matrixProduct, matMul, rowMul, dot, col, ncols, List.range_succ, List.range_zero]
  simp [range1]

@[simp] theorem asPt_pair (a b : F) : Src.Py.Rt.asPt [a, b] = .ok (a, b) := rfl

theorem shape_two (a b : List F) (n : Nat) (ha : a.length = n) (hb : b.length = n) :
    Src.Py.Rt.shape [a, b] = .ok (2, n) := by
  have := shape_rect [a, b] n (by simp) (by intro r hr; simp at hr; rcases hr with rfl | rfl <;> assumption)
  simpa using this

theorem evalRowOrZero_empty (row : List F) (h : row.length = 0) (s : F) : evalRowOrZero 55 row s = 0 := by
  have : row = [] := List.length_eq_zero_iff.mp h
  subst this
  rfl

theorem evalRowOrZero_pos (row : List F) (h : 0 < row.length) (s : F) : evalRowOrZero 55 row s = evalRow 55 row s := by
  unfold evalRowOrZero
  have : row.isEmpty = false := by
    cases row with
    | nil => simp at h
    | cons => rfl
  simp [this]

/-- a second-derivative entry of the Jacobian: `0` when `second_deriv.size == 0`, else a cross product with its value -/
theorem dd_entry {β : Type} (a b : List F) (n : Nat) (ha : a.length = n) (hb : b.length = n) (s : F) (g : F → F → F)
    (k : F → Except Err β) :
    (Src.Py.Rt.bind (Src.Py.Rt.shape [a, b]) fun t13 =>
      Src.Py.Rt.bind
        (if t13.1 * t13.2 = 0 then Except.ok 0
        else
          Src.Py.Rt.bind (Src.Py.evaluate_multi [a, b] s) fun t14 =>
            Src.Py.Rt.bind (Src.Py.Rt.asPt t14) fun t15 => Except.ok (g t15.1 t15.2)) k) =
      k (if n = 0 then 0 else g (evalRowOrZero 55 a s) (evalRowOrZero 55 b s)) := by
  rw [shape_two a b n ha hb]
  simp only [Src.Py.Rt.bind_ok]
  by_cases hn : n = 0
  · simp [hn]
  · have r : ∀ r ∈ [a, b], r.length = n := by
      intro r hr; simp at hr; rcases hr with rfl | rfl <;> assumption
    rw [if_neg (by simpa using hn), if_neg hn, evaluate_multi_src _ n (by omega) r]
    simp only [Src.Py.Rt.bind_ok, evalPoint, List.map_cons, List.map_nil, asPt_pair]
    rw [evalRowOrZero_pos a (by omega), evalRowOrZero_pos b (by omega)]
    rfl

/-- `NewtonDoubleRoot(nodes1, first_deriv1, second_deriv1, nodes2, first_deriv2, second_deriv2)(s, t)` on two planar
    curves with at least two nodes, GIVEN the derivative nets of the model (which `full_newton_nonzero_src` shows are the
    ones passed in): `G = (B₁(s) − B₂(t), B₁'(s) × B₂'(t))`, the exact-zero exit, the `3 × 2` Jacobian filled region by
    region (`second_deriv.size == 0` ⇒ entry `0`), `DGᵀDG` and `DGᵀG` by `matrix_product` are `Model.newtonDouble` -/
theorem newton_double_call_src (s t : F) (x1 y1 x2 y2 : List F) (m1 m2 : Nat) (h1 : 2 ≤ m1) (h2 : 2 ≤ m2)
    (hx1 : x1.length = m1) (hy1 : y1.length = m1) (hx2 : x2.length = m2) (hy2 : y2.length = m2) :
    Src.Py.NewtonDoubleRoot.call [x1, y1] [derivNet x1, derivNet y1] [derivNet (derivNet x1), derivNet (derivNet y1)]
        [x2, y2] [derivNet x2, derivNet y2] [derivNet (derivNet x2), derivNet (derivNet y2)] s t =
      .ok (encEvalM (newtonDouble 55 [x1, y1] [x2, y2] s t)
        [[evalRow 55 x1 s - evalRow 55 x2 t], [evalRow 55 y1 s - evalRow 55 y2 t]]) := by
  have r1 : ∀ r ∈ [x1, y1], r.length = m1 := by
    intro r hr; simp at hr; rcases hr with rfl | rfl <;> assumption
  have r2 : ∀ r ∈ [x2, y2], r.length = m2 := by
    intro r hr; simp at hr; rcases hr with rfl | rfl <;> assumption
  have d1 : ∀ r ∈ [derivNet x1, derivNet y1], r.length = m1 - 1 := by
    intro r hr; simp at hr; rcases hr with rfl | rfl <;> simp [length_derivNet, hx1, hy1]
  have d2 : ∀ r ∈ [derivNet x2, derivNet y2], r.length = m2 - 1 := by
    intro r hr; simp at hr; rcases hr with rfl | rfl <;> simp [length_derivNet, hx2, hy2]
  have e1 : ∀ r ∈ [derivNet (derivNet x1), derivNet (derivNet y1)], r.length = m1 - 2 := by
    intro r hr; simp at hr; rcases hr with rfl | rfl <;> simp [length_derivNet, hx1, hy1] <;> omega
  have e2 : ∀ r ∈ [derivNet (derivNet x2), derivNet (derivNet y2)], r.length = m2 - 2 := by
    intro r hr; simp at hr; rcases hr with rfl | rfl <;> simp [length_derivNet, hx2, hy2] <;> omega
  unfold Src.Py.NewtonDoubleRoot.call newtonDouble
  dsimp only
  rw [evaluate_multi_src _ m1 (by omega) r1, evaluate_multi_src _ (m1 - 1) (by omega) d1,
    evaluate_multi_src _ m2 (by omega) r2, evaluate_multi_src _ (m2 - 1) (by omega) d2]
  simp only [Src.Py.Rt.bind_ok]
  rw [SrcPy.vzip_eq _ _ _ (by simp [evalPoint])]
  simp only [Src.Py.Rt.bind_ok, evalPoint, List.map_cons, List.map_nil, List.zipWith_cons_cons,
    List.zipWith_nil_right, asPt_pair, List.flatten_cons, List.flatten_nil, List.cons_append, List.nil_append,
    List.all_cons, List.all_nil, id, Bool.and_true, List.getD_cons_zero, List.getD_cons_succ, evalRow,
    Src.Py.cross_product, Src.Py.Rt.slice, Src.Py.Rt.sliceIdx]
  generalize evalBary 55 x1 (1 - s) s - evalBary 55 x2 (1 - t) t = f0
  generalize evalBary 55 y1 (1 - s) s - evalBary 55 y2 (1 - t) t = f1
  generalize evalBary 55 (derivNet x1) (1 - s) s = dx1
  generalize evalBary 55 (derivNet y1) (1 - s) s = dy1
  generalize evalBary 55 (derivNet x2) (1 - t) t = dx2
  generalize evalBary 55 (derivNet y2) (1 - t) t = dy2
  simp only [Bool.and_eq_true, decide_eq_true_eq]
  by_cases hz : f0 = 0 ∧ f1 = 0 ∧ dx1 * dy2 - dy1 * dx2 = 0
  · rw [if_pos hz, if_pos hz]
    simp [encEvalM]
  · rw [if_neg hz, if_neg hz]
    rw [dd_entry _ _ (m1 - 2) (e1 _ (by simp)) (e1 _ (by simp)) s (fun u v => u * dy2 - v * dx2)]
    beta_reduce
    rw [dd_entry _ _ (m2 - 2) (e2 _ (by simp)) (e2 _ (by simp)) t (fun u v => dx1 * v - dy1 * u)]
    beta_reduce
    rw [mp_lhs, mp_rhs]
    simp only [Src.Py.Rt.bind_ok, encEvalM]
    have z1 : m1 - 2 = 0 → evalRowOrZero 55 (derivNet (derivNet x1)) s = 0 ∧ evalRowOrZero 55 (derivNet (derivNet y1)) s = 0 :=
      fun h => ⟨evalRowOrZero_empty _ (by rw [e1 _ (by simp), h]) s, evalRowOrZero_empty _ (by rw [e1 _ (by simp), h]) s⟩
    have z2 : m2 - 2 = 0 → evalRowOrZero 55 (derivNet (derivNet x2)) t = 0 ∧ evalRowOrZero 55 (derivNet (derivNet y2)) t = 0 :=
      fun h => ⟨evalRowOrZero_empty _ (by rw [e2 _ (by simp), h]) t, evalRowOrZero_empty _ (by rw [e2 _ (by simp), h]) t⟩
    generalize evalRowOrZero 55 (derivNet (derivNet x1)) s = ddx1 at z1 ⊢
    generalize evalRowOrZero 55 (derivNet (derivNet y1)) s = ddy1 at z1 ⊢
    generalize evalRowOrZero 55 (derivNet (derivNet x2)) t = ddx2 at z2 ⊢
    generalize evalRowOrZero 55 (derivNet (derivNet y2)) t = ddy2 at z2 ⊢
    have j20 : (if m1 - 2 = 0 then (0 : F) else ddx1 * dy2 - ddy1 * dx2) = ddx1 * dy2 - ddy1 * dx2 := by
      split
      · obtain ⟨rfl, rfl⟩ := z1 (by assumption); ring
      · rfl
    have j21 : (if m2 - 2 = 0 then (0 : F) else dx1 * ddy2 - dy1 * ddx2) = dx1 * ddy2 - dy1 * ddx2 := by
      split
      · obtain ⟨rfl, rfl⟩ := z2 (by assumption); ring
      · rfl
    rw [j20, j21]

end Field

/-! ### `newton_iterate` on the translated `NewtonDoubleRoot.__call__` -/

/-- `NewtonDoubleRoot.__call__` returns its right-hand side as a `2 × 1` 2-D array; `newton_iterate` reads `func_val[:, 0]`.
    The translator types the callable parameter of `newton_iterate` with the `d × 1` array as the list of its entries
    (kind C); this is that reading of a 2-D array with one column. -/
def firstCol (f : ℝ → ℝ → Except Err (Option (List (List ℝ)) × List (List ℝ))) :
    ℝ → ℝ → Except Err (Option (List (List ℝ)) × List ℝ) := fun s t =>
  Src.Py.Rt.bind (f s t) fun r =>
    Src.Py.Rt.bind (List.mapM (fun row => Src.Py.Rt.idx row 0) r.2) fun c => .ok (r.1, c)

theorem double_evalLike (x1 y1 x2 y2 : List ℝ) (m1 m2 : Nat) (h1 : 2 ≤ m1) (h2 : 2 ≤ m2)
    (hx1 : x1.length = m1) (hy1 : y1.length = m1) (hx2 : x2.length = m2) (hy2 : y2.length = m2) :
    EvalLike (firstCol (Src.Py.NewtonDoubleRoot.call [x1, y1] [derivNet x1, derivNet y1]
        [derivNet (derivNet x1), derivNet (derivNet y1)] [x2, y2] [derivNet x2, derivNet y2]
        [derivNet (derivNet x2), derivNet (derivNet y2)]))
      (newtonDouble 55 [x1, y1] [x2, y2]) := by
  intro s t
  unfold firstCol
  rw [newton_double_call_src s t x1 y1 x2 y2 m1 m2 h1 h2 hx1 hy1 hx2 hy2]
  cases hev : newtonDouble 55 [x1, y1] [x2, y2] s t with
  | none =>
    refine ⟨[evalRow 55 x1 s - evalRow 55 x2 t, evalRow 55 y1 s - evalRow 55 y2 t], rfl, ?_⟩
    intro _ _ _ hh; cases hh
  | some sys =>
    obtain ⟨⟨a, b, c, d⟩, f0, f1⟩ := sys
    refine ⟨[f0, f1], rfl, ?_⟩
    intro _ _ _ hh; cases hh; rfl

/-- `newton_iterate` applied to the translated `NewtonDoubleRoot.__call__`: source loop and source evaluation together
    are the model's double-root (Gauss–Newton) iteration -/
theorem newton_iterate_double_src (x1 y1 x2 y2 : List ℝ) (m1 m2 : Nat) (h1 : 2 ≤ m1) (h2 : 2 ≤ m2)
    (hx1 : x1.length = m1) (hy1 : y1.length = m1) (hx2 : x2.length = m2) (hy2 : y2.length = m2) (s t : ℝ) :
    Src.Py.newton_iterate Real.sqrt
        (firstCol (Src.Py.NewtonDoubleRoot.call [x1, y1] [derivNet x1, derivNet y1]
          [derivNet (derivNet x1), derivNet (derivNet y1)] [x2, y2] [derivNet x2, derivNet y2]
          [derivNet (derivNet x2), derivNet (derivNet y2)])) s t =
      .ok (encOutcome (newtonIterate solverOf Py.cut id ((1 / 2 ^ 36) ^ 2) (newtonDouble 55 [x1, y1] [x2, y2]) 10 s t)) :=
  newton_iterate_src _ _ (double_evalLike x1 y1 x2 y2 m1 m2 h1 h2 hx1 hy1 hx2 hy2) s t

/-! ## `make_same_degree`, `coincident_parameters` (hazmat/geometric_intersection.py) -/

section AnyK
variable {K : Type} [Add K] [Sub K] [Mul K] [Div K] [Neg K] [OfNat K 0] [OfNat K 1] [NatCast K]
  [LT K] [DecidableLT K] [LE K] [DecidableLE K] [DecidableEq K]

/-- a loop that ignores its loop variable applies the body `len` times -/
theorem foldl_ignore_iter {α β : Type} (f : α → α) (l : List β) (x : α) :
    List.foldl (fun a _ => f a) x l = iter f l.length x := by
  induction l generalizing x with
  | nil => rfl
  | cons b bs ih => simp only [List.foldl_cons, List.length_cons, iter]; exact ih (f x)

/-- **`make_same_degree`** (any `K`; `elevate_nodes` is a parameter): the curve with fewer nodes is elevated
    `|num_nodes2 − num_nodes1|` times, the other one not at all (`range` of a negative number is empty) -/
theorem make_same_degree_src (elev : List (List K) → List (List K)) (n1 n2 : List (List K)) (m1 m2 : Nat)
    (h1 : n1 ≠ []) (h2 : n2 ≠ []) (r1 : ∀ r ∈ n1, r.length = m1) (r2 : ∀ r ∈ n2, r.length = m2) :
    Src.Py.make_same_degree elev n1 n2 = .ok (iter elev (m2 - m1) n1, iter elev (m1 - m2) n2) := by
  unfold Src.Py.make_same_degree
  rw [SrcPyNewton.shape_rect n1 m1 h1 r1, SrcPyNewton.shape_rect n2 m2 h2 r2]
  simp only [Src.Py.Rt.bind_ok, foldl_ignore_iter, List.length_range]
  rw [show ((m2 : Int) - (m1 : Int)).toNat = m2 - m1 by omega, show ((m1 : Int) - (m2 : Int)).toNat = m1 - m2 by omega]

theorem ncols_rect (n : List (List K)) (m : Nat) (h : n ≠ []) (r : ∀ x ∈ n, x.length = m) : ncols n = m := by
  obtain ⟨x, xs, rfl⟩ := List.exists_cons_of_ne_nil h
  exact r x (List.mem_cons_self ..)

/-- … with the model's `elevate` it is `Model.makeSameDegree` -/
theorem make_same_degree_model (n1 n2 : List (List K)) (m1 m2 : Nat)
    (h1 : n1 ≠ []) (h2 : n2 ≠ []) (r1 : ∀ r ∈ n1, r.length = m1) (r2 : ∀ r ∈ n2, r.length = m2) :
    Src.Py.make_same_degree elevate n1 n2 = .ok (makeSameDegree n1 n2) := by
  rw [make_same_degree_src elevate n1 n2 m1 m2 h1 h2 r1 r2]
  unfold makeSameDegree
  rw [ncols_rect n1 m1 h1 r1, ncols_rect n2 m2 h2 r2]

end AnyK

/-- the code returns `None` or `((s₀, t₀), (s₁, t₁))` whose entries are typed "maybe `None`" by the translator (they are
    the results of `locate_point`); the model `Option (List (K × K))` -/
def encCoincident : Option (List (ℝ × ℝ)) → Option ((Option ℝ × Option ℝ) × (Option ℝ × Option ℝ))
  | some [(a, b), (c, d)] => some ((some a, some b), (some c, some d))
  | _ => none

theorem absK_sub (a b : ℝ) : Model.absK (a - b) = absDiff a b := by
  unfold Model.absK absDiff
  by_cases h : a < b
  · rw [if_pos (by linarith), if_pos h]; ring
  · rw [if_neg (by linarith), if_neg h]

theorem q40 : (q 1 1099511627776 : ℝ) = 1 / 2 ^ 40 := by
  rw [show (1 : Int) = ((1 : Nat) : Int) by rfl, q_real]; norm_num

theorem reshapeCol_ok (n : Nat) (v : List ℝ) (h : v.length = n) : Src.Py.Rt.reshapeCol n v = .ok v := by
  unfold Src.Py.Rt.reshapeCol
  rw [if_pos h]

/-- **`coincident_parameters`** on the reals: the four `locate_point` calls in the order of the code, the sixteen cases
    of which end points are found, the shared interval, `_MIN_INTERVAL_WIDTH = 2^-40` and the three `vector_close`
    comparisons of specialised control nets are `Model.coincidentParameters`.  `locate_point`, `specialize_curve`,
    `elevate_nodes` are not translated: they are parameters, instantiated with the model's primitives.  Domain: the two
    nets after `make_same_degree` are planar (2 rows) without empty rows, and `specialize_curve` returns nets whose
    flattened length makes the `vector_close` comparisons well formed (otherwise NumPy raises / broadcasts). -/
theorem coincident_parameters_src (P : Prims ℝ) (G : GeoConsts ℝ) (hmin : G.minWidth = 1 / 2 ^ 40)
    (hvc : ∀ a b, P.vectorClose a b = vectorCloseSq a b ((1 / 2 ^ 40) ^ 2))
    (n1 n2 : List (List ℝ)) (m1 m2 : Nat) (h1 : n1 ≠ []) (h2 : n2 ≠ [])
    (r1 : ∀ r ∈ n1, r.length = m1) (r2 : ∀ r ∈ n2, r.length = m2)
    (a b : List (List ℝ)) (hab : makeSameDegree n1 n2 = (a, b))
    (ha : a.length = 2) (hb : b.length = 2) (hane : ∀ r ∈ a, r ≠ []) (hbne : ∀ r ∈ b, r ≠ [])
    (hl1 : ∀ u v, (flatten (P.specialize a u v)).length = (flatten b).length)
    (hl2 : ∀ u v, (flatten a).length = (flatten (P.specialize b u v)).length)
    (hl3 : ∀ u v u' v', (flatten (P.specialize a u v)).length = (flatten (P.specialize b u' v')).length) :
    Src.Py.coincident_parameters Real.sqrt elevate P.locate P.specialize n1 n2 =
      (match coincidentParameters P G n1 n2 with
       | .ok r => .ok (encCoincident r)
       | .error e => .error e) := by
  have vc : ∀ x y : List ℝ, x.length = y.length →
      Src.Py.vector_close Real.sqrt x y (1 / 2 ^ 40) = .ok (P.vectorClose x y) := by
    intro x y h
    rw [SrcPy.vector_close_src x y _ h (by positivity), hvc]
  unfold Src.Py.coincident_parameters coincidentParameters
  rw [make_same_degree_model n1 n2 m1 m2 h1 h2 r1 r2, hab]
  simp only [Src.Py.Rt.bind_ok]
  rw [mapM_first b hbne, mapM_last b hbne, mapM_first a hane, mapM_last a hane]
  simp only [Src.Py.Rt.bind_ok, reshapeCol_ok 2 (firstNode b) (by simp [firstNode, hb]),
    reshapeCol_ok 2 (lastNode b) (by simp [lastNode, hb]), reshapeCol_ok 2 (firstNode a) (by simp [firstNode, ha]),
    reshapeCol_ok 2 (lastNode a) (by simp [lastNode, ha]), q40, hmin]
  have rf : ∀ m : List (List ℝ), Src.Py.Rt.ravelF m = flatten m := fun _ => rfl
  simp only [rf]
  cases hsi : P.locate a (firstNode b) with
  | error e => rfl
  | ok si =>
    cases hsf : P.locate a (lastNode b) with
    | error e => rfl
    | ok sf =>
      simp only [Src.Py.Rt.bind_ok]
      rcases si with _ | si <;> rcases sf with _ | sf
      case some.some =>
        simp only [Option.isSome_some, Bool.and_true, ↓reduceIte, unwrap_some, Src.Py.Rt.bind_ok, vc _ _ (hl1 _ _)]
        cases P.vectorClose (flatten (P.specialize a si sf)) (flatten b) <;> rfl
      all_goals (
        simp only [Option.isSome_some, Option.isSome_none, Option.isNone_some, Option.isNone_none, Bool.and_true,
          Bool.and_false, Bool.false_and, Bool.true_and, ↓reduceIte, Bool.false_eq_true]
        cases hti : P.locate b (firstNode a) with
        | error e => rfl
        | ok ti =>
          cases htf : P.locate b (lastNode a) with
          | error e => rfl
          | ok tf =>
            rcases ti with _ | ti <;> rcases tf with _ | tf <;>
            simp only [Option.isSome_some, Option.isSome_none, Option.isNone_some, Option.isNone_none, Bool.and_true,
              Bool.and_false, Bool.false_and, Bool.true_and, ↓reduceIte, Bool.false_eq_true, unwrap_some,
              Src.Py.Rt.bind_ok, vc _ _ (hl2 _ _), vc _ _ (hl3 _ _ _ _), absK_sub, Option.getD_some, and_self,
              Bool.not_eq_true, Option.isNone_iff_eq_none, reduceCtorEq, and_false, false_and, and_true, true_and] <;>
            (try rfl) <;>
            (try (cases P.vectorClose _ _ <;> rfl)) <;>
            (try (split <;> (try rfl) <;> (cases P.vectorClose _ _ <;> rfl))))

/-! ## `from_linearized` (hazmat/geometric_intersection.py) -/

theorem asPt_len2 (v : List ℝ) (h : v.length = 2) : Src.Py.Rt.asPt v = .ok (ptOf v) := by
  rcases v with _ | ⟨a, _ | ⟨b, _ | ⟨c, r⟩⟩⟩ <;> simp at h
  rfl

theorem q44 : (q 1 17592186044416 : ℝ) = 1 / 2 ^ 44 := by
  rw [show (1 : Int) = ((1 : Nat) : Int) by rfl, q_real]; norm_num

theorem q12 : (q 1 2 : ℝ) = 1 / (1 + 1) := by
  rw [show (1 : Int) = ((1 : Nat) : Int) by rfl, q_real]; norm_num

/-- the common end of every path of `from_linearized`: hull exit, `full_newton`, the two `wiggle_interval`s, `add_intersection` -/
macro "fl_tail" P:ident G:ident hz:ident hr:ident f:ident s:ident : tactic =>
  `(tactic| (
    cases Prims.hullCollide $P (Src.Py.Rt.PySub.nodes (Src.Py.Rt.PyLin.curve $f)) (Src.Py.Rt.PySub.nodes (Src.Py.Rt.PyLin.curve $s)) <;>
      (try simp only [Bool.not_true, Bool.not_false, ↓reduceIte, Bool.false_eq_true, Bool.and_true, Bool.and_false,
        Bool.true_and, Bool.false_and]) <;>
      (try rfl) <;>
      (cases Prims.fullNewton $P _ _ _ _ with
        | error e => rfl
        | ok x =>
          obtain ⟨rs, rt⟩ := x
          simp only [Src.Py.Rt.bind_ok]
          cases wiggleInterval (1 / 2 ^ 44) rs <;> cases wiggleInterval (1 / 2 ^ 44) rt <;>
            simp [SrcPy.encWiggle, Src.Py.Rt.unwrapNaN, add_intersection_src $G $hz $hr])))

/-- the model's view of a `SubdividedCurve` object (the original nodes are a separate argument of the model) -/
def subOf (c : Src.Py.Rt.PySub ℝ) : SubCurve ℝ := { nodes := c.nodes, start := c.start, stop := c.stop }

/-- what `Linearization.__init__` establishes: `start_node` / `end_node` are the first / last column of the curve's nodes -/
def LinOk (l : Src.Py.Rt.PyLin ℝ) : Prop :=
  l.start_node = firstNode l.curve.nodes ∧ l.end_node = lastNode l.curve.nodes ∧ l.curve.nodes.length = 2

/-- **`from_linearized`** on two planar `Linearization` objects: segment intersection of the chords, the `bad_parameters`
    logic (parameters outside `[0, 1]`, or parallel chords: `ValueError` when both errors are exactly `0`, else the midpoints
    `0.5, 0.5`), the convex-hull exit, promotion of `s, t` to the original curves, `full_newton` ON THE ORIGINAL NODES,
    `wiggle_interval` of both results (default `wiggle = 2^-44`) and `add_intersection` are `Model.fromLinearized`.
    `convex_hull_collide` is not translated (parameter = the primitive of the model); `full_newton` is the translated one
    (its three untranslated callees are parameters; `hfn`: it is the primitive `P.fullNewton`, which
    `full_newton_with_iterate_src` provides).  The model carries the SQUARED linearization error, of which only `= 0` is
    used: any `e_i` with `e_i = 0 ↔ error_i = 0` does. -/
theorem from_linearized_src (P : Prims ℝ) (G : GeoConsts ℝ) (hz : G.zeroThr = 1 / 2 ^ 10)
    (hr : G.ratioSq = (1 / 2 ^ 36) ^ 2) (hraise : G.unhandledLinesRaise = true)
    (hseg : ∀ a b c d, P.segmentIntersection a b c d = Model.segmentIntersection (ptOf a) (ptOf b) (ptOf c) (ptOf d))
    (hin : ∀ v, P.inUnit v = inInterval v 0 1) (hw : ∀ v, P.wiggle v = wiggleInterval (1 / 2 ^ 44) v)
    (mkD : List (List ℝ) → List (List ℝ) → List (List ℝ) → List (List ℝ) → List (List ℝ) → List (List ℝ) → NewtonEval ℝ)
    (mkS : List (List ℝ) → List (List ℝ) → List (List ℝ) → List (List ℝ) → NewtonEval ℝ)
    (it : NewtonEval ℝ → ℝ → ℝ → Except Err (Bool × ℝ × ℝ))
    (hfn : ∀ s n1 t n2, Src.Py.full_newton mkD mkS it s n1 t n2 = P.fullNewton s n1 t n2)
    (first second : Src.Py.Rt.PyLin ℝ) (acc : List (ℝ × ℝ)) (h1 : LinOk first) (h2 : LinOk second)
    (e1 e2 : ℝ) (hE1 : e1 = 0 ↔ first.error = 0) (hE2 : e2 = 0 ↔ second.error = 0) :
    Src.Py.from_linearized Real.sqrt P.hullCollide mkD mkS it first second acc =
      fromLinearized P G first.curve.original_nodes second.curve.original_nodes (subOf first.curve) e1
        (subOf second.curve) e2 acc := by
  obtain ⟨s1, l1, d1⟩ := h1
  obtain ⟨s2, l2, d2⟩ := h2
  unfold Src.Py.from_linearized fromLinearized
  rw [s1, l1, s2, l2, asPt_len2 _ (by simp [firstNode, d1]), asPt_len2 _ (by simp [lastNode, d1]),
    asPt_len2 _ (by simp [firstNode, d2]), asPt_len2 _ (by simp [lastNode, d2])]
  simp only [Src.Py.Rt.bind_ok, SrcPy.segment_intersection_src, hseg, subOf, hfn, SrcPy.wiggle_interval_src, q44, hw,
    SrcPy.in_interval_src, hin, q12, hraise, and_true]
  cases Model.segmentIntersection (ptOf (firstNode first.curve.nodes)) (ptOf (lastNode first.curve.nodes))
      (ptOf (firstNode second.curve.nodes)) (ptOf (lastNode second.curve.nodes)) with
  | none =>
    simp only [SrcPy.encSeg, Bool.false_eq_true, ↓reduceIte, hE1, hE2]
    by_cases he : first.error = 0 ∧ second.error = 0
    · simp only [he, and_self, ↓reduceIte]
    · simp only [he, ↓reduceIte]
      fl_tail P G hz hr first second
  | some st =>
    obtain ⟨s, t⟩ := st
    simp only [SrcPy.encSeg, ↓reduceIte, unwrap_some, Src.Py.Rt.bind_ok]
    cases inInterval s 0 1 <;> cases inInterval t 0 1 <;>
      simp only [↓reduceIte, Bool.false_eq_true, Src.Py.Rt.bind_ok, Bool.not_true, Bool.not_false, Bool.and_true,
        Bool.and_false, Bool.true_and, Bool.false_and] <;>
      fl_tail P G hz hr first second

/-! ## candidates (`SubdividedCurve` / `Linearization` objects), `prune_candidates`, `check_lines` -/

section AnyK
variable {K : Type} [Add K] [Sub K] [Mul K] [Div K] [Neg K] [OfNat K 0] [OfNat K 1] [NatCast K]
  [LT K] [DecidableLT K] [LE K] [DecidableLE K] [DecidableEq K]

/-- the model's view of a `SubdividedCurve` object (any number type) -/
def subOfK (c : Src.Py.Rt.PySub K) : SubCurve K := { nodes := c.nodes, start := c.start, stop := c.stop }

/-- a candidate object of the code and a candidate of the model describe the same thing: the same sub-curve, and for a
    linearization an error that vanishes exactly when the code's does (the model carries the squared error) -/
inductive CandRel : Src.Py.Rt.PyShape K → Cand K → Prop
  | sub (c : Src.Py.Rt.PySub K) : CandRel (.sub c) (.curve (subOfK c))
  | lin (l : Src.Py.Rt.PyLin K) (e : K) (h : e = 0 ↔ l.error = 0) : CandRel (.lin l) (.lin (subOfK l.curve) e)

/-- the nodes `prune_candidates` looks at -/
def shapeNodes : Src.Py.Rt.PyShape K → List (List K)
  | .sub c => c.nodes
  | .lin l => l.curve.nodes

theorem shapeNodes_rel (x : Src.Py.Rt.PyShape K) (c : Cand K) (h : CandRel x c) : c.sub.nodes = shapeNodes x := by
  cases h <;> rfl

/-- a loop that appends the elements passing a test -/
theorem foldM_filter {α : Type} (p : α → Bool) (cs acc : List α) :
    Src.Py.Rt.foldM cs acc (fun pruned x => .ok (if p x = true then pruned ++ [x] else pruned)) =
      .ok (acc ++ cs.filter p) := by
  induction cs generalizing acc with
  | nil => simp [Src.Py.Rt.foldM]
  | cons x xs ih =>
    unfold Src.Py.Rt.foldM
    simp only [Src.Py.Rt.bind_ok]
    rw [ih]
    by_cases hh : p x = true
    · simp [hh, List.filter_cons]
    · simp [hh, List.filter_cons]

/-- **`prune_candidates`** (any `K`; `convex_hull_collide` is a parameter): the pairs whose hulls collide, in order … -/
theorem prune_candidates_src (hull : List (List K) → List (List K) → Bool)
    (cands : List (Src.Py.Rt.PyShape K × Src.Py.Rt.PyShape K)) :
    Src.Py.prune_candidates hull cands =
      .ok (cands.filter fun pr => hull (shapeNodes pr.1) (shapeNodes pr.2)) := by
  unfold Src.Py.prune_candidates
  have h1 : ∀ y : Src.Py.Rt.PyShape K, (if Src.Py.Rt.PyShape.isLin y then
        Src.Py.Rt.bind (Src.Py.Rt.PyShape.asLin y) fun t1 => .ok t1.curve.nodes
      else Src.Py.Rt.bind (Src.Py.Rt.PyShape.asSub y) fun t2 => .ok t2.nodes : Except Err (List (List K))) =
      .ok (shapeNodes y) := by
    intro y; cases y <;> rfl
  simp only [h1, Src.Py.Rt.bind_ok]
  have := foldM_filter (fun pr : Src.Py.Rt.PyShape K × Src.Py.Rt.PyShape K => hull (shapeNodes pr.1) (shapeNodes pr.2))
    cands []
  simp only [List.nil_append] at this
  have hb : ∀ (m : Except Err (List (Src.Py.Rt.PyShape K × Src.Py.Rt.PyShape K))),
      Src.Py.Rt.bind m (fun x => .ok x) = m := by intro m; cases m <;> rfl
  rw [hb]
  exact this

/-- … which on related candidates is `Model.pruneCandidates` -/
theorem prune_candidates_model (P : Prims K) (cands : List (Src.Py.Rt.PyShape K × Src.Py.Rt.PyShape K))
    (mc : List (Cand K × Cand K)) (hrel : List.Forall₂ (fun x c => CandRel x.1 c.1 ∧ CandRel x.2 c.2) cands mc) :
    List.Forall₂ (fun x c => CandRel x.1 c.1 ∧ CandRel x.2 c.2)
      (cands.filter fun pr => P.hullCollide (shapeNodes pr.1) (shapeNodes pr.2)) (pruneCandidates P mc) := by
  unfold pruneCandidates
  induction hrel with
  | nil => simp
  | cons h _ ih =>
    obtain ⟨ha, hb⟩ := h
    simp only [List.filter_cons, shapeNodes_rel _ _ ha, shapeNodes_rel _ _ hb]
    split
    · exact List.Forall₂.cons ⟨ha, hb⟩ ih
    · exact ih

end AnyK

section AnyK
variable {K : Type} [Add K] [Sub K] [Mul K] [Div K] [Neg K] [OfNat K 0] [OfNat K 1] [NatCast K]
  [LT K] [DecidableLT K] [LE K] [DecidableLE K] [DecidableEq K]

theorem asPt_len2K (v : List K) (h : v.length = 2) : Src.Py.Rt.asPt v = .ok (ptOf v) := by
  rcases v with _ | ⟨a, _ | ⟨b, _ | ⟨c, r⟩⟩⟩ <;> simp at h
  rfl

/-- what `Linearization.__init__` establishes (any number type) -/
def LinOkK (l : Src.Py.Rt.PyLin K) : Prop :=
  l.start_node = firstNode l.curve.nodes ∧ l.end_node = lastNode l.curve.nodes ∧ l.curve.nodes.length = 2

/-- `check_lines` returns `(False, None)` or `(True, (2 × N array of parameters, coincident))`; the model
    `Option (List (K × K) × Bool)` -/
def encCheck : Option (List (K × K) × Bool) → Bool × Option (Option (List (List K)) × Bool)
  | none => (false, none)
  | some (l, b) => (true, some (some [l.map (·.1), l.map (·.2)], b))

/-- the primitive `parallelLines` of the model read off what the translated `parallel_lines_parameters` returns
    (`(disjoint, 2 × 2 array [[s₀, s₁], [t₀, t₁]])`): this is how `concretePrims` defines it -/
def decPar : Bool × Option (List (List K)) → Option (List (K × K))
  | (false, some [[a, b], [c, d]]) => some [(a, c), (b, d)]
  | _ => none

/-- **`check_lines`** (any `K`): both candidates must be `Linearization`s with error exactly `0`; then the chords are
    intersected (`segment_intersection`, parameters in `[0, 1]` ⇒ one column, outside ⇒ none), parallel chords go to
    `parallel_lines_parameters` (disjoint ⇒ no column, else its `2 × 2` parameter array and `coincident = True`) -/
theorem check_lines_src (P : Prims K)
    (hseg : ∀ a b c d, P.segmentIntersection a b c d = Model.segmentIntersection (ptOf a) (ptOf b) (ptOf c) (ptOf d))
    (hin : ∀ v, P.inUnit v = inInterval v 0 1)
    (hpar : ∀ a b c d, P.parallelLines a b c d =
      decPar (Src.Py.parallel_lines_parameters (ptOf a) (ptOf b) (ptOf c) (ptOf d)))
    (first second : Src.Py.Rt.PyShape K) (c1 c2 : Cand K) (R1 : CandRel first c1) (R2 : CandRel second c2)
    (ok1 : ∀ l, first = .lin l → LinOkK l) (ok2 : ∀ l, second = .lin l → LinOkK l) :
    Src.Py.check_lines first second = .ok (encCheck (checkLines P c1 c2)) := by
  unfold Src.Py.check_lines checkLines
  cases R1 with
  | sub a => cases R2 <;> rfl
  | lin l1 e1 h1 =>
    cases R2 with
    | sub b => rfl
    | lin l2 e2 h2 =>
      obtain ⟨s1, n1, d1⟩ := ok1 l1 rfl
      obtain ⟨s2, n2, d2⟩ := ok2 l2 rfl
      simp only [Src.Py.Rt.PyShape.isLin, Src.Py.Rt.PyShape.asLin, ↓reduceIte, Src.Py.Rt.bind_ok, h1, h2]
      by_cases z1 : l1.error = 0
      · by_cases z2 : l2.error = 0
        · simp only [z1, z2, ↓reduceIte, decide_true, Bool.not_true, Bool.false_eq_true, and_self, Src.Py.Rt.bind_ok,
            subOfK]
          rw [s1, n1, s2, n2, asPt_len2K _ (by simp [firstNode, d1]), asPt_len2K _ (by simp [lastNode, d1]),
            asPt_len2K _ (by simp [firstNode, d2]), asPt_len2K _ (by simp [lastNode, d2])]
          simp only [Src.Py.Rt.bind_ok, SrcPy.segment_intersection_src, hseg, hin, hpar, SrcPy.in_interval_src]
          cases segmentIntersection (ptOf (firstNode l1.curve.nodes)) (ptOf (lastNode l1.curve.nodes))
              (ptOf (firstNode l2.curve.nodes)) (ptOf (lastNode l2.curve.nodes)) with
          | some st =>
            obtain ⟨s, t⟩ := st
            simp only [SrcPy.encSeg, ↓reduceIte, unwrap_some, Src.Py.Rt.bind_ok]
            cases inInterval s 0 1 <;> cases inInterval t 0 1 <;> rfl
          | none =>
            simp only [SrcPy.encSeg, Bool.false_eq_true, ↓reduceIte, Src.Py.Rt.bind_ok]
            rw [SrcPy.parallel_lines_parameters_src]
            dsimp only
            split
            · rfl
            · have key : ∀ pp : Option (K × K × K × K),
                  (Except.ok (true, some (if (SrcPy.encPar pp).1 = true then
                      (some (List.replicate 2 ([] : List K)), false) else ((SrcPy.encPar pp).2, true))) :
                    Except Err (Bool × Option (Option (List (List K)) × Bool))) =
                  .ok (encCheck (match decPar (SrcPy.encPar pp) with
                    | none => some ([], false)
                    | some params => some (params, true))) := by
                intro pp
                rcases pp with _ | ⟨a, b, c, d⟩ <;> rfl
              exact key _
        · simp [z1, z2, encCheck]
      · simp [z1, encCheck]

end AnyK

/-! ## `all_intersections`: the round loop with its budgets (hazmat/geometric_intersection.py) -/

section AnyK
variable {K : Type} [Add K] [Sub K] [Mul K] [Div K] [Neg K] [OfNat K 0] [OfNat K 1] [NatCast K]
  [LT K] [DecidableLT K] [LE K] [DecidableLE K] [DecidableEq K]

/-- candidate pairs of the code and of the model, pair by pair -/
abbrev PairsRel (cands : List (Src.Py.Rt.PyShape K × Src.Py.Rt.PyShape K)) (mc : List (Cand K × Cand K)) : Prop :=
  List.Forall₂ (fun x c => CandRel x.1 c.1 ∧ CandRel x.2 c.2) cands mc

/-- an untranslated `intersect_one_round` (it returns the next candidates and has updated `intersections`) answers like
    the model's on related candidates -/
def RoundRel : Except Err (List (Src.Py.Rt.PyShape K × Src.Py.Rt.PyShape K) × List (K × K)) →
    Except Err (List (Cand K × Cand K) × List (K × K)) → Prop
  | .ok (c, a), .ok (mc, ma) => PairsRel c mc ∧ a = ma
  | .error e, .error e' => e = e'
  | _, _ => False

/-- the result type of the translated `all_intersections` -/
abbrev AllRes (K : Type) := Option (Option (List (List K)) × Bool)

abbrev AllState (K : Type) := List (Src.Py.Rt.PyShape K × Src.Py.Rt.PyShape K) × List (K × K) × Bool

/-- the body of the translated round loop (a copy of the generated term; `all_intersections_unfold` checks it) -/
def pyRoundStep (sqrt : K → K) (elevate_nodes : List (List K) → List (List K))
    (locate_point : List (List K) → List K → Except Err (Option K))
    (specialize_curve : List (List K) → K → K → List (List K))
    (convex_hull_collide : List (List K) → List (List K) → Bool)
    (intersect_one_round : List (Src.Py.Rt.PyShape K × Src.Py.Rt.PyShape K) → List (K × K) →
      Except Err (List (Src.Py.Rt.PyShape K × Src.Py.Rt.PyShape K) × List (K × K)))
    (nodes_first nodes_second : List (List K)) : AllState K → Nat → Except Err (AllRes K ⊕ AllState K) :=
  fun (candidates, intersections, coincident) _ =>
    Src.Py.Rt.bind (intersect_one_round candidates intersections) fun (candidates, intersections) =>
    if (64 : Nat) < (List.length candidates) then
      Src.Py.Rt.bind (Src.Py.prune_candidates convex_hull_collide candidates) fun candidates =>
      if (64 : Nat) < (List.length candidates) then
        Src.Py.Rt.bind (Src.Py.coincident_parameters sqrt elevate_nodes locate_point specialize_curve nodes_first nodes_second) fun params =>
        if Option.isNone params then
          .error .notImplemented
        else
          Src.Py.Rt.bind (Src.Py.Rt.unwrap params) fun t4 =>
          Src.Py.Rt.bind (Src.Py.Rt.unwrap t4.1.1) fun t5 =>
          Src.Py.Rt.bind (Src.Py.Rt.unwrap t4.1.2) fun t6 =>
          Src.Py.Rt.bind (Src.Py.Rt.unwrap t4.2.1) fun t7 =>
          Src.Py.Rt.bind (Src.Py.Rt.unwrap t4.2.2) fun t8 =>
          let intersections := [(t5, t6), (t7, t8)]
          let coincident := true
          let candidates : List (Src.Py.Rt.PyShape K × Src.Py.Rt.PyShape K) := []
          if List.isEmpty candidates then
            if !(List.isEmpty intersections) then
              .ok (Sum.inl (some (some (Src.Py.Rt.pairsT intersections), coincident)))
            else
              .ok (Sum.inl (some (some (List.replicate 2 [] : List (List K)), coincident)))
          else
            .ok (Sum.inr (candidates, intersections, coincident))
      else
        if List.isEmpty candidates then
          if !(List.isEmpty intersections) then
            .ok (Sum.inl (some (some (Src.Py.Rt.pairsT intersections), coincident)))
          else
            .ok (Sum.inl (some (some (List.replicate 2 [] : List (List K)), coincident)))
        else
          .ok (Sum.inr (candidates, intersections, coincident))
    else
      if List.isEmpty candidates then
        if !(List.isEmpty intersections) then
          .ok (Sum.inl (some (some (Src.Py.Rt.pairsT intersections), coincident)))
        else
          .ok (Sum.inl (some (some (List.replicate 2 [] : List (List K)), coincident)))
      else
        .ok (Sum.inr (candidates, intersections, coincident))

/-- after the loop: `raise ValueError(_NO_CONVERGE_TEMPLATE...)` -/
def pyAllPost (res : AllRes K ⊕ AllState K) : Except Err (AllRes K) :=
  match res with
  | .inl r => .ok r
  | .inr _ => .error .valueError

/-- the generated `all_intersections` IS: the two `SubdividedCurve(nodes, nodes)` objects (`start = 0`, `end = 1`),
    `Linearization.from_shape` of each, `check_lines`, then `_MAX_INTERSECT_SUBDIVISIONS = 20` rounds of `pyRoundStep`
    from `([(candidate1, candidate2)], [], False)` and `ValueError` when the loop runs out -/
theorem all_intersections_unfold (sqrt : K → K) (elev : List (List K) → List (List K))
    (loc : List (List K) → List K → Except Err (Option K)) (spec : List (List K) → K → K → List (List K))
    (fs : Src.Py.Rt.PyShape K → Src.Py.Rt.PyShape K) (hull : List (List K) → List (List K) → Bool)
    (ior : List (Src.Py.Rt.PyShape K × Src.Py.Rt.PyShape K) → List (K × K) →
      Except Err (List (Src.Py.Rt.PyShape K × Src.Py.Rt.PyShape K) × List (K × K)))
    (n1 n2 : List (List K)) :
    Src.Py.all_intersections sqrt elev loc spec fs hull ior n1 n2 =
      Src.Py.Rt.bind (Src.Py.check_lines
          (fs (.sub { nodes := n1, original_nodes := n1, start := 0, stop := 1 }))
          (fs (.sub { nodes := n2, original_nodes := n2, start := 0, stop := 1 }))) fun r =>
        if r.1 = true then .ok r.2
        else Src.Py.Rt.bind (Src.Py.Rt.forM (List.range 20)
            (([(fs (.sub { nodes := n1, original_nodes := n1, start := 0, stop := 1 }),
               fs (.sub { nodes := n2, original_nodes := n2, start := 0, stop := 1 }))], [], false) : AllState K)
            (pyRoundStep sqrt elev loc spec hull ior n1 n2)) pyAllPost := by
  unfold Src.Py.all_intersections
  dsimp only
  congr 1
  funext r
  obtain ⟨bl, res⟩ := r
  dsimp only
  split
  · rfl
  · congr 1
    funext st
    rcases st with r | ⟨a, b, c⟩ <;> rfl

/-- the code returns `(2 × N array, coincident)`; the model `(list of pairs, coincident)` -/
def encAllE : Except Err (List (K × K) × Bool) → Except Err (AllRes K)
  | .ok (l, b) => .ok (some (some (Src.Py.Rt.pairsT l), b))
  | .error e => .error e

theorem pairs_or_empty (l : List (K × K)) (b : Bool) :
    (if (!(List.isEmpty l)) = true then
        (Except.ok (Sum.inl (some (some (Src.Py.Rt.pairsT l), b))) : Except Err (AllRes K ⊕ AllState K))
      else .ok (Sum.inl (some (some (List.replicate 2 [] : List (List K)), b)))) =
      .ok (Sum.inl (some (some (Src.Py.Rt.pairsT l), b))) := by
  cases l <;> rfl

theorem pairsRel_isEmpty (c : List (Src.Py.Rt.PyShape K × Src.Py.Rt.PyShape K)) (mc : List (Cand K × Cand K))
    (h : PairsRel c mc) : c.isEmpty = mc.isEmpty := by
  cases h <;> rfl

/-- what `Rt.forM` does with the answer of one round -/
def forK {α σ ρ : Type} (xs : List α) (step : σ → α → Except Err (ρ ⊕ σ)) : ρ ⊕ σ → Except Err (ρ ⊕ σ)
  | .inl r => .ok (.inl r)
  | .inr s => Src.Py.Rt.forM xs s step

theorem forM_cons {α σ ρ : Type} (x : α) (xs : List α) (init : σ) (step : σ → α → Except Err (ρ ⊕ σ)) :
    Src.Py.Rt.forM (x :: xs) init step = Src.Py.Rt.bind (step init x) (forK xs step) := by
  rw [Src.Py.Rt.forM]
  congr 1

/-- what the translated `coincident_parameters` must answer (this is what `coincident_parameters_src` proves on its domain) -/
def CoincidentLike (cp : Except Err (Option ((Option K × Option K) × (Option K × Option K))))
    (m : Except Err (Option (List (K × K)))) : Prop :=
  match m with
  | .error e => cp = .error e
  | .ok none => cp = .ok none
  | .ok (some l) => ∃ a b c d, l = [(a, b), (c, d)] ∧ cp = .ok (some ((some a, some b), (some c, some d)))

/-- the round loop: any number of remaining rounds, related candidate lists, the same accumulated intersections -/
theorem all_loop (P : Prims K) (G : GeoConsts K) (hmc : G.maxCandidates = 64)
    (sqrt : K → K) (elev : List (List K) → List (List K))
    (loc : List (List K) → List K → Except Err (Option K)) (spec : List (List K) → K → K → List (List K))
    (ior : List (Src.Py.Rt.PyShape K × Src.Py.Rt.PyShape K) → List (K × K) →
      Except Err (List (Src.Py.Rt.PyShape K × Src.Py.Rt.PyShape K) × List (K × K)))
    (n1 n2 : List (List K))
    (hior : ∀ cands mc acc, PairsRel cands mc → RoundRel (ior cands acc) (intersectOneRound P G n1 n2 mc acc))
    (hco : CoincidentLike (Src.Py.coincident_parameters sqrt elev loc spec n1 n2) (coincidentParameters P G n1 n2))
    (xs : List Nat) :
    ∀ (cands : List (Src.Py.Rt.PyShape K × Src.Py.Rt.PyShape K)) (mc : List (Cand K × Cand K)) (acc : List (K × K)),
      PairsRel cands mc →
      Src.Py.Rt.bind (Src.Py.Rt.forM xs ((cands, acc, false) : AllState K)
          (pyRoundStep sqrt elev loc spec P.hullCollide ior n1 n2)) pyAllPost =
        encAllE (allIntersections.rounds P G n1 n2 xs.length mc acc) := by
  induction xs with
  | nil => intro cands mc acc _; rfl
  | cons x xs ih =>
    intro cands mc acc hrel
    rw [forM_cons, List.length_cons, allIntersections.rounds]
    simp only [pyRoundStep]
    have hr := hior cands mc acc hrel
    cases h1 : ior cands acc with
    | error e =>
      cases h2 : intersectOneRound P G n1 n2 mc acc with
      | error e' => rw [h1, h2] at hr; cases hr; rfl
      | ok v => rw [h1, h2] at hr; exact hr.elim
    | ok v =>
      obtain ⟨c, a⟩ := v
      cases h2 : intersectOneRound P G n1 n2 mc acc with
      | error e' => rw [h1, h2] at hr; exact hr.elim
      | ok w =>
        obtain ⟨mc', ma⟩ := w
        rw [h1, h2] at hr
        obtain ⟨hrel', rfl⟩ := hr
        have hlen : c.length = mc'.length := List.Forall₂.length_eq hrel'
        simp only [Src.Py.Rt.bind_ok, hmc, gt_iff_lt]
        -- the end of a round once the (possibly pruned) candidate list `cc` is known and small enough
        have fin : ∀ (cc : List (Src.Py.Rt.PyShape K × Src.Py.Rt.PyShape K)) (mcc : List (Cand K × Cand K)),
            PairsRel cc mcc →
            Src.Py.Rt.bind (Src.Py.Rt.bind
              (if List.isEmpty cc = true then
                if (!(List.isEmpty a)) = true then
                  (Except.ok (Sum.inl (some (some (Src.Py.Rt.pairsT a), false))) : Except Err (AllRes K ⊕ AllState K))
                else .ok (Sum.inl (some (some (List.replicate 2 [] : List (List K)), false)))
              else .ok (Sum.inr (cc, a, false)))
              (forK xs (pyRoundStep sqrt elev loc spec P.hullCollide ior n1 n2))) pyAllPost =
            encAllE (if mcc.isEmpty = true then .ok (a, false) else allIntersections.rounds P G n1 n2 xs.length mcc a) := by
          intro cc mcc hcc
          rw [pairs_or_empty, ← pairsRel_isEmpty cc mcc hcc]
          by_cases he : cc.isEmpty = true
          · simp only [he, ↓reduceIte, Src.Py.Rt.bind_ok]
            rfl
          · simp only [he, Bool.false_eq_true, ↓reduceIte, Src.Py.Rt.bind_ok, forK]
            exact ih cc mcc a hcc
        by_cases hbig : 64 < c.length
        · have hbig' : 64 < mc'.length := by omega
          simp only [hbig, hbig', ↓reduceIte, prune_candidates_src, Src.Py.Rt.bind_ok]
          have hp := prune_candidates_model P c mc' hrel'
          have hlen2 := List.Forall₂.length_eq hp
          by_cases hbig2 : 64 < (c.filter fun pr => P.hullCollide (shapeNodes pr.1) (shapeNodes pr.2)).length
          · have hbig2' : 64 < (pruneCandidates P mc').length := by omega
            simp only [hbig2, hbig2', ↓reduceIte]
            unfold CoincidentLike at hco
            cases hc : coincidentParameters P G n1 n2 with
            | error e => rw [hc] at hco; simp only [hco, Src.Py.Rt.bind_error]; rfl
            | ok o =>
              cases o with
              | none => rw [hc] at hco; simp only [hco, Src.Py.Rt.bind_ok, Option.isNone_none, ↓reduceIte]; rfl
              | some l =>
                rw [hc] at hco
                obtain ⟨p, q, r, s, rfl, hcp⟩ := hco
                simp only [hcp, Src.Py.Rt.bind_ok, Option.isNone_some, Bool.false_eq_true, ↓reduceIte, unwrap_some]
                rfl
          · have hbig2' : ¬ 64 < (pruneCandidates P mc').length := by omega
            simp only [hbig2, hbig2', ↓reduceIte]
            exact fin _ _ hp
        · have hbig' : ¬ 64 < mc'.length := by omega
          simp only [hbig, hbig', ↓reduceIte]
          exact fin _ _ hrel'

/-- **`all_intersections`** (any `K`): the two curve objects with `start = 0`, `end = 1`, `Linearization.from_shape`,
    the `check_lines` exit, then at most `_MAX_INTERSECT_SUBDIVISIONS = 20` rounds: `intersect_one_round`; more than
    `_MAX_CANDIDATES = 64` pairs ⇒ `prune_candidates`; still more than 64 ⇒ `coincident_parameters` (`None` ⇒
    `NotImplementedError`, else its two pairs with `coincident = True`); no pair left ⇒ the accumulated intersections as a
    `2 × N` array; rounds exhausted ⇒ `ValueError` — is `Model.allIntersections`.  `Linearization.from_shape` and
    `intersect_one_round` are not translated (parameters, assumed to answer like the model's on related candidates);
    `check_lines`, `prune_candidates`, `coincident_parameters` are the translated ones (`hcl`, `hco` are what
    `check_lines_src` / `coincident_parameters_src` prove on their domains). -/
theorem all_intersections_src (P : Prims K) (G : GeoConsts K) (hmr : G.maxRounds = 20) (hmc : G.maxCandidates = 64)
    (sqrt : K → K) (elev : List (List K) → List (List K))
    (loc : List (List K) → List K → Except Err (Option K)) (spec : List (List K) → K → K → List (List K))
    (fs : Src.Py.Rt.PyShape K → Src.Py.Rt.PyShape K)
    (ior : List (Src.Py.Rt.PyShape K × Src.Py.Rt.PyShape K) → List (K × K) →
      Except Err (List (Src.Py.Rt.PyShape K × Src.Py.Rt.PyShape K) × List (K × K)))
    (n1 n2 : List (List K))
    (hfs : ∀ c : Src.Py.Rt.PySub K, CandRel (fs (.sub c)) (fromShape P G (.curve (subOfK c))))
    (hcl : ∀ x y c1 c2, CandRel x c1 → CandRel y c2 → x = fs (.sub { nodes := n1, original_nodes := n1, start := 0, stop := 1 }) →
      y = fs (.sub { nodes := n2, original_nodes := n2, start := 0, stop := 1 }) →
      Src.Py.check_lines x y = .ok (encCheck (checkLines P c1 c2)))
    (hior : ∀ cands mc acc, PairsRel cands mc → RoundRel (ior cands acc) (intersectOneRound P G n1 n2 mc acc))
    (hco : CoincidentLike (Src.Py.coincident_parameters sqrt elev loc spec n1 n2) (coincidentParameters P G n1 n2)) :
    Src.Py.all_intersections sqrt elev loc spec fs P.hullCollide ior n1 n2 = encAllE (allIntersections P G n1 n2) := by
  rw [all_intersections_unfold]
  unfold allIntersections
  have f1 := hfs { nodes := n1, original_nodes := n1, start := 0, stop := 1 }
  have f2 := hfs { nodes := n2, original_nodes := n2, start := 0, stop := 1 }
  rw [hcl _ _ _ _ f1 f2 rfl rfl]
  simp only [Src.Py.Rt.bind_ok, subOfK] at *
  cases hck : checkLines P (fromShape P G (.curve { nodes := n1, start := 0, stop := 1 }))
      (fromShape P G (.curve { nodes := n2, start := 0, stop := 1 })) with
  | some r =>
    obtain ⟨l, b⟩ := r
    rfl
  | none =>
    simp only [encCheck, Bool.false_eq_true, ↓reduceIte]
    have hrel0 : PairsRel
        [(fs (.sub { nodes := n1, original_nodes := n1, start := 0, stop := 1 }),
          fs (.sub { nodes := n2, original_nodes := n2, start := 0, stop := 1 }))]
        [(fromShape P G (.curve { nodes := n1, start := 0, stop := 1 }),
          fromShape P G (.curve { nodes := n2, start := 0, stop := 1 }))] :=
      List.Forall₂.cons ⟨f1, f2⟩ List.Forall₂.nil
    have := all_loop P G hmc sqrt elev loc spec ior n1 n2 hior hco (List.range 20) _ _ [] hrel0
    rw [List.length_range] at this
    rw [hmr]
    exact this

end AnyK

/-! ## `SubdividedCurve.subdivide`, `Linearization.from_shape` (methods of hazmat/geometric_intersection.py) -/

/-- **`SubdividedCurve.subdivide`** (the object's slots are arguments of the generated definition): the halves of
    `subdivide_nodes` (a parameter) keep the original nodes, and split `[start, end]` at `0.5 * (start + end)` -/
theorem subdivide_src (sd : List (List ℝ) → List (List ℝ) × List (List ℝ)) (n o : List (List ℝ)) (s e : ℝ) :
    Src.Py.SubdividedCurve.subdivide sd n o s e =
      ({ nodes := (sd n).1, original_nodes := o, start := s, stop := 1 / (1 + 1) * (s + e) },
       { nodes := (sd n).2, original_nodes := o, start := 1 / (1 + 1) * (s + e), stop := e }) := by
  unfold Src.Py.SubdividedCurve.subdivide
  rw [q12]

/-- … which are the two sub-curves of `Model.subdivideCand` (before `from_shape` is applied to each) -/
theorem subdivide_model (P : Prims ℝ) (G : GeoConsts ℝ) (c : Src.Py.Rt.PySub ℝ) :
    subdivideCand P G (.curve (subOfK c)) =
      [fromShape P G (.curve (subOfK (Src.Py.SubdividedCurve.subdivide P.subdivide c.nodes c.original_nodes c.start c.stop).1)),
       fromShape P G (.curve (subOfK (Src.Py.SubdividedCurve.subdivide P.subdivide c.nodes c.original_nodes c.start c.stop).2))] := by
  rw [subdivide_src]
  rfl

theorem q26 : (q 1 67108864 : ℝ) = 1 / 2 ^ 26 := by
  rw [show (1 : Int) = ((1 : Nat) : Int) by rfl, q_real]; norm_num

/-- **`Linearization.from_shape`** (a class method; `cls(shape, error)` is the checked `__init__`): a `Linearization` is
    returned as it is; a `SubdividedCurve` whose `linearization_error` (the translated one) is below `_ERROR_VAL = 2^-26`
    becomes `Linearization(shape, error)` with `start_node` / `end_node` the first / last column of its nodes, otherwise it is
    returned as it is -/
theorem from_shape_src (c : Src.Py.Rt.PySub ℝ) (err : ℝ)
    (herr : Src.Py.linearization_error Real.sqrt c.nodes = .ok err) (hne : ∀ r ∈ c.nodes, r ≠ []) :
    Src.Py.Linearization.from_shape Real.sqrt (.sub c) =
      .ok (if err < 1 / 2 ^ 26 then
        .lin { curve := c, error := err, start_node := firstNode c.nodes, end_node := lastNode c.nodes }
        else .sub c) ∧
    ∀ l, Src.Py.Linearization.from_shape Real.sqrt (.lin l) = .ok (.lin l) := by
  refine ⟨?_, fun l => rfl⟩
  unfold Src.Py.Linearization.from_shape
  simp only [Src.Py.Rt.PyShape.isLin, Bool.false_eq_true, ↓reduceIte, Src.Py.Rt.PyShape.asSub, Src.Py.Rt.bind_ok, herr,
    q26, mapM_first c.nodes hne, mapM_last c.nodes hne]
  split <;> rfl

/-- … and is the model's `fromShape` (which carries the SQUARED error, compared with `_ERROR_VAL²`): related candidates,
    and a linearization as `__init__` builds it -/
theorem from_shape_model (P : Prims ℝ) (G : GeoConsts ℝ) (hG : G.errValSq = (1 / 2 ^ 26) ^ 2) (c : Src.Py.Rt.PySub ℝ)
    (err : ℝ) (h0 : 0 ≤ err) (hP : P.linErrSq c.nodes = err ^ 2) (hd : c.nodes.length = 2) :
    let x : Src.Py.Rt.PyShape ℝ := if err < 1 / 2 ^ 26 then
        .lin { curve := c, error := err, start_node := firstNode c.nodes, end_node := lastNode c.nodes } else .sub c
    CandRel x (fromShape P G (.curve (subOfK c))) ∧ ∀ l, x = .lin l → LinOkK l := by
  intro x
  have hlt : err < 1 / 2 ^ 26 ↔ err ^ 2 < (1 / 2 ^ 26) ^ 2 := by
    constructor
    · intro h; exact pow_lt_pow_left₀ h h0 (by norm_num)
    · intro h; exact lt_of_pow_lt_pow_left₀ 2 (by positivity) h
  unfold fromShape
  simp only [subOfK, hP, hG]
  by_cases h : err < 1 / 2 ^ 26
  · have h' := hlt.mp h
    simp only [x, h, h', ↓reduceIte]
    refine ⟨CandRel.lin _ _ (by simp), ?_⟩
    intro l hl
    cases hl
    exact ⟨rfl, rfl, hd⟩
  · have h' := mt hlt.mpr h
    simp only [x, h, h', ↓reduceIte]
    exact ⟨CandRel.sub c, by intro l hl; cases hl⟩

end BezierVerif.SrcPyPipeline
