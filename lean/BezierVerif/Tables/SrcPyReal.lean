import BezierVerif.Generated.SrcPy
import BezierVerif.Lemmas.NormReal

/-!
# Tables/SrcPyReal — translated functions that take a norm (`K = ℝ`, `sqrt = Real.sqrt`)

`np.linalg.norm(v, ord=2)` is translated by `harness/translate_py.py` to `sqrt (Model.normSq v)` with an
ABSTRACT `sqrt : K → K` (first argument of the generated definition).  The model never takes a square
root (`Model.vectorCloseSq` receives `eps²`), so source and model legitimately differ in form; the
precise relation is stated here at `K := ℝ` with the exact `Real.sqrt`:

* `vector_close_src_norm`: the translated `vector_close` IS the hand transcription
  `NormReal.vectorCloseNorm` of Lemmas/NormReal.lean (arrays of equal length; NumPy's length-1
  broadcasting and the `ValueError` on other length mismatches are outside the model);
* `vector_close_src`: hence, for `0 ≤ eps`, it is `Model.vectorCloseSq vec1 vec2 (eps²)`.
-/

namespace BezierVerif.SrcPy

open BezierVerif BezierVerif.Model

/-- `vector_close` against the norm formulation over the reals -/
theorem vector_close_src_norm (vec1 vec2 : List ℝ) (eps : ℝ) (hlen : vec1.length = vec2.length) :
    Src.Py.vector_close Real.sqrt vec1 vec2 eps = .ok (NormReal.vectorCloseNorm vec1 vec2 eps) := by
  rw [NormReal.vectorCloseNorm_minK]
  unfold Src.Py.vector_close Src.Py.Rt.vzip NormReal.norm2
  simp only [hlen, ↓reduceIte, Src.Py.Rt.bind_ok]
  split
  · rfl
  · split <;> rfl

/-- `vector_close` against the squared formulation of the model (`0 ≤ eps`) -/
theorem vector_close_src (vec1 vec2 : List ℝ) (eps : ℝ) (hlen : vec1.length = vec2.length) (heps : 0 ≤ eps) :
    Src.Py.vector_close Real.sqrt vec1 vec2 eps = .ok (Model.vectorCloseSq vec1 vec2 (eps ^ 2)) := by
  rw [vector_close_src_norm vec1 vec2 eps hlen, NormReal.vectorCloseSq_eq_vectorCloseNorm vec1 vec2 eps heps]

end BezierVerif.SrcPy
