import BezierVerif.Generated.SrcPy
import BezierVerif.Tables.SrcPy
import BezierVerif.Tables.SrcPyKernels
import BezierVerif.Model.Triangle
import BezierVerif.Model.TriDeriv
import Mathlib.Algebra.Field.Basic
import Mathlib.Data.Nat.Cast.Basic
import Mathlib.Order.Defs.LinearOrder

/-!
# Tables/SrcPyTriangle — the translated pure-Python TRIANGLE kernels equal the model

Phase 4 (builder `pytri`) of the source-to-Lean tie (`harness/translate_py.py` → `Generated/SrcPy.lean`): the kernels of
`hazmat/triangle_helpers.py` and the triangle Newton step of `hazmat/triangle_intersection.py`.

New in the translation: a `np.empty((d, k))` array that the code fills column by column (`x[:, index] = col` with a running
`index`) is the list of its rows written so far (`Rt.mcNew`, `Rt.pushCol`, `Rt.mcFreeze`: columns must be written in order
and all of them before the array is read - anything else is `Err.badInput`, never a default value), nested counting loops
with integer running variables, `enumerate`, iteration over the rows of a 2-D array.

`n = numNodes degree` is the number of control points of a degree-`degree` triangle; "rect" means every row of `nodes`
has `n` entries.

| source function                                      | theorem                              | model definition                         | domain |
|------------------------------------------------------|--------------------------------------|------------------------------------------|--------|
| triangle_helpers.de_casteljau_one_round              | `de_casteljau_one_round_src`         | `dcRound3` on every row                  | any `K`; ≥ 1 row, rect |
| triangle_helpers.evaluate_barycentric                | `evaluate_barycentric_src`           | `Py.evalBarycentric 55`                  | any field; ≥ 1 row, rect |
| triangle_helpers.evaluate_barycentric_multi          | `evaluate_barycentric_multi_src`     | `Py.evalBarycentricMulti 55`             | as above, `dimension` = number of rows |
| triangle_helpers.evaluate_cartesian_multi            | `evaluate_cartesian_multi_src`       | `Py.evalCartesianMulti 55`               | as above |
| triangle_helpers.jacobian_s / jacobian_t             | `jacobian_s_src`, `jacobian_t_src`   | `jacobianSRow`, `jacobianTRow`           | any `K`; rect, `dimension` = number of rows |
| triangle_helpers.jacobian_both                       | `jacobian_both_src`                  | `jacobianBoth`                           | any `K`; ≥ 1 row, rect |
| triangle_helpers.jacobian_det                        | `jacobian_det_src`                   | `jacobianDet 55`                         | any field; 2 rows, rect, `degree ≥ 1` |
| triangle_intersection.newton_refine_solve / newton_refine | `newton_refine_src`             | `newtonRefineTriangle 55`                | any field; 2 rows, rect, `degree ≥ 1` |
-/

set_option linter.unusedSectionVars false
set_option linter.unusedVariables false

namespace BezierVerif.SrcPyTriangle

open BezierVerif BezierVerif.Model
open BezierVerif.Src.Py (Rt.bind Rt.foldM Rt.idx Rt.pushCol Rt.mcFreeze Rt.mcNew)

variable {K : Type} [Add K] [Sub K] [Mul K] [Div K] [Neg K] [OfNat K 0] [OfNat K 1] [NatCast K]
  [LT K] [DecidableLT K] [LE K] [DecidableLE K] [DecidableEq K]

/-! ## triangular numbers (the bounds of the running indices) -/

/-- `1 + 2 + … + j` -/
def tri : Nat → Nat
  | 0 => 0
  | j + 1 => tri j + (j + 1)

theorem le_tri (j : Nat) : j ≤ tri j := by
  cases j with
  | zero => exact Nat.le_refl _
  | succ j => simp only [tri]; omega

theorem two_tri (j : Nat) : 2 * tri j = j * (j + 1) := by
  induction j with
  | zero => rfl
  | succ j ih => simp only [tri]; rw [Nat.mul_add, ih]; ring

theorem numNodes_eq_tri (d : Nat) : numNodes d = tri (d + 1) := by
  unfold numNodes
  have h := two_tri (d + 1)
  rw [← h]
  omega

theorem half_eq_tri (d : Nat) : d * (d + 1) / 2 = tri d := by
  have h := two_tri d
  rw [← h]
  omega

/-! ## reading columns, pushing columns -/

theorem bind_eq {α β : Type} (m : Except Err α) (v : α) (f : α → Except Err β) (h : m = .ok v) :
    Src.Py.Rt.bind m f = f v := by
  rw [h]; rfl

theorem mapM_idx (nodes : List (List K)) (n j : Nat) (hj : j < n) (hrect : ∀ r ∈ nodes, r.length = n) :
    List.mapM (fun r => Src.Py.Rt.idx r j) nodes = .ok (nodes.map fun r => seq r j) := by
  induction nodes with
  | nil => rfl
  | cons r rows ih =>
    rw [SrcPy.mapM_cons_rt, ih (fun x hx => hrect x (List.mem_cons_of_mem _ hx))]
    have hr : j < r.length := by rw [hrect r (List.mem_cons_self ..)]; exact hj
    simp only [Src.Py.Rt.idx, List.getElem?_eq_getElem hr, Src.Py.Rt.bind_ok, List.map_cons, seq,
      List.getD_eq_getElem?_getD, Option.getD_some]

theorem zipWith_map_same {α β γ δ : Type} (f : β → γ → δ) (g : α → β) (h : α → γ) (l : List α) :
    List.zipWith f (l.map g) (l.map h) = l.map (fun x => f (g x) (h x)) := by
  induction l with
  | nil => rfl
  | cons a l ih => simp only [List.map_cons, List.zipWith_cons_cons, ih]

theorem vzip_map_same {α : Type} (f : K → K → K) (g h : α → K) (nodes : List α) :
    Src.Py.Rt.vzip f (nodes.map g) (nodes.map h) = .ok (nodes.map fun r => f (g r) (h r)) := by
  rw [SrcPy.vzip_eq _ _ _ (by simp), zipWith_map_same]

theorem pushCol_map (k : Nat) (nodes : List (List K)) (f : List K → List K) (g : List K → K) (j : Nat)
    (hj : j < k) (hf : ∀ r ∈ nodes, (f r).length = j) :
    Src.Py.Rt.pushCol k (nodes.map f) (j : Int) (nodes.map g) = .ok (nodes.map fun r => f r ++ [g r]) := by
  unfold Src.Py.Rt.pushCol
  have hall : ((nodes.map f).all fun r => (r.length : Int) == (j : Int)) = true := by
    rw [List.all_eq_true]
    intro x hx
    obtain ⟨r, hr, rfl⟩ := List.mem_map.mp hx
    simp [hf r hr]
  rw [if_pos ⟨by omega, by omega, by simp, hall⟩, zipWith_map_same]

theorem mcFreeze_map (k : Nat) (nodes : List (List K)) (f : List K → List K) (hf : ∀ r ∈ nodes, (f r).length = k) :
    Src.Py.Rt.mcFreeze k (nodes.map f) = .ok (nodes.map f) := by
  unfold Src.Py.Rt.mcFreeze
  have hall : ((nodes.map f).all fun r => r.length == k) = true := by
    rw [List.all_eq_true]
    intro x hx
    obtain ⟨r, hr, rfl⟩ := List.mem_map.mp hx
    simp [hf r hr]
  rw [if_pos hall]

theorem mcNew_map (nodes : List (List K)) :
    (Src.Py.Rt.mcNew nodes.length : List (List K)) = nodes.map fun _ => [] := by
  unfold Src.Py.Rt.mcNew
  induction nodes with
  | nil => rfl
  | cons r rows ih => simp only [List.length_cons, List.replicate_succ, List.map_cons, ih]

theorem shape_rect (nodes : List (List K)) (n : Nat) (hne : nodes ≠ []) (hrect : ∀ r ∈ nodes, r.length = n) :
    Src.Py.Rt.shape nodes = .ok (nodes.length, n) := by
  obtain ⟨r, rs, rfl⟩ := List.exists_cons_of_ne_nil hne
  have hr : r.length = n := hrect r (List.mem_cons_self ..)
  have hall : (rs.all fun x => x.length == r.length) = true := by
    rw [List.all_eq_true]
    intro x hx
    simp [hrect x (List.mem_cons_of_mem _ hx), hr]
  unfold Src.Py.Rt.shape
  dsimp only
  rw [if_pos hall, hr]
  rfl

/-! ## loops that append a block of columns to every row

A loop whose state is `(array under construction, running indices ι)` and whose step appends to every row `r` the
block `blk i x r` (one column for an innermost loop, the columns of a whole inner loop for an outer one). -/

section BlockLoop
variable {α ι : Type}

/-- the columns appended to row `r` by the loop over `xs` started with the running indices `i` -/
def blocks (next : ι → α → ι) (blk : ι → α → List K → List K) : List α → ι → List K → List K
  | [], _, _ => []
  | x :: xs, i, r => blk i x r ++ blocks next blk xs (next i x) r

/-- the guard of every step holds along the loop -/
def okL (next : ι → α → ι) (ok : ι → α → Prop) : List α → ι → Prop
  | [], _ => True
  | x :: xs, i => ok i x ∧ okL next ok xs (next i x)

theorem blockLoop (nodes : List (List K)) (G : List (List K) × ι → α → Except Err (List (List K) × ι))
    (next : ι → α → ι) (blk : ι → α → List K → List K) (ok : ι → α → Prop) (len : ι → Nat)
    (hG : ∀ (pre : List K → List K) (i : ι) (x : α), ok i x → (∀ r ∈ nodes, (pre r).length = len i) →
      G (nodes.map pre, i) x = .ok (nodes.map (fun r => pre r ++ blk i x r), next i x))
    (hlen : ∀ i x r, ok i x → r ∈ nodes → len (next i x) = len i + (blk i x r).length) :
    ∀ (xs : List α) (pre : List K → List K) (i : ι), okL next ok xs i → (∀ r ∈ nodes, (pre r).length = len i) →
      Src.Py.Rt.foldM xs (nodes.map pre, i) G =
          .ok (nodes.map (fun r => pre r ++ blocks next blk xs i r), xs.foldl next i) ∧
        ∀ r ∈ nodes, (pre r ++ blocks next blk xs i r).length = len (xs.foldl next i) := by
  intro xs
  induction xs with
  | nil =>
    intro pre i _ hpre
    refine ⟨?_, ?_⟩
    · simp only [Src.Py.Rt.foldM, blocks, List.append_nil, List.foldl_nil]
    · intro r hr
      simp only [blocks, List.append_nil, List.foldl_nil, hpre r hr]
  | cons x xs ih =>
    intro pre i hok hpre
    obtain ⟨hok1, hok2⟩ := hok
    have hpre' : ∀ r ∈ nodes, ((fun r => pre r ++ blk i x r) r).length = len (next i x) := by
      intro r hr
      simp only [List.length_append, hpre r hr, hlen i x r hok1 hr]
    obtain ⟨h1, h2⟩ := ih (fun r => pre r ++ blk i x r) (next i x) hok2 hpre'
    refine ⟨?_, ?_⟩
    · unfold Src.Py.Rt.foldM
      rw [hG pre i x hok1 hpre]
      simp only [Src.Py.Rt.bind_ok]
      rw [h1]
      simp only [blocks, List.append_assoc, List.foldl_cons]
    · intro r hr
      have := h2 r hr
      simpa only [blocks, List.append_assoc, List.foldl_cons] using this

end BlockLoop

/-! ## `de_casteljau_one_round` (hazmat/triangle_helpers.py) -/

section DC

/-- running indices `(index, parent_i1, parent_i2, parent_i3)` -/
abbrev Ix4 := Nat × Nat × Nat × Nat

def dcNextI (i : Ix4) (_ : Nat) : Ix4 := (i.1 + 1, i.2.1 + 1, i.2.2.1 + 1, i.2.2.2 + 1)

def dcBlkI (w : Bary K) (i : Ix4) (_ : Nat) (r : List K) : List K :=
  [w.l1 * seq r i.2.1 + w.l2 * seq r i.2.2.1 + w.l3 * seq r i.2.2.2]

def dcOkI (kc n : Nat) (i : Ix4) (_ : Nat) : Prop := i.1 < kc ∧ i.2.1 < n ∧ i.2.2.1 < n ∧ i.2.2.2 < n

theorem dcInner_blocks (w : Bary K) (r : List K) (xs : List Nat) (i : Ix4) :
    blocks dcNextI (dcBlkI w) xs i r = dcInner3 w (seq r) xs.length i.2.1 i.2.2.1 i.2.2.2 := by
  induction xs generalizing i with
  | nil => rfl
  | cons x xs ih =>
    simp only [blocks, dcBlkI, List.length_cons, dcInner3, ih, dcNextI, List.singleton_append]

theorem dcInner_fold (xs : List Nat) (i : Ix4) :
    xs.foldl dcNextI i = (i.1 + xs.length, i.2.1 + xs.length, i.2.2.1 + xs.length, i.2.2.2 + xs.length) := by
  induction xs generalizing i with
  | nil => rfl
  | cons x xs ih =>
    simp only [List.foldl_cons, ih, dcNextI, List.length_cons]
    refine Prod.ext ?_ (Prod.ext ?_ (Prod.ext ?_ ?_)) <;> simp only <;> omega

theorem dcInner_ok (kc n : Nat) (xs : List Nat) (i : Ix4) (h1 : i.1 + xs.length ≤ kc) (h2 : i.2.1 + xs.length ≤ n)
    (h3 : i.2.2.1 + xs.length ≤ n) (h4 : i.2.2.2 + xs.length ≤ n) : okL dcNextI (dcOkI kc n) xs i := by
  induction xs generalizing i with
  | nil => trivial
  | cons x xs ih =>
    simp only [List.length_cons] at h1 h2 h3 h4
    refine ⟨⟨by omega, by omega, by omega, by omega⟩, ih _ ?_ ?_ ?_ ?_⟩ <;> simp only [dcNextI] <;> omega

theorem dcInner_len (xs : List Nat) (w : Bary K) (i : Ix4) (r : List K) :
    (blocks dcNextI (dcBlkI w) xs i r).length = xs.length := by
  induction xs generalizing i with
  | nil => rfl
  | cons x xs ih => simp only [blocks, dcBlkI, List.length_append, List.length_cons, List.length_nil, ih]; omega

/-- the outer loop: the inner loop over `range (degree - k)`, then `parent_i1 += 1; parent_i2 += 1` -/
def dcNextO (degree : Nat) (i : Ix4) (k : Nat) : Ix4 :=
  let j := (List.range (degree - k)).foldl dcNextI i
  (j.1, j.2.1 + 1, j.2.2.1 + 1, j.2.2.2)

def dcBlkO (w : Bary K) (degree : Nat) (i : Ix4) (k : Nat) (r : List K) : List K :=
  blocks dcNextI (dcBlkI w) (List.range (degree - k)) i r

def dcOkO (kc n degree : Nat) (i : Ix4) (k : Nat) : Prop := okL dcNextI (dcOkI kc n) (List.range (degree - k)) i

theorem dcOuter_blocks (w : Bary K) (r : List K) (degree fuel k : Nat) (i : Ix4) :
    blocks (dcNextO degree) (dcBlkO w degree) (List.range' k fuel) i r =
      dcOuter3 w (seq r) degree fuel k i.2.1 i.2.2.1 i.2.2.2 := by
  induction fuel generalizing k i with
  | zero => rfl
  | succ fuel ih =>
    rw [List.range'_succ]
    simp only [blocks, dcOuter3, dcBlkO, dcInner_blocks, List.length_range, ih, dcNextO, dcInner_fold]

theorem dcOuter_ok (degree : Nat) (fuel k : Nat) (i : Ix4) (hk : k + fuel = degree)
    (hidx : i.1 + tri fuel = tri degree) (h1 : i.2.1 = i.1 + k) (h2 : i.2.2.1 = i.1 + k + 1)
    (h3 : i.2.2.2 = degree + 1 + i.1) :
    okL (dcNextO degree) (dcOkO (tri degree) (tri (degree + 1)) degree) (List.range' k fuel) i := by
  induction fuel generalizing k i with
  | zero => trivial
  | succ fuel ih =>
    rw [List.range'_succ]
    have hf : degree - k = fuel + 1 := by omega
    have ht : tri (fuel + 1) = tri fuel + (fuel + 1) := rfl
    have hn : tri (degree + 1) = tri degree + (degree + 1) := rfl
    have hle := le_tri fuel
    refine ⟨?_, ?_⟩
    · apply dcInner_ok <;> simp only [List.length_range] <;> omega
    · apply ih
      · omega
      all_goals simp only [dcNextO, dcInner_fold, List.length_range]
      all_goals omega

theorem dcOuter_idx (degree fuel k : Nat) (i : Ix4) (hk : k + fuel = degree) :
    ((List.range' k fuel).foldl (dcNextO degree) i).1 = i.1 + tri fuel := by
  induction fuel generalizing k i with
  | zero => rfl
  | succ fuel ih =>
    rw [List.range'_succ, List.foldl_cons, ih (k + 1) _ (by omega)]
    simp only [dcNextO, dcInner_fold, List.length_range, tri]
    omega

/-- `de_casteljau_one_round` (triangle) on a `dimension × numNodes degree` array (≥ 1 row): every row is the model's
    `dcRound3` (the two nested loops with their running parents and the running `index`) -/
theorem de_casteljau_one_round_src (nodes : List (List K)) (degree : Nat) (hne : nodes ≠ [])
    (hrect : ∀ r ∈ nodes, r.length = numNodes degree) (l1 l2 l3 : K) :
    Src.Py.triangle_helpers.de_casteljau_one_round nodes degree l1 l2 l3 =
      .ok (nodes.map (dcRound3 degree ⟨l1, l2, l3⟩)) := by
  unfold Src.Py.triangle_helpers.de_casteljau_one_round
  rw [shape_rect nodes _ hne hrect]
  simp only [Src.Py.Rt.bind_ok]
  have hn : numNodes degree = tri degree + (degree + 1) := by rw [numNodes_eq_tri]; rfl
  have hnew : ((numNodes degree : Int) - (degree : Int)) - 1 = ((tri degree : Nat) : Int) := by omega
  rw [hnew, if_neg (by omega)]
  simp only [Int.toNat_natCast]
  rw [mcNew_map]
  -- inner loop, for every state of the outer loop
  have inner := fun (k : Nat) => blockLoop nodes
    (fun (st : List (List K) × Ix4) (unused_j : Nat) =>
      Rt.bind (List.mapM (fun r => Rt.idx r st.2.2.1) nodes) fun t4 =>
      Rt.bind (List.mapM (fun r => Rt.idx r st.2.2.2.1) nodes) fun t5 =>
      Rt.bind (Src.Py.Rt.vzip (fun x y => x + y) (List.map (fun x => l1 * x) t4) (List.map (fun x => l2 * x) t5)) fun t6 =>
      Rt.bind (List.mapM (fun r => Rt.idx r st.2.2.2.2) nodes) fun t7 =>
      Rt.bind (Src.Py.Rt.vzip (fun x y => x + y) t6 (List.map (fun x => l3 * x) t7)) fun t8 =>
      Rt.bind (Rt.pushCol (tri degree) st.1 (st.2.1 : Int) t8) fun new_nodes =>
      .ok (new_nodes, st.2.1 + 1, st.2.2.1 + 1, st.2.2.2.1 + 1, st.2.2.2.2 + 1))
    dcNextI (dcBlkI ⟨l1, l2, l3⟩) (dcOkI (tri degree) (numNodes degree)) (fun i => i.1)
    (by
      intro pre i x hok hpre
      obtain ⟨h1, h2, h3, h4⟩ := hok
      dsimp only
      rw [mapM_idx nodes _ _ h2 hrect, mapM_idx nodes _ _ h3 hrect, mapM_idx nodes _ _ h4 hrect]
      simp only [Src.Py.Rt.bind_ok, List.map_map, Function.comp_def]
      rw [vzip_map_same]
      simp only [Src.Py.Rt.bind_ok]
      rw [vzip_map_same]
      simp only [Src.Py.Rt.bind_ok]
      rw [pushCol_map _ nodes pre _ i.1 h1 hpre]
      rfl)
    (by intro i x r _ _; rfl)
    (List.range (degree - k))
  -- outer loop
  have outer := blockLoop nodes
    (fun (st : List (List K) × Ix4) (k : Nat) =>
      Rt.bind (Rt.foldM (List.range (Int.toNat ((degree : Int) - (k : Int)))) st
        (fun (st : List (List K) × Ix4) (unused_j : Nat) =>
          Rt.bind (List.mapM (fun r => Rt.idx r st.2.2.1) nodes) fun t4 =>
          Rt.bind (List.mapM (fun r => Rt.idx r st.2.2.2.1) nodes) fun t5 =>
          Rt.bind (Src.Py.Rt.vzip (fun x y => x + y) (List.map (fun x => l1 * x) t4) (List.map (fun x => l2 * x) t5)) fun t6 =>
          Rt.bind (List.mapM (fun r => Rt.idx r st.2.2.2.2) nodes) fun t7 =>
          Rt.bind (Src.Py.Rt.vzip (fun x y => x + y) t6 (List.map (fun x => l3 * x) t7)) fun t8 =>
          Rt.bind (Rt.pushCol (tri degree) st.1 (st.2.1 : Int) t8) fun new_nodes =>
          .ok (new_nodes, st.2.1 + 1, st.2.2.1 + 1, st.2.2.2.1 + 1, st.2.2.2.2 + 1))) fun st' =>
      .ok (st'.1, st'.2.1, st'.2.2.1 + 1, st'.2.2.2.1 + 1, st'.2.2.2.2))
    (dcNextO degree) (dcBlkO ⟨l1, l2, l3⟩ degree) (dcOkO (tri degree) (numNodes degree) degree) (fun i => i.1)
    (by
      intro pre i k hok hpre
      have hk : Int.toNat ((degree : Int) - (k : Int)) = degree - k := by omega
      rw [hk, (inner k pre i hok hpre).1]
      rfl)
    (by
      intro i k r hok hr
      simp only [dcNextO, dcBlkO, dcInner_fold, dcInner_len])
    (List.range degree) (fun _ => []) (0, 0, 1, degree + 1)
    (by
      rw [List.range_eq_range', numNodes_eq_tri]
      exact dcOuter_ok degree degree 0 _ (by omega) (by simp) rfl rfl rfl)
    (by intro r _; rfl)
  obtain ⟨h1, h2⟩ := outer
  refine (bind_eq _ _ _ h1).trans ?_
  · dsimp only
    rw [mcFreeze_map]
    · congr 1
      apply List.map_congr_left
      intro r _
      rw [List.nil_append, List.range_eq_range', dcOuter_blocks]
      rfl
    · intro r hr
      have := h2 r hr
      rw [this, List.range_eq_range', dcOuter_idx degree degree 0 _ (by omega)]
      simp

end DC

/-! ## `jacobian_s`, `jacobian_t`, `jacobian_both` (hazmat/triangle_helpers.py) -/

section Jac

theorem rev_range'_succ (nv : Nat) :
    List.reverse (List.range' 1 (nv + 1)) = (nv + 1) :: List.reverse (List.range' 1 nv) := by
  rw [List.range'_1_concat, List.reverse_append]
  simp only [List.reverse_cons, List.reverse_nil, List.nil_append, List.singleton_append]
  congr 1
  omega

theorem mmap_map (f : K → K) (nodes : List (List K)) (g : List K → List K) :
    Src.Py.Rt.mmap f (nodes.map g) = nodes.map fun r => (g r).map f := by
  simp only [Src.Py.Rt.mmap, List.map_map, Function.comp_def]

/-- running indices `(index, i, j)` of `jacobian_t` -/
abbrev Ix3 := Nat × Nat × Nat

def jtNextI (i : Ix3) (_ : Nat) : Ix3 := (i.1 + 1, i.2.1 + 1, i.2.2 + 1)
def jtBlkI (i : Ix3) (_ : Nat) (r : List K) : List K := [seq r i.2.2 - seq r i.2.1]
def jtOkI (kc n : Nat) (i : Ix3) (_ : Nat) : Prop := i.1 < kc ∧ i.2.1 < n ∧ i.2.2 < n

theorem jtInner_blocks (r : List K) (xs : List Nat) (i : Ix3) :
    blocks jtNextI jtBlkI xs i r = (List.range xs.length).map fun t => seq r (i.2.2 + t) - seq r (i.2.1 + t) := by
  induction xs generalizing i with
  | nil => rfl
  | cons x xs ih =>
    simp only [blocks, jtBlkI, List.length_cons, ih, jtNextI, List.singleton_append, List.range_succ_eq_map,
      List.map_cons, List.map_map, Function.comp_def, Nat.add_zero]
    congr 1
    apply List.map_congr_left
    intro t _
    congr 2 <;> omega

theorem jtInner_fold (xs : List Nat) (i : Ix3) :
    xs.foldl jtNextI i = (i.1 + xs.length, i.2.1 + xs.length, i.2.2 + xs.length) := by
  induction xs generalizing i with
  | nil => rfl
  | cons x xs ih =>
    simp only [List.foldl_cons, ih, jtNextI, List.length_cons]
    refine Prod.ext ?_ (Prod.ext ?_ ?_) <;> simp only <;> omega

theorem jtInner_ok (kc n : Nat) (xs : List Nat) (i : Ix3) (h1 : i.1 + xs.length ≤ kc) (h2 : i.2.1 + xs.length ≤ n)
    (h3 : i.2.2 + xs.length ≤ n) : okL jtNextI (jtOkI kc n) xs i := by
  induction xs generalizing i with
  | nil => trivial
  | cons x xs ih =>
    simp only [List.length_cons] at h1 h2 h3
    refine ⟨⟨by omega, by omega, by omega⟩, ih _ ?_ ?_ ?_⟩ <;> simp only [jtNextI] <;> omega

def jtNextO (i : Ix3) (nv : Nat) : Ix3 :=
  let j := (List.range nv).foldl jtNextI i
  (j.1, j.2.1 + 1, j.2.2)

def jtBlkO (i : Ix3) (nv : Nat) (r : List K) : List K := blocks jtNextI jtBlkI (List.range nv) i r

def jtOkO (kc n : Nat) (i : Ix3) (nv : Nat) : Prop := okL jtNextI (jtOkI kc n) (List.range nv) i

theorem jtOuter_blocks (c : K) (r : List K) (nv : Nat) (i : Ix3) :
    (blocks jtNextO jtBlkO (List.reverse (List.range' 1 nv)) i r).map (fun x => c * x) =
      (jacIndexPairs.outer nv i.2.1 i.2.2).map fun p => c * (seq r p.2 - seq r p.1) := by
  induction nv generalizing i with
  | zero => rfl
  | succ nv ih =>
    rw [rev_range'_succ]
    simp only [blocks, jacIndexPairs.outer, List.map_append, ih, jtBlkO, jtInner_blocks, List.length_range,
      List.map_map, Function.comp_def, jtNextO, jtInner_fold, Nat.add_assoc]

theorem jtOuter_ok (degree nv : Nat) (i : Ix3) (hidx : i.1 + tri nv = tri degree) (h1 : i.2.1 + nv = i.1 + degree)
    (h2 : i.2.2 = degree + 1 + i.1) :
    okL jtNextO (jtOkO (tri degree) (tri (degree + 1))) (List.reverse (List.range' 1 nv)) i := by
  induction nv generalizing i with
  | zero => trivial
  | succ nv ih =>
    rw [rev_range'_succ]
    have ht : tri (nv + 1) = tri nv + (nv + 1) := rfl
    have hn : tri (degree + 1) = tri degree + (degree + 1) := rfl
    have hle := le_tri nv
    refine ⟨?_, ?_⟩
    · apply jtInner_ok <;> simp only [List.length_range] <;> omega
    · apply ih
      all_goals simp only [jtNextO, jtInner_fold, List.length_range]
      all_goals omega

theorem jtOuter_idx (nv : Nat) (i : Ix3) :
    ((List.reverse (List.range' 1 nv)).foldl jtNextO i).1 = i.1 + tri nv := by
  induction nv generalizing i with
  | zero => rfl
  | succ nv ih =>
    rw [rev_range'_succ, List.foldl_cons, ih]
    simp only [jtNextO, jtInner_fold, List.length_range, tri]
    omega

/-- `jacobian_t` on a `dimension × numNodes degree` array: every row is the model's `jacobianTRow` -/
theorem jacobian_t_src (nodes : List (List K)) (degree : Nat) (hrect : ∀ r ∈ nodes, r.length = numNodes degree) :
    Src.Py.jacobian_t nodes degree nodes.length = .ok (nodes.map (jacobianTRow degree)) := by
  unfold Src.Py.jacobian_t
  simp only [half_eq_tri, Nat.sub_zero]
  rw [mcNew_map]
  have inner := fun (nv : Nat) => blockLoop nodes
    (fun (st : List (List K) × Ix3) (_x : Nat) =>
      Rt.bind (List.mapM (fun r => Rt.idx r st.2.2.2) nodes) fun t3 =>
      Rt.bind (List.mapM (fun r => Rt.idx r st.2.2.1) nodes) fun t4 =>
      Rt.bind (Src.Py.Rt.vzip (fun x y => x - y) t3 t4) fun t5 =>
      Rt.bind (Rt.pushCol (tri degree) st.1 (st.2.1 : Int) t5) fun result =>
      .ok (result, st.2.1 + 1, st.2.2.1 + 1, st.2.2.2 + 1))
    jtNextI jtBlkI (jtOkI (tri degree) (numNodes degree)) (fun i => i.1)
    (by
      intro pre i x hok hpre
      obtain ⟨h1, h2, h3⟩ := hok
      dsimp only
      rw [mapM_idx nodes _ _ h3 hrect, mapM_idx nodes _ _ h2 hrect]
      simp only [Src.Py.Rt.bind_ok]
      rw [vzip_map_same]
      simp only [Src.Py.Rt.bind_ok]
      rw [pushCol_map _ nodes pre _ i.1 h1 hpre]
      rfl)
    (by intro i x r _ _; rfl)
    (List.range nv)
  have outer := blockLoop nodes
    (fun (st : List (List K) × Ix3) (nv : Nat) =>
      Rt.bind (Rt.foldM (List.range nv) st
        (fun (st : List (List K) × Ix3) (_x : Nat) =>
          Rt.bind (List.mapM (fun r => Rt.idx r st.2.2.2) nodes) fun t3 =>
          Rt.bind (List.mapM (fun r => Rt.idx r st.2.2.1) nodes) fun t4 =>
          Rt.bind (Src.Py.Rt.vzip (fun x y => x - y) t3 t4) fun t5 =>
          Rt.bind (Rt.pushCol (tri degree) st.1 (st.2.1 : Int) t5) fun result =>
          .ok (result, st.2.1 + 1, st.2.2.1 + 1, st.2.2.2 + 1))) fun st' =>
      .ok (st'.1, st'.2.1, st'.2.2.1 + 1, st'.2.2.2))
    jtNextO jtBlkO (jtOkO (tri degree) (numNodes degree)) (fun i => i.1)
    (by
      intro pre i nv hok hpre
      rw [(inner nv pre i hok hpre).1]
      rfl)
    (by
      intro i nv r hok hr
      simp only [jtNextO, jtBlkO, jtInner_fold, jtInner_blocks, List.length_map, List.length_range])
    (List.reverse (List.range' 1 degree)) (fun _ => []) (0, 0, degree + 1)
    (by
      rw [numNodes_eq_tri]
      exact jtOuter_ok degree degree _ (by simp) (by simp) rfl)
    (by intro r _; rfl)
  obtain ⟨h1, h2⟩ := outer
  refine (bind_eq _ _ _ h1).trans ?_
  dsimp only
  rw [mcFreeze_map]
  · simp only [Src.Py.Rt.bind_ok, mmap_map]
    congr 1
    apply List.map_congr_left
    intro r _
    rw [List.nil_append, jtOuter_blocks]
    rfl
  · intro r hr
    rw [h2 r hr, jtOuter_idx]
    simp

/-- running indices `(index, i)` of `jacobian_s` -/
abbrev Ix2 := Nat × Nat

def jsNextI (i : Ix2) (_ : Nat) : Ix2 := (i.1 + 1, i.2 + 1)
def jsBlkI (i : Ix2) (_ : Nat) (r : List K) : List K := [seq r (i.2 + 1) - seq r i.2]
def jsOkI (kc n : Nat) (i : Ix2) (_ : Nat) : Prop := i.1 < kc ∧ i.2 + 1 < n

theorem jsInner_blocks (r : List K) (xs : List Nat) (i : Ix2) :
    blocks jsNextI jsBlkI xs i r = (List.range xs.length).map fun t => seq r (i.2 + t + 1) - seq r (i.2 + t) := by
  induction xs generalizing i with
  | nil => rfl
  | cons x xs ih =>
    simp only [blocks, jsBlkI, List.length_cons, ih, jsNextI, List.singleton_append, List.range_succ_eq_map,
      List.map_cons, List.map_map, Function.comp_def, Nat.add_zero]
    congr 1
    apply List.map_congr_left
    intro t _
    congr 2 <;> omega

theorem jsInner_fold (xs : List Nat) (i : Ix2) :
    xs.foldl jsNextI i = (i.1 + xs.length, i.2 + xs.length) := by
  induction xs generalizing i with
  | nil => rfl
  | cons x xs ih =>
    simp only [List.foldl_cons, ih, jsNextI, List.length_cons]
    refine Prod.ext ?_ ?_ <;> simp only <;> omega

theorem jsInner_ok (kc n : Nat) (xs : List Nat) (i : Ix2) (h1 : i.1 + xs.length ≤ kc) (h2 : i.2 + xs.length + 1 ≤ n ∨ xs = []) :
    okL jsNextI (jsOkI kc n) xs i := by
  induction xs generalizing i with
  | nil => trivial
  | cons x xs ih =>
    simp only [List.length_cons] at h1 h2
    have h2' : i.2 + (xs.length + 1) + 1 ≤ n := by
      rcases h2 with h | h
      · exact h
      · exact absurd h (List.cons_ne_nil _ _)
    refine ⟨⟨by omega, by omega⟩, ih _ ?_ (Or.inl ?_)⟩ <;> simp only [jsNextI] <;> omega

def jsNextO (i : Ix2) (nv : Nat) : Ix2 :=
  let j := (List.range nv).foldl jsNextI i
  (j.1, j.2 + 1)

def jsBlkO (i : Ix2) (nv : Nat) (r : List K) : List K := blocks jsNextI jsBlkI (List.range nv) i r

def jsOkO (kc n : Nat) (i : Ix2) (nv : Nat) : Prop := okL jsNextI (jsOkI kc n) (List.range nv) i

theorem jsOuter_blocks (c : K) (r : List K) (nv : Nat) (i : Ix2) (j : Nat) :
    (blocks jsNextO jsBlkO (List.reverse (List.range' 1 nv)) i r).map (fun x => c * x) =
      (jacIndexPairs.outer nv i.2 j).map fun p => c * (seq r (p.1 + 1) - seq r p.1) := by
  induction nv generalizing i j with
  | zero => rfl
  | succ nv ih =>
    rw [rev_range'_succ]
    simp only [blocks, jacIndexPairs.outer, List.map_append, ih _ (j + nv + 1), jsBlkO, jsInner_blocks, List.length_range,
      List.map_map, Function.comp_def, jsNextO, jsInner_fold, Nat.add_assoc]

theorem jsOuter_ok (degree nv : Nat) (i : Ix2) (hidx : i.1 + tri nv = tri degree) (h1 : i.2 + nv = i.1 + degree) :
    okL jsNextO (jsOkO (tri degree) (tri (degree + 1))) (List.reverse (List.range' 1 nv)) i := by
  induction nv generalizing i with
  | zero => trivial
  | succ nv ih =>
    rw [rev_range'_succ]
    have ht : tri (nv + 1) = tri nv + (nv + 1) := rfl
    have hn : tri (degree + 1) = tri degree + (degree + 1) := rfl
    have hle := le_tri nv
    refine ⟨?_, ?_⟩
    · apply jsInner_ok
      · simp only [List.length_range]; omega
      · left; simp only [List.length_range]; omega
    · apply ih
      all_goals simp only [jsNextO, jsInner_fold, List.length_range]
      all_goals omega

theorem jsOuter_idx (nv : Nat) (i : Ix2) :
    ((List.reverse (List.range' 1 nv)).foldl jsNextO i).1 = i.1 + tri nv := by
  induction nv generalizing i with
  | zero => rfl
  | succ nv ih =>
    rw [rev_range'_succ, List.foldl_cons, ih]
    simp only [jsNextO, jsInner_fold, List.length_range, tri]
    omega

/-- `jacobian_s` on a `dimension × numNodes degree` array: every row is the model's `jacobianSRow` -/
theorem jacobian_s_src (nodes : List (List K)) (degree : Nat) (hrect : ∀ r ∈ nodes, r.length = numNodes degree) :
    Src.Py.jacobian_s nodes degree nodes.length = .ok (nodes.map (jacobianSRow degree)) := by
  unfold Src.Py.jacobian_s
  simp only [half_eq_tri, Nat.sub_zero]
  rw [mcNew_map]
  have inner := fun (nv : Nat) => blockLoop nodes
    (fun (st : List (List K) × Ix2) (_x : Nat) =>
      Rt.bind (List.mapM (fun r => Rt.idx r (st.2.2 + 1)) nodes) fun t3 =>
      Rt.bind (List.mapM (fun r => Rt.idx r st.2.2) nodes) fun t4 =>
      Rt.bind (Src.Py.Rt.vzip (fun x y => x - y) t3 t4) fun t5 =>
      Rt.bind (Rt.pushCol (tri degree) st.1 (st.2.1 : Int) t5) fun result =>
      .ok (result, st.2.1 + 1, st.2.2 + 1))
    jsNextI jsBlkI (jsOkI (tri degree) (numNodes degree)) (fun i => i.1)
    (by
      intro pre i x hok hpre
      obtain ⟨h1, h2⟩ := hok
      dsimp only
      rw [mapM_idx nodes _ _ h2 hrect, mapM_idx nodes _ _ (by omega) hrect]
      simp only [Src.Py.Rt.bind_ok]
      rw [vzip_map_same]
      simp only [Src.Py.Rt.bind_ok]
      rw [pushCol_map _ nodes pre _ i.1 h1 hpre]
      rfl)
    (by intro i x r _ _; rfl)
    (List.range nv)
  have outer := blockLoop nodes
    (fun (st : List (List K) × Ix2) (nv : Nat) =>
      Rt.bind (Rt.foldM (List.range nv) st
        (fun (st : List (List K) × Ix2) (_x : Nat) =>
          Rt.bind (List.mapM (fun r => Rt.idx r (st.2.2 + 1)) nodes) fun t3 =>
          Rt.bind (List.mapM (fun r => Rt.idx r st.2.2) nodes) fun t4 =>
          Rt.bind (Src.Py.Rt.vzip (fun x y => x - y) t3 t4) fun t5 =>
          Rt.bind (Rt.pushCol (tri degree) st.1 (st.2.1 : Int) t5) fun result =>
          .ok (result, st.2.1 + 1, st.2.2 + 1))) fun st' =>
      .ok (st'.1, st'.2.1, st'.2.2 + 1))
    jsNextO jsBlkO (jsOkO (tri degree) (numNodes degree)) (fun i => i.1)
    (by
      intro pre i nv hok hpre
      rw [(inner nv pre i hok hpre).1]
      rfl)
    (by
      intro i nv r hok hr
      simp only [jsNextO, jsBlkO, jsInner_fold, jsInner_blocks, List.length_map, List.length_range])
    (List.reverse (List.range' 1 degree)) (fun _ => []) (0, 0)
    (by
      rw [numNodes_eq_tri]
      exact jsOuter_ok degree degree _ (by simp) (by simp))
    (by intro r _; rfl)
  obtain ⟨h1, h2⟩ := outer
  refine (bind_eq _ _ _ h1).trans ?_
  dsimp only
  rw [mcFreeze_map]
  · simp only [Src.Py.Rt.bind_ok, mmap_map]
    congr 1
    apply List.map_congr_left
    intro r _
    rw [List.nil_append, jsOuter_blocks _ _ _ _ (degree + 1)]
    rfl
  · intro r hr
    rw [h2 r hr, jsOuter_idx]
    simp

theorem length_jacOuter (nv i j : Nat) : (jacIndexPairs.outer nv i j).length = tri nv := by
  induction nv generalizing i j with
  | zero => rfl
  | succ nv ih =>
    simp only [jacIndexPairs.outer, List.length_append, List.length_map, List.length_range, ih, tri]
    omega

theorem length_jacobianSRow (degree : Nat) (r : List K) : (jacobianSRow degree r).length = tri degree := by
  simp only [jacobianSRow, jacIndexPairs, List.length_map, length_jacOuter]

theorem length_jacobianTRow (degree : Nat) (r : List K) : (jacobianTRow degree r).length = tri degree := by
  simp only [jacobianTRow, jacIndexPairs, List.length_map, length_jacOuter]

theorem asShape_map (d k : Nat) (nodes : List (List K)) (f : List K → List K) (hd : nodes.length = d)
    (hf : ∀ r ∈ nodes, (f r).length = k) : Src.Py.Rt.asShape d k (nodes.map f) = .ok (nodes.map f) := by
  unfold Src.Py.Rt.asShape
  have hall : ((nodes.map f).all fun r => r.length == k) = true := by
    rw [List.all_eq_true]
    intro x hx
    obtain ⟨r, hr, rfl⟩ := List.mem_map.mp hx
    simp [hf r hr]
  rw [if_pos ⟨by simp [hd], hall⟩]

/-- `jacobian_both` (≥ 1 row): the rows of `B_s` followed by the rows of `B_t` -/
theorem jacobian_both_src (nodes : List (List K)) (degree : Nat) (hne : nodes ≠ [])
    (hrect : ∀ r ∈ nodes, r.length = numNodes degree) :
    Src.Py.jacobian_both nodes degree nodes.length = .ok (jacobianBoth degree nodes) := by
  unfold Src.Py.jacobian_both
  rw [shape_rect nodes _ hne hrect]
  simp only [Src.Py.Rt.bind_ok]
  have hn : numNodes degree = tri degree + (degree + 1) := by rw [numNodes_eq_tri]; rfl
  have hnew : ((numNodes degree : Int) - (degree : Int)) - 1 = ((tri degree : Nat) : Int) := by omega
  rw [hnew, if_neg (by omega), jacobian_s_src nodes degree hrect, jacobian_t_src nodes degree hrect]
  simp only [Int.toNat_natCast, Src.Py.Rt.bind_ok]
  have h0 : Src.Py.Rt.mcRows0 (Src.Py.Rt.mcNew (2 * nodes.length) : List (List K)) nodes.length (tri degree)
      (nodes.map (jacobianSRow degree)) = .ok (nodes.map (jacobianSRow degree)) := by
    unfold Src.Py.Rt.mcRows0
    rw [if_pos ⟨by simp [Src.Py.Rt.mcNew]; omega, by simp [Src.Py.Rt.mcNew]⟩]
    exact asShape_map _ _ _ _ rfl (fun r _ => length_jacobianSRow degree r)
  rw [h0]
  simp only [Src.Py.Rt.bind_ok]
  rw [asShape_map _ _ _ _ (by omega) (fun r _ => length_jacobianTRow degree r)]
  rfl

end Jac

/-! ## `evaluate_barycentric` and the routines built on it (any field) -/

section Field
variable {F : Type} [Field F] [LinearOrder F]

open BezierVerif.SrcPyKernels (evaluate_multi_barycentric_src ofInt_nat')

theorem tri_mono {a b : Nat} (h : a ≤ b) : tri a ≤ tri b := by
  induction b with
  | zero => have : a = 0 := by omega
            subst this; exact Nat.le_refl _
  | succ b ih =>
    by_cases hab : a = b + 1
    · subst hab; exact Nat.le_refl _
    · have := ih (by omega)
      simp only [tri]; omega

/-- a loop whose state after `t` steps is `inv t` -/
theorem foldM_seq {α σ : Type} (xs : List α) (G : σ → α → Except Err σ) (inv : Nat → σ)
    (h : ∀ t (ht : t < xs.length), G (inv t) xs[t] = .ok (inv (t + 1))) :
    Src.Py.Rt.foldM xs (inv 0) G = .ok (inv xs.length) := by
  induction xs generalizing inv with
  | nil => rfl
  | cons x xs ih =>
    unfold Src.Py.Rt.foldM
    rw [show x = (x :: xs)[0] from rfl, h 0 (by simp)]
    simp only [Src.Py.Rt.bind_ok]
    have := ih (fun t => inv (t + 1)) (fun t ht => by
      have := h (t + 1) (by simp; omega)
      simpa using this)
    simpa using this

theorem idxI_nat (r : List F) (j : Nat) : Src.Py.Rt.idxI r ((j : Nat) : Int) = Src.Py.Rt.idx r j := by
  unfold Src.Py.Rt.idxI
  rw [if_pos (by omega)]
  simp

theorem slice_nat_nat {α : Type} (r : List α) (a b : Nat) (ha : a ≤ r.length) (hb : b ≤ r.length) :
    Src.Py.Rt.slice r (some ((a : Nat) : Int)) (some ((b : Nat) : Int)) = (r.drop a).take (b - a) := by
  unfold Src.Py.Rt.slice Src.Py.Rt.sliceIdx
  simp only [Int.toNat_natCast]
  rw [if_neg (by omega), if_neg (by omega), Nat.min_eq_left ha, Nat.min_eq_left hb]

/-- the running `(binom_val, index)` of `evaluate_barycentric` do not depend on the row -/
def triBI (degree n : Nat) : Nat → F × Nat
  | 0 => (1, n - 1)
  | t + 1 => (((triBI degree n t).1 * ((degree - 1 - t + 1 : Nat) : F)) / ((degree - (degree - 1 - t) : Nat) : F),
      (triBI degree n t).2 - 1 + (degree - 1 - t) - degree)

theorem triLoop_bi (degree : Nat) (row : List F) (w : Bary F) (t : Nat) :
    ((Py.triLoop 55 degree row w t).binom, (Py.triLoop 55 degree row w t).index) = triBI degree row.length t := by
  induction t with
  | zero => rfl
  | succ t ih =>
    have h1 : (Py.triLoop 55 degree row w t).binom = (triBI degree row.length t).1 := congrArg Prod.fst ih
    have h2 : (Py.triLoop 55 degree row w t).index = (triBI degree row.length t).2 := congrArg Prod.snd ih
    simp only [Py.triLoop, Py.triStep, triBI, h1, h2]

theorem triBI_index (degree t : Nat) (ht : t ≤ degree) :
    (triBI (F := F) degree (tri (degree + 1)) t).2 + tri (t + 1) = tri (degree + 1) := by
  induction t with
  | zero =>
    have := le_tri (degree + 1)
    simp only [triBI, tri]; omega
  | succ t ih =>
    have h := ih (by omega)
    have hm : tri (t + 2) ≤ tri (degree + 1) := tri_mono (by omega)
    have e1 : tri (t + 2) = tri (t + 1) + (t + 2) := rfl
    have e2 : tri (t + 1 + 1) = tri (t + 1) + (t + 2) := rfl
    simp only [triBI, e2]
    omega

/-- `evaluate_barycentric` on a `dimension × numNodes degree` array (≥ 1 row): the row loop with the running
    binomial (a number of the field, as in Python), the running `index` / `new_index` and the slice handed to the
    curve kernel is the model's `Py.evalBarycentric` with the switch 55 of `evaluate_multi_barycentric` -/
theorem evaluate_barycentric_src (nodes : List (List F)) (degree : Nat) (hne : nodes ≠ [])
    (hrect : ∀ r ∈ nodes, r.length = numNodes degree) (l1 l2 l3 : F) :
    Src.Py.evaluate_barycentric nodes degree l1 l2 l3 = .ok (Py.evalBarycentric 55 degree nodes ⟨l1, l2, l3⟩) := by
  unfold Src.Py.evaluate_barycentric
  rw [shape_rect nodes _ hne hrect]
  simp only [Src.Py.Rt.bind_ok]
  have hn : numNodes degree = tri (degree + 1) := numNodes_eq_tri degree
  have hpos : 1 ≤ numNodes degree := by rw [hn]; exact le_tri (degree + 1) |>.trans' (by omega)
  have hidx0 : ((numNodes degree : Int) - 1) = ((numNodes degree - 1 : Nat) : Int) := by omega
  rw [hidx0]
  simp only [idxI_nat]
  rw [mapM_idx nodes _ _ (by omega) hrect]
  simp only [Src.Py.Rt.bind_ok]
  have hinit : Src.Py.Rt.vzipInto (fun x y => x + y) (List.replicate nodes.length (0 : F))
      (nodes.map fun r => seq r (numNodes degree - 1)) =
        .ok (nodes.map fun row => (Py.triLoop 55 degree row ⟨l1, l2, l3⟩ 0).result) := by
    unfold Src.Py.Rt.vzipInto
    rw [if_pos (by simp)]
    congr 1
    apply List.ext_getElem
    · simp
    · intro k h1 h2
      have hk : k < nodes.length := by simpa using h2
      simp [Py.triLoop, hrect nodes[k] (List.getElem_mem hk)]
  rw [hinit]
  simp only [Src.Py.Rt.bind_ok]
  have hdeg : Int.toNat ((degree : Int) - 1 + 1) = degree := by omega
  rw [hdeg]
  have hloop := foldM_seq (List.reverse (List.range degree))
    (fun (st : F × List F × Int) (k : Nat) =>
      Rt.bind (Src.Py.evaluate_multi_barycentric
        (Src.Py.Rt.cols nodes (some (st.2.2 - 1 - (degree : Int) + (k : Int))) (some (st.2.2 - 1 + 1))) l1 l2) fun col_result =>
      Rt.bind (Src.Py.Rt.vzip (fun x y => x + y) (List.map (fun x => x * l3) st.2.1)
        (List.map (fun x => (st.1 * ((k + 1 : Nat) : F)) / (Src.Py.Rt.ofInt ((degree : Int) - (k : Int))) * x) col_result)) fun result =>
      .ok ((st.1 * ((k + 1 : Nat) : F)) / (Src.Py.Rt.ofInt ((degree : Int) - (k : Int))), result,
        st.2.2 - 1 - (degree : Int) + (k : Int)))
    (fun t => ((triBI (F := F) degree (numNodes degree) t).1,
      nodes.map (fun row => (Py.triLoop 55 degree row ⟨l1, l2, l3⟩ t).result),
      (((triBI (F := F) degree (numNodes degree) t).2 : Nat) : Int)))
    (by
      intro t ht
      have ht' : t < degree := by simpa using ht
      have hk : (List.reverse (List.range degree))[t] = degree - 1 - t := by
        simp [List.getElem_reverse]
      rw [hk]
      dsimp only
      have hI := triBI_index (F := F) degree t (by omega)
      have hm : tri (t + 2) ≤ tri (degree + 1) := tri_mono (by omega)
      have e1 : tri (t + 2) = tri (t + 1) + (t + 2) := rfl
      rw [← hn] at hI hm
      generalize hIdef : (triBI (F := F) degree (numNodes degree) t).2 = I at hI ⊢
      have hlo : ((I : Int) - 1 - (degree : Int) + ((degree - 1 - t : Nat) : Int)) = ((I - (t + 2) : Nat) : Int) := by omega
      have hhi : ((I : Int) - 1 + 1) = ((I : Nat) : Int) := by omega
      have hof : ((degree : Int) - ((degree - 1 - t : Nat) : Int)) = ((degree - (degree - 1 - t) : Nat) : Int) := by omega
      rw [hlo, hhi, hof, ofInt_nat']
      have hcols : Src.Py.Rt.cols nodes (some ((I - (t + 2) : Nat) : Int)) (some ((I : Nat) : Int)) =
          nodes.map fun r => triSlice r (I - (t + 2)) (I - 1) := by
        unfold Src.Py.Rt.cols
        apply List.map_congr_left
        intro r hr
        rw [slice_nat_nat r _ _ (by rw [hrect r hr]; omega) (by rw [hrect r hr]; omega)]
        unfold triSlice
        congr 1
        omega
      rw [hcols, evaluate_multi_barycentric_src _ (t + 2) (by omega) (by
        intro x hx
        obtain ⟨r, hr, rfl⟩ := List.mem_map.mp hx
        simp only [triSlice, List.length_take, List.length_drop, hrect r hr]
        omega)]
      simp only [Src.Py.Rt.bind_ok, List.map_map, Function.comp_def]
      rw [vzip_map_same]
      simp only [Src.Py.Rt.bind_ok]
      have hnew : (triBI (F := F) degree (numNodes degree) (t + 1)).2 = I - (t + 2) := by
        simp only [triBI, hIdef]; omega
      have hb : (triBI (F := F) degree (numNodes degree) (t + 1)).1 =
          (triBI (F := F) degree (numNodes degree) t).1 * ((degree - 1 - t + 1 : Nat) : F) /
            ((degree - (degree - 1 - t) : Nat) : F) := rfl
      rw [hnew, hb]
      congr 2
      refine Prod.ext ?_ rfl
      apply List.map_congr_left
      intro row hrow
      have hbi := triLoop_bi degree row ⟨l1, l2, l3⟩ t
      rw [hrect row hrow] at hbi
      have h1 : (Py.triLoop 55 degree row ⟨l1, l2, l3⟩ t).binom = (triBI degree (numNodes degree) t).1 :=
        congrArg Prod.fst hbi
      have h2 : (Py.triLoop 55 degree row ⟨l1, l2, l3⟩ t).index = I := by
        rw [← hIdef]; exact congrArg Prod.snd hbi
      simp only [Py.triLoop, Py.triStep, h1, h2]
      congr 4
      omega)
  refine (bind_eq _ _ _ hloop).trans ?_
  simp only [List.length_reverse, List.length_range]
  rfl

/-- `for index, row in enumerate(param_vals): result[:, index] = column(row)`: the loop state is the array alone -/
theorem enumLoop {W : Type} (nodes : List (List F)) (kc : Nat) (enc : W → List F) (val : List F → W → F)
    (G : List (List F) → Nat × List F → Except Err (List (List F)))
    (hG : ∀ (pre : List F → List F) (j : Nat) (w : W), j < kc → (∀ r ∈ nodes, (pre r).length = j) →
      G (nodes.map pre) (j, enc w) = .ok (nodes.map fun r => pre r ++ [val r w])) :
    ∀ (ws : List W) (j0 : Nat) (pre : List F → List F), j0 + ws.length ≤ kc → (∀ r ∈ nodes, (pre r).length = j0) →
      Src.Py.Rt.foldM (List.zip (List.range' j0 ws.length) (ws.map enc)) (nodes.map pre) G =
        .ok (nodes.map fun r => pre r ++ ws.map (val r)) := by
  intro ws
  induction ws with
  | nil => intro j0 pre _ _; simp [Src.Py.Rt.foldM]
  | cons w ws ih =>
    intro j0 pre hj hpre
    simp only [List.length_cons] at hj
    simp only [List.length_cons, List.range'_succ, List.map_cons, List.zip_cons_cons, Src.Py.Rt.foldM]
    rw [hG pre j0 w (by omega) hpre]
    simp only [Src.Py.Rt.bind_ok]
    rw [ih (j0 + 1) (fun r => pre r ++ [val r w]) (by omega) (by intro r hr; simp [hpre r hr])]
    simp only [List.append_assoc, List.singleton_append]

theorem shape_fst (pv : List (List F)) (c : Nat) (hc : ∀ r ∈ pv, r.length = c) :
    ∃ c', Src.Py.Rt.shape pv = .ok (pv.length, c') := by
  by_cases h : pv = []
  · subst h; exact ⟨0, rfl⟩
  · exact ⟨c, shape_rect pv c h hc⟩

/-- `evaluate_barycentric_multi`: one column per row `(λ₁, λ₂, λ₃)` of `param_vals` -/
theorem evaluate_barycentric_multi_src (nodes : List (List F)) (degree : Nat) (hne : nodes ≠ [])
    (hrect : ∀ r ∈ nodes, r.length = numNodes degree) (params : List (Bary F)) :
    Src.Py.evaluate_barycentric_multi nodes degree (params.map fun w => [w.l1, w.l2, w.l3]) nodes.length =
      .ok (Py.evalBarycentricMulti 55 degree nodes params) := by
  unfold Src.Py.evaluate_barycentric_multi
  obtain ⟨c', hs⟩ := shape_fst (params.map fun w => [w.l1, w.l2, w.l3]) 3 (by
    intro r hr; obtain ⟨w, _, rfl⟩ := List.mem_map.mp hr; rfl)
  rw [hs]
  simp only [Src.Py.Rt.bind_ok, List.length_map, Src.Py.Rt.enum]
  rw [mcNew_map, List.range_eq_range']
  have h := enumLoop nodes params.length (fun w : Bary F => [w.l1, w.l2, w.l3])
    (fun r w => Py.evalBarycentricRow 55 degree r w)
    (fun (result : List (List F)) (x : Nat × List F) =>
      match x.2 with
      | [lambda1, lambda2, lambda3] =>
        Rt.bind (Src.Py.evaluate_barycentric nodes degree lambda1 lambda2 lambda3) fun t5 =>
        Rt.pushCol params.length result (x.1 : Int) t5
      | _ => .error .badInput)
    (by
      intro pre j w hj hpre
      dsimp only
      rw [evaluate_barycentric_src nodes degree hne hrect]
      simp only [Src.Py.Rt.bind_ok, Py.evalBarycentric]
      exact pushCol_map _ nodes pre _ j hj hpre)
    params 0 (fun _ => []) (by omega) (by intro r _; rfl)
  refine (bind_eq _ _ _ h).trans ?_
  rw [mcFreeze_map _ _ _ (by intro r _; simp)]
  simp only [List.nil_append, Py.evalBarycentricMulti]

/-- `evaluate_cartesian_multi`: one column per row `(s, t)` of `param_vals`, weights `1 - s - t, s, t` -/
theorem evaluate_cartesian_multi_src (nodes : List (List F)) (degree : Nat) (hne : nodes ≠ [])
    (hrect : ∀ r ∈ nodes, r.length = numNodes degree) (params : List (F × F)) :
    Src.Py.evaluate_cartesian_multi nodes degree (params.map fun p => [p.1, p.2]) nodes.length =
      .ok (Py.evalCartesianMulti 55 degree nodes params) := by
  unfold Src.Py.evaluate_cartesian_multi
  obtain ⟨c', hs⟩ := shape_fst (params.map fun p => [p.1, p.2]) 2 (by
    intro r hr; obtain ⟨w, _, rfl⟩ := List.mem_map.mp hr; rfl)
  rw [hs]
  simp only [Src.Py.Rt.bind_ok, List.length_map, Src.Py.Rt.enum]
  rw [mcNew_map, List.range_eq_range']
  have h := enumLoop nodes params.length (fun p : F × F => [p.1, p.2])
    (fun r p => Py.evalBarycentricRow 55 degree r (cartesian p.1 p.2))
    (fun (result : List (List F)) (x : Nat × List F) =>
      match x.2 with
      | [s, t] =>
        Rt.bind (Src.Py.evaluate_barycentric nodes degree (((1 : F) - s) - t) s t) fun t5 =>
        Rt.pushCol params.length result (x.1 : Int) t5
      | _ => .error .badInput)
    (by
      intro pre j w hj hpre
      dsimp only
      rw [evaluate_barycentric_src nodes degree hne hrect]
      simp only [Src.Py.Rt.bind_ok, Py.evalBarycentric]
      exact pushCol_map _ nodes pre _ j hj hpre)
    params 0 (fun _ => []) (by omega) (by intro r _; rfl)
  refine (bind_eq _ _ _ h).trans ?_
  rw [mcFreeze_map _ _ _ (by intro r _; simp)]
  simp only [List.nil_append, Py.evalCartesianMulti, Py.evalBarycentricMulti, List.map_map, Function.comp_def]

/-! ### the triangle Newton step (hazmat/triangle_intersection.py) and `jacobian_det` -/

theorem numNodes_pred (degree : Nat) (h : 1 ≤ degree) : numNodes (degree - 1) = tri degree := by
  rw [numNodes_eq_tri]
  congr 1
  omega

theorem toNatE_pred (degree : Nat) (h : 1 ≤ degree) :
    Src.Py.Rt.toNatE ((degree : Int) - 1) = .ok (degree - 1) := by
  unfold Src.Py.Rt.toNatE
  rw [if_pos (by omega)]
  congr 1
  omega

/-- `newton_refine_solve` on a `4 × 1` array (Cramer's rule, entries in Fortran order) -/
theorem newton_refine_solve_src (a b c d x tx y ty : F) :
    Src.Py.newton_refine_solve [a, b, c, d] x tx y ty =
      .ok ((d * (x - tx) - c * (y - ty)) / (a * d - b * c), (a * (y - ty) - b * (x - tx)) / (a * d - b * c)) := rfl

/-- `newton_refine` for triangles (planar triangle of degree ≥ 1): evaluation, the exact-hit test, the Jacobian net
    evaluated one degree lower and the 2 × 2 solve are the model's `newtonRefineTriangle` -/
theorem newton_refine_src (xs ys : List F) (degree : Nat) (hd : 1 ≤ degree)
    (hx : xs.length = numNodes degree) (hy : ys.length = numNodes degree) (xVal yVal s t : F) :
    Src.Py.triangle_intersection.newton_refine [xs, ys] degree xVal yVal s t =
      .ok (newtonRefineTriangle 55 degree [xs, ys] xVal yVal s t) := by
  have hrect : ∀ r ∈ [xs, ys], r.length = numNodes degree := by
    intro r hr
    simp only [List.mem_cons, List.not_mem_nil, or_false] at hr
    rcases hr with rfl | rfl <;> assumption
  have hb : Src.Py.jacobian_both [xs, ys] degree 2 = .ok (jacobianBoth degree [xs, ys]) :=
    jacobian_both_src [xs, ys] degree (by simp) hrect
  have hj : ∀ r ∈ jacobianBoth degree [xs, ys], r.length = numNodes (degree - 1) := by
    intro r hr
    rw [numNodes_pred degree hd]
    simp only [jacobianBoth, List.map_cons, List.map_nil, List.cons_append, List.nil_append, List.mem_cons,
      List.not_mem_nil, or_false] at hr
    rcases hr with rfl | rfl | rfl | rfl
    · exact length_jacobianSRow degree _
    · exact length_jacobianSRow degree _
    · exact length_jacobianTRow degree _
    · exact length_jacobianTRow degree _
  unfold Src.Py.triangle_intersection.newton_refine newtonRefineTriangle
  dsimp only
  rw [evaluate_barycentric_src [xs, ys] degree (by simp) hrect]
  simp only [Src.Py.Rt.bind_ok, Py.evalBarycentric, List.map_cons, List.map_nil, Src.Py.Rt.asPt, cartesian]
  have s0 : ∀ (a b : F), seq [a, b] 0 = a := fun _ _ => rfl
  have s1 : ∀ (a b : F), seq [a, b] 1 = b := fun _ _ => rfl
  simp only [s0, s1]
  split
  · rfl
  · rw [hb]
    simp only [Src.Py.Rt.bind_ok]
    rw [toNatE_pred degree hd]
    simp only [Src.Py.Rt.bind_ok]
    rw [evaluate_barycentric_src _ (degree - 1) (by simp [jacobianBoth]) hj]
    simp only [Src.Py.Rt.bind_ok, Py.evalBarycentric, jacobianBoth, List.map_cons, List.map_nil, List.cons_append,
      List.nil_append, newton_refine_solve_src]
    rfl

theorem repeat_single (r : List F) (n : Nat) (h : r.length = 1) :
    (r.flatMap fun x => List.replicate n x) = List.replicate n (seq r 0) := by
  match r, h with
  | [a], _ => simp [seq]

theorem replicate_eq_map {α β : Type} (l : List α) (b : β) : List.replicate l.length b = l.map fun _ => b := by
  induction l with
  | nil => rfl
  | cons a l ih => simp only [List.length_cons, List.replicate_succ, List.map_cons, ih]

/-- `jacobian_det` (planar triangle of degree ≥ 1) at the rows `(s, t)` of `st_vals`: the model's `jacobianDet` at every
    parameter pair (`degree = 1`: the constant Jacobian repeated, otherwise `evaluate_cartesian_multi` one degree lower) -/
theorem jacobian_det_src (xs ys : List F) (degree : Nat) (hd : 1 ≤ degree)
    (hx : xs.length = numNodes degree) (hy : ys.length = numNodes degree) (params : List (F × F)) :
    Src.Py.jacobian_det [xs, ys] degree (params.map fun p => [p.1, p.2]) =
      .ok (params.map fun p => jacobianDet 55 degree [xs, ys] p.1 p.2) := by
  have hrect : ∀ r ∈ [xs, ys], r.length = numNodes degree := by
    intro r hr
    simp only [List.mem_cons, List.not_mem_nil, or_false] at hr
    rcases hr with rfl | rfl <;> assumption
  have hb : Src.Py.jacobian_both [xs, ys] degree 2 = .ok (jacobianBoth degree [xs, ys]) :=
    jacobian_both_src [xs, ys] degree (by simp) hrect
  have hj : ∀ r ∈ jacobianBoth degree [xs, ys], r.length = numNodes (degree - 1) := by
    intro r hr
    rw [numNodes_pred degree hd]
    simp only [jacobianBoth, List.map_cons, List.map_nil, List.cons_append, List.nil_append, List.mem_cons,
      List.not_mem_nil, or_false] at hr
    rcases hr with rfl | rfl | rfl | rfl
    · exact length_jacobianSRow degree _
    · exact length_jacobianSRow degree _
    · exact length_jacobianTRow degree _
    · exact length_jacobianTRow degree _
  unfold Src.Py.jacobian_det
  rw [hb]
  simp only [Src.Py.Rt.bind_ok]
  by_cases h1 : degree = 1
  · subst h1
    obtain ⟨c', hs⟩ := shape_fst (params.map fun p => [p.1, p.2]) 2 (by
      intro r hr; obtain ⟨w, _, rfl⟩ := List.mem_map.mp hr; rfl)
    rw [if_pos rfl, hs]
    have l1 : ∀ r : List F, (jacobianSRow 1 r).length = 1 := fun r => length_jacobianSRow 1 r
    have l2 : ∀ r : List F, (jacobianTRow 1 r).length = 1 := fun r => length_jacobianTRow 1 r
    simp only [Src.Py.Rt.bind_ok, List.length_map, Src.Py.Rt.repeatCols, jacobianBoth, List.map_cons, List.map_nil,
      List.cons_append, List.nil_append, Src.Py.Rt.rowI, List.getElem?_cons_zero, List.getElem?_cons_succ,
      repeat_single _ _ (l1 _), repeat_single _ _ (l2 _), replicate_eq_map]
    rw [vzip_map_same, vzip_map_same]
    simp only [Src.Py.Rt.bind_ok]
    rw [vzip_map_same]
    congr 1
  · rw [if_neg h1, toNatE_pred degree hd]
    simp only [Src.Py.Rt.bind_ok]
    have he : Src.Py.evaluate_cartesian_multi (jacobianBoth degree [xs, ys]) (degree - 1)
        (params.map fun p => [p.1, p.2]) 4 = .ok (Py.evalCartesianMulti 55 (degree - 1) (jacobianBoth degree [xs, ys]) params) :=
      evaluate_cartesian_multi_src _ (degree - 1) (by simp [jacobianBoth]) hj params
    rw [he]
    simp only [Src.Py.Rt.bind_ok, Py.evalCartesianMulti, Py.evalBarycentricMulti, jacobianBoth, List.map_cons, List.map_nil,
      List.cons_append, List.nil_append, Src.Py.Rt.rowI, List.getElem?_cons_zero, List.getElem?_cons_succ, List.map_map,
      Function.comp_def]
    rw [vzip_map_same, vzip_map_same]
    simp only [Src.Py.Rt.bind_ok]
    rw [vzip_map_same]
    congr 1
    apply List.map_congr_left
    intro p _
    simp only [jacobianDet, jacobianBoth, if_neg h1, Py.evalBarycentric, List.map_cons, List.map_nil, List.cons_append,
      List.nil_append]
    rfl

end Field

end BezierVerif.SrcPyTriangle
