import BezierVerif.Tables.SrcPyTriangleSub

/-!
# Tables/SrcPyTriangleCubic — phase 4 (pytri), third part: `cubic_jacobian_polynomial`

Kept in its own file because the straight-line part (15 slices, determinants and entry assignments on 30-entry rows) is
checked by evaluation (`rfl`), which takes about a minute.

| source function                               | theorem                            | model definition                         | domain |
|-----------------------------------------------|------------------------------------|------------------------------------------|--------|
| triangle_helpers.cubic_jacobian_polynomial    | `cubic_jacobian_polynomial_src`    | `jacobianPolynomial` divided by 36       | any field; `2 × 10` |
-/

set_option linter.unusedSectionVars false
set_option linter.unusedVariables false

namespace BezierVerif.SrcPyTriangle

open BezierVerif BezierVerif.Model
open BezierVerif.Src.Py (Rt.bind Rt.foldM Rt.idx Rt.pushCol Rt.mcFreeze Rt.mcNew)

section Field3
variable {F : Type} [Field F] [LinearOrder F]

open BezierVerif.SrcPyKernels (matrix_product_src)

theorem range15 : List.range 15 = [0, 1, 2, 3, 4, 5, 6, 7, 8, 9, 10, 11, 12, 13, 14] := by decide
theorem range30 : List.range 30 = [0, 1, 2, 3, 4, 5, 6, 7, 8, 9, 10, 11, 12, 13, 14, 15, 16, 17, 18, 19, 20, 21, 22, 23, 24, 25, 26,
    27, 28, 29] := by decide

set_option maxHeartbeats 4000000 in
/-- the straight-line middle part of `cubic_jacobian_polynomial`: the 15 determinants of the column pairs -/
theorem cjp_core {β : Type} (f g : Nat → F) (k : List (List F) → Except Err β) :
    (Rt.bind (Src.Py.Rt.asM22 (Src.Py.Rt.cols [(List.range 30).map f, (List.range 30).map g] none (some (2 : Int)))) fun t4 =>
      Rt.bind (Src.Py.two_by_two_det t4) fun t5 =>
      Rt.bind (Rt.pushCol 15 (Rt.mcNew 1 : List (List F)) (0 : Int) [t5]) fun jac_at_nodes =>
      Rt.bind (Src.Py.Rt.asM22 (Src.Py.Rt.cols [(List.range 30).map f, (List.range 30).map g] (some (2 : Int)) (some (4 : Int)))) fun t6 =>
      Rt.bind (Src.Py.two_by_two_det t6) fun t7 =>
      Rt.bind (Rt.pushCol 15 jac_at_nodes (1 : Int) [t7]) fun jac_at_nodes =>
      Rt.bind (Src.Py.Rt.asM22 (Src.Py.Rt.cols [(List.range 30).map f, (List.range 30).map g] (some (4 : Int)) (some (6 : Int)))) fun t8 =>
      Rt.bind (Src.Py.two_by_two_det t8) fun t9 =>
      Rt.bind (Rt.pushCol 15 jac_at_nodes (2 : Int) [t9]) fun jac_at_nodes =>
      Rt.bind (Src.Py.Rt.asM22 (Src.Py.Rt.cols [(List.range 30).map f, (List.range 30).map g] (some (6 : Int)) (some (8 : Int)))) fun t10 =>
      Rt.bind (Src.Py.two_by_two_det t10) fun t11 =>
      Rt.bind (Rt.pushCol 15 jac_at_nodes (3 : Int) [t11]) fun jac_at_nodes =>
      Rt.bind (Src.Py.Rt.asM22 (Src.Py.Rt.cols [(List.range 30).map f, (List.range 30).map g] (some (8 : Int)) (some (10 : Int)))) fun t12 =>
      Rt.bind (Src.Py.two_by_two_det t12) fun t13 =>
      Rt.bind (Rt.pushCol 15 jac_at_nodes (4 : Int) [t13]) fun jac_at_nodes =>
      Rt.bind (Src.Py.Rt.asM22 (Src.Py.Rt.cols [(List.range 30).map f, (List.range 30).map g] (some (10 : Int)) (some (12 : Int)))) fun t14 =>
      Rt.bind (Src.Py.two_by_two_det t14) fun t15 =>
      Rt.bind (Rt.pushCol 15 jac_at_nodes (5 : Int) [t15]) fun jac_at_nodes =>
      Rt.bind (Src.Py.Rt.asM22 (Src.Py.Rt.cols [(List.range 30).map f, (List.range 30).map g] (some (12 : Int)) (some (14 : Int)))) fun t16 =>
      Rt.bind (Src.Py.two_by_two_det t16) fun t17 =>
      Rt.bind (Rt.pushCol 15 jac_at_nodes (6 : Int) [t17]) fun jac_at_nodes =>
      Rt.bind (Src.Py.Rt.asM22 (Src.Py.Rt.cols [(List.range 30).map f, (List.range 30).map g] (some (14 : Int)) (some (16 : Int)))) fun t18 =>
      Rt.bind (Src.Py.two_by_two_det t18) fun t19 =>
      Rt.bind (Rt.pushCol 15 jac_at_nodes (7 : Int) [t19]) fun jac_at_nodes =>
      Rt.bind (Src.Py.Rt.asM22 (Src.Py.Rt.cols [(List.range 30).map f, (List.range 30).map g] (some (16 : Int)) (some (18 : Int)))) fun t20 =>
      Rt.bind (Src.Py.two_by_two_det t20) fun t21 =>
      Rt.bind (Rt.pushCol 15 jac_at_nodes (8 : Int) [t21]) fun jac_at_nodes =>
      Rt.bind (Src.Py.Rt.asM22 (Src.Py.Rt.cols [(List.range 30).map f, (List.range 30).map g] (some (18 : Int)) (some (20 : Int)))) fun t22 =>
      Rt.bind (Src.Py.two_by_two_det t22) fun t23 =>
      Rt.bind (Rt.pushCol 15 jac_at_nodes (9 : Int) [t23]) fun jac_at_nodes =>
      Rt.bind (Src.Py.Rt.asM22 (Src.Py.Rt.cols [(List.range 30).map f, (List.range 30).map g] (some (20 : Int)) (some (22 : Int)))) fun t24 =>
      Rt.bind (Src.Py.two_by_two_det t24) fun t25 =>
      Rt.bind (Rt.pushCol 15 jac_at_nodes (10 : Int) [t25]) fun jac_at_nodes =>
      Rt.bind (Src.Py.Rt.asM22 (Src.Py.Rt.cols [(List.range 30).map f, (List.range 30).map g] (some (22 : Int)) (some (24 : Int)))) fun t26 =>
      Rt.bind (Src.Py.two_by_two_det t26) fun t27 =>
      Rt.bind (Rt.pushCol 15 jac_at_nodes (11 : Int) [t27]) fun jac_at_nodes =>
      Rt.bind (Src.Py.Rt.asM22 (Src.Py.Rt.cols [(List.range 30).map f, (List.range 30).map g] (some (24 : Int)) (some (26 : Int)))) fun t28 =>
      Rt.bind (Src.Py.two_by_two_det t28) fun t29 =>
      Rt.bind (Rt.pushCol 15 jac_at_nodes (12 : Int) [t29]) fun jac_at_nodes =>
      Rt.bind (Src.Py.Rt.asM22 (Src.Py.Rt.cols [(List.range 30).map f, (List.range 30).map g] (some (26 : Int)) (some (28 : Int)))) fun t30 =>
      Rt.bind (Src.Py.two_by_two_det t30) fun t31 =>
      Rt.bind (Rt.pushCol 15 jac_at_nodes (13 : Int) [t31]) fun jac_at_nodes =>
      Rt.bind (Src.Py.Rt.asM22 (Src.Py.Rt.cols [(List.range 30).map f, (List.range 30).map g] (some (28 : Int)) none)) fun t32 =>
      Rt.bind (Src.Py.two_by_two_det t32) fun t33 =>
      Rt.bind (Rt.pushCol 15 jac_at_nodes (14 : Int) [t33]) fun jac_at_nodes =>
      Rt.bind (Rt.mcFreeze 15 jac_at_nodes) k) =
    k [(List.range 15).map fun i => twoByTwoDet (f (2 * i)) (f (2 * i + 1)) (g (2 * i)) (g (2 * i + 1))] := by
  rw [range30, range15]
  rfl

/-- `cubic_jacobian_polynomial` on a `2 × 10` array: the model's `jacobianPolynomial` with the two module tables as
    translated from the source, every coefficient divided by `_QUARTIC_BERNSTEIN_FACTOR = 36` (a `1 × 15` array) -/
theorem cubic_jacobian_polynomial_src (xs ys : List F) (hx : xs.length = 10) (hy : ys.length = 10) :
    Src.Py.cubic_jacobian_polynomial [xs, ys] =
      .ok [(jacobianPolynomial Src.Py.tbl.triangle_helpers._CUBIC_JACOBIAN_HELPER
        Src.Py.tbl.triangle_helpers._QUARTIC_TO_BERNSTEIN [xs, ys]).map fun x => x / ((36 : Nat) : F)] := by
  unfold Src.Py.cubic_jacobian_polynomial jacobianPolynomial
  rw [matrix_product_src [xs, ys] _ 10 30 (by simp) (by omega) (by omega) (rect2 xs ys 10 hx hy) rfl (rows_len _ 30 rfl)]
  simp only [Src.Py.Rt.bind_ok, matrixProduct, matMul, List.map_cons, List.map_nil, List.getD_cons_zero, List.getD_cons_succ]
  have hX := length_rowMul xs (Src.Py.tbl.triangle_helpers._CUBIC_JACOBIAN_HELPER : List (List F))
  have hY := length_rowMul ys (Src.Py.tbl.triangle_helpers._CUBIC_JACOBIAN_HELPER : List (List F))
  rw [show ncols (Src.Py.tbl.triangle_helpers._CUBIC_JACOBIAN_HELPER : List (List F)) = 30 from rfl] at hX hY
  generalize rowMul xs (Src.Py.tbl.triangle_helpers._CUBIC_JACOBIAN_HELPER : List (List F)) = X at hX ⊢
  generalize rowMul ys (Src.Py.tbl.triangle_helpers._CUBIC_JACOBIAN_HELPER : List (List F)) = Y at hY ⊢
  obtain ⟨f, rfl⟩ : ∃ f : Nat → F, X = (List.range 30).map f := ⟨seq X, list_eq_map_seq X 30 hX⟩
  obtain ⟨g, rfl⟩ : ∃ g : Nat → F, Y = (List.range 30).map g := ⟨seq Y, list_eq_map_seq Y 30 hY⟩
  refine (cjp_core f g _).trans ?_
  rw [matrix_product_src _ _ 15 15 (by simp) (by omega) (by omega) (by intro r hr; simp at hr; subst hr; simp) rfl
    (rows_len _ 15 rfl)]
  simp only [Src.Py.Rt.bind_ok, matrixProduct, matMul, List.map_cons, List.map_nil, List.length_map, List.length_range,
    Src.Py.Rt.mmap]
  congr 3

end Field3
end BezierVerif.SrcPyTriangle
