import BezierVerif.Tables.SrcPyTriangle
import BezierVerif.Model.LocateTri
import BezierVerif.Model.Valid
import BezierVerif.Generated.Data
import Mathlib.Tactic.NormNum

/-!
# Tables/SrcPyTriangleSub — phase 4 (pytri), second part: `subdivide_nodes`, `quadratic_jacobian_polynomial`, `mean_centroid`
and the module-level array constants

New in the translation: module-level array constants (`NAME = np.asfortranarray(<literal>, dtype=...) [/ c]`) become Lean
constants `Src.Py.tbl.<module>.<NAME>`; a callee the translator cannot translate (`specialize_triangle`: dictionaries) is an
explicit parameter of the generated definition of its caller (table `ABSTRACT`); a `2 × N` slice passed where a `2 × 2`
array is declared is checked at the call (`Rt.asM22`); `x[0, j] = number` fills a `1 × k` array created by `np.empty`.

| source function                                  | theorem                               | model definition            | domain |
|--------------------------------------------------|---------------------------------------|-----------------------------|--------|
| triangle_intersection.mean_centroid              | `mean_centroid_src`                   | `triMeanCentroid`           | any field, all inputs |
| triangle_intersection.update_locate_candidates   | `update_locate_candidates_src`        | `Py.containsND`, `Py.triSubdivideNodes`, `triSplitCand` (one step of `triLocateRound`) | any field; planar candidate, rect; `specialize_triangle` = `Py.triSpecialize` (hypothesis) |
| triangle_helpers.subdivide_nodes                 | `subdivide_nodes_src`                 | `Py.triSubdivideNodes`      | any field; ≥ 1 row, rect; `specialize_triangle` = `Py.triSpecialize` (hypothesis) |
| triangle_helpers.quadratic_jacobian_polynomial   | `quadratic_jacobian_polynomial_src`   | `jacobianPolynomial`        | any field; `2 × 6` |
| the 22 tables and 6 weight triples of the module | `tbl_*` (`decide +kernel`)            | `Generated.Data` (extract.py; tied to the model-derived tables in Tables/C09, C13) | `K := Rat` |
-/

set_option linter.unusedSectionVars false
set_option linter.unusedVariables false

namespace BezierVerif.SrcPyTriangle

open BezierVerif BezierVerif.Model
open BezierVerif.Src.Py (Rt.bind Rt.foldM Rt.idx Rt.pushCol Rt.mcFreeze Rt.mcNew)

section Field2
variable {F : Type} [Field F] [LinearOrder F]

open BezierVerif.SrcPyKernels (matrix_product_src)

/-! ### `mean_centroid` (hazmat/triangle_intersection.py) -/

theorem fold_pair (cands : List (TriCand F)) (a b : F) :
    List.foldl (fun (st : F × F) (c : F × F × F × List (List F)) => (st.1 + c.1, st.2 + c.2.1)) (a, b)
        (cands.map fun c => (c.cx, c.cy, c.width, c.nodes)) =
      (cands.foldl (fun acc c => acc + c.cx) a, cands.foldl (fun acc c => acc + c.cy) b) := by
  induction cands generalizing a b with
  | nil => rfl
  | cons c cs ih => simp only [List.map_cons, List.foldl_cons, ih]

/-- `mean_centroid` on the list of candidate 4-tuples `(3·centroid_x, 3·centroid_y, width, nodes)` -/
theorem mean_centroid_src (cands : List (TriCand F)) :
    Src.Py.mean_centroid (cands.map fun c => (c.cx, c.cy, c.width, c.nodes)) = triMeanCentroid cands := by
  unfold Src.Py.mean_centroid triMeanCentroid
  have h := fold_pair cands 0 0
  simp only [List.length_map]
  have h3 : ((3 : Nat) : F) = 1 + 1 + 1 := by norm_num
  rw [h3]
  refine Prod.ext ?_ ?_
  · exact congrArg (fun z => z.1 / ((1 + 1 + 1 : F) * ((cands.length : Nat) : F))) h
  · exact congrArg (fun z => z.2 / ((1 + 1 + 1 : F) * ((cands.length : Nat) : F))) h

/-! ### `subdivide_nodes` (hazmat/triangle_helpers.py): the dispatch on the degree -/

/-- the 16 module constants `LINEAR / QUADRATIC / CUBIC / QUARTIC_SUBDIVIDE_A…D` as translated from the source -/
def srcTables : Nat → Quarter → List (List F)
  | 1, .A => Src.Py.tbl.triangle_helpers.LINEAR_SUBDIVIDE_A
  | 1, .B => Src.Py.tbl.triangle_helpers.LINEAR_SUBDIVIDE_B
  | 1, .C => Src.Py.tbl.triangle_helpers.LINEAR_SUBDIVIDE_C
  | 1, .D => Src.Py.tbl.triangle_helpers.LINEAR_SUBDIVIDE_D
  | 2, .A => Src.Py.tbl.triangle_helpers.QUADRATIC_SUBDIVIDE_A
  | 2, .B => Src.Py.tbl.triangle_helpers.QUADRATIC_SUBDIVIDE_B
  | 2, .C => Src.Py.tbl.triangle_helpers.QUADRATIC_SUBDIVIDE_C
  | 2, .D => Src.Py.tbl.triangle_helpers.QUADRATIC_SUBDIVIDE_D
  | 3, .A => Src.Py.tbl.triangle_helpers.CUBIC_SUBDIVIDE_A
  | 3, .B => Src.Py.tbl.triangle_helpers.CUBIC_SUBDIVIDE_B
  | 3, .C => Src.Py.tbl.triangle_helpers.CUBIC_SUBDIVIDE_C
  | 3, .D => Src.Py.tbl.triangle_helpers.CUBIC_SUBDIVIDE_D
  | 4, .A => Src.Py.tbl.triangle_helpers.QUARTIC_SUBDIVIDE_A
  | 4, .B => Src.Py.tbl.triangle_helpers.QUARTIC_SUBDIVIDE_B
  | 4, .C => Src.Py.tbl.triangle_helpers.QUARTIC_SUBDIVIDE_C
  | 4, .D => Src.Py.tbl.triangle_helpers.QUARTIC_SUBDIVIDE_D
  | _, _ => []

/-- a weight triple given as a 1-D array with three entries -/
def baryOf (l : List F) : Bary F := ⟨seq l 0, seq l 1, seq l 2⟩

/-- the six module constants `_WEIGHTS_SUBDIVIDE0 … 5` as translated from the source -/
def srcWeights : SubWeights F :=
  { w0 := baryOf Src.Py.tbl.triangle_helpers._WEIGHTS_SUBDIVIDE0, w1 := baryOf Src.Py.tbl.triangle_helpers._WEIGHTS_SUBDIVIDE1,
    w2 := baryOf Src.Py.tbl.triangle_helpers._WEIGHTS_SUBDIVIDE2, w3 := baryOf Src.Py.tbl.triangle_helpers._WEIGHTS_SUBDIVIDE3,
    w4 := baryOf Src.Py.tbl.triangle_helpers._WEIGHTS_SUBDIVIDE4, w5 := baryOf Src.Py.tbl.triangle_helpers._WEIGHTS_SUBDIVIDE5 }

theorem triMapE_ok {α β : Type} (g : α → β) (l : List α) :
    triMapE (fun a => (.ok (g a) : Except Err β)) l = .ok (l.map g) := by
  induction l with
  | nil => rfl
  | cons a l ih => simp only [triMapE, ih, List.map_cons]

theorem rows_len (T : List (List F)) (n : Nat) (h : (T.all fun r => r.length == n) = true) : ∀ r ∈ T, r.length = n := by
  intro r hr
  simpa using List.all_eq_true.mp h r hr

theorem four_bind (A B C D : Except Err (List (List F))) :
    (Rt.bind A fun a => Rt.bind B fun b => Rt.bind C fun c => Rt.bind D fun d =>
        (.ok (a, b, c, d) : Except Err (List (List F) × List (List F) × List (List F) × List (List F)))) =
      Rt.bind (match A with
        | .error e => .error e
        | .ok a =>
          match B with
          | .error e => .error e
          | .ok b =>
            match C with
            | .error e => .error e
            | .ok c =>
              match D with
              | .error e => .error e
              | .ok d => (.ok ⟨a, b, c, d⟩ : Except Err (TriFour F))) fun f => .ok (f.a, f.b, f.c, f.d) := by
  cases A <;> cases B <;> cases C <;> cases D <;> rfl

/-- one table branch: `matrix_product(nodes, TABLE)` is the model's row-wise product with that table -/
theorem table_quarter (nodes : List (List F)) (degree : Nat) (q : Quarter) (n : Nat) (hn : 1 ≤ n) (hd : 1 ≤ degree ∧ degree ≤ 4)
    (hne : nodes ≠ []) (hrect : ∀ r ∈ nodes, r.length = n) (hl : (srcTables (F := F) degree q).length = n)
    (hall : ((srcTables (F := F) degree q).all fun r => r.length == n) = true) :
    Src.Py.matrix_product nodes (srcTables degree q) =
      triMapE (fun r => Py.triSubdivideNodesRow srcTables srcWeights degree r q) nodes := by
  rw [matrix_product_src nodes _ n n hne hn hn hrect hl (rows_len _ n hall)]
  have : (fun r => Py.triSubdivideNodesRow (srcTables (F := F)) srcWeights degree r q) =
      fun r => (.ok (rowMul r (srcTables degree q)) : Except Err (List F)) := by
    funext r
    simp only [Py.triSubdivideNodesRow, if_pos hd]
  rw [this, triMapE_ok]
  rfl

/-- `subdivide_nodes` (Python): degrees 1-4 multiply by the module tables (as translated from the source), every other
    degree calls `specialize_triangle` (a parameter `spec` of the generated definition, assumed to be the model's
    `Py.triSpecialize`) with the weight constants in the order of the source; the result is the model's
    `Py.triSubdivideNodes` -/
theorem subdivide_nodes_src (spec : List (List F) → Nat → List F → List F → List F → Except Err (List (List F)))
    (nodes : List (List F)) (degree : Nat) (hne : nodes ≠ []) (hrect : ∀ r ∈ nodes, r.length = numNodes degree)
    (hspec : ∀ wa wb wc, spec nodes degree wa wb wc = Py.triSpecialize degree nodes (baryOf wa) (baryOf wb) (baryOf wc)) :
    Src.Py.subdivide_nodes spec nodes degree =
      Rt.bind (Py.triSubdivideNodes srcTables srcWeights degree nodes) fun f => .ok (f.a, f.b, f.c, f.d) := by
  unfold Src.Py.subdivide_nodes Py.triSubdivideNodes
  by_cases h1 : degree = 1
  · subst h1
    rw [if_pos rfl]
    have e := fun q hl hall => table_quarter nodes 1 q 3 (by omega) (by omega) hne hrect hl hall
    rw [show (Src.Py.tbl.triangle_helpers.LINEAR_SUBDIVIDE_A : List (List F)) = srcTables 1 .A from rfl, e .A rfl rfl,
      show (Src.Py.tbl.triangle_helpers.LINEAR_SUBDIVIDE_B : List (List F)) = srcTables 1 .B from rfl, e .B rfl rfl,
      show (Src.Py.tbl.triangle_helpers.LINEAR_SUBDIVIDE_C : List (List F)) = srcTables 1 .C from rfl, e .C rfl rfl,
      show (Src.Py.tbl.triangle_helpers.LINEAR_SUBDIVIDE_D : List (List F)) = srcTables 1 .D from rfl, e .D rfl rfl]
    exact four_bind _ _ _ _
  rw [if_neg h1]
  by_cases h2 : degree = 2
  · subst h2
    rw [if_pos rfl]
    have e := fun q hl hall => table_quarter nodes 2 q 6 (by omega) (by omega) hne hrect hl hall
    rw [show (Src.Py.tbl.triangle_helpers.QUADRATIC_SUBDIVIDE_A : List (List F)) = srcTables 2 .A from rfl, e .A rfl rfl,
      show (Src.Py.tbl.triangle_helpers.QUADRATIC_SUBDIVIDE_B : List (List F)) = srcTables 2 .B from rfl, e .B rfl rfl,
      show (Src.Py.tbl.triangle_helpers.QUADRATIC_SUBDIVIDE_C : List (List F)) = srcTables 2 .C from rfl, e .C rfl rfl,
      show (Src.Py.tbl.triangle_helpers.QUADRATIC_SUBDIVIDE_D : List (List F)) = srcTables 2 .D from rfl, e .D rfl rfl]
    exact four_bind _ _ _ _
  rw [if_neg h2]
  by_cases h3 : degree = 3
  · subst h3
    rw [if_pos rfl]
    have e := fun q hl hall => table_quarter nodes 3 q 10 (by omega) (by omega) hne hrect hl hall
    rw [show (Src.Py.tbl.triangle_helpers.CUBIC_SUBDIVIDE_A : List (List F)) = srcTables 3 .A from rfl, e .A rfl rfl,
      show (Src.Py.tbl.triangle_helpers.CUBIC_SUBDIVIDE_B : List (List F)) = srcTables 3 .B from rfl, e .B rfl rfl,
      show (Src.Py.tbl.triangle_helpers.CUBIC_SUBDIVIDE_C : List (List F)) = srcTables 3 .C from rfl, e .C rfl rfl,
      show (Src.Py.tbl.triangle_helpers.CUBIC_SUBDIVIDE_D : List (List F)) = srcTables 3 .D from rfl, e .D rfl rfl]
    exact four_bind _ _ _ _
  rw [if_neg h3]
  by_cases h4 : degree = 4
  · subst h4
    rw [if_pos rfl]
    have e := fun q hl hall => table_quarter nodes 4 q 15 (by omega) (by omega) hne hrect hl hall
    rw [show (Src.Py.tbl.triangle_helpers.QUARTIC_SUBDIVIDE_A : List (List F)) = srcTables 4 .A from rfl, e .A rfl rfl,
      show (Src.Py.tbl.triangle_helpers.QUARTIC_SUBDIVIDE_B : List (List F)) = srcTables 4 .B from rfl, e .B rfl rfl,
      show (Src.Py.tbl.triangle_helpers.QUARTIC_SUBDIVIDE_C : List (List F)) = srcTables 4 .C from rfl, e .C rfl rfl,
      show (Src.Py.tbl.triangle_helpers.QUARTIC_SUBDIVIDE_D : List (List F)) = srcTables 4 .D from rfl, e .D rfl rfl]
    exact four_bind _ _ _ _
  rw [if_neg h4]
  have hg : ∀ q, triMapE (fun r => Py.triSubdivideNodesRow (srcTables (F := F)) srcWeights degree r q) nodes =
      Py.triSpecialize degree nodes (quarterWeights srcWeights q).1 (quarterWeights srcWeights q).2.1
        (quarterWeights srcWeights q).2.2 := by
    intro q
    unfold Py.triSpecialize
    congr 1
    funext r
    simp only [Py.triSubdivideNodesRow, Py.triSubdivideGenericRow, if_neg (show ¬(1 ≤ degree ∧ degree ≤ 4) by omega)]
  rw [hg .A, hg .B, hg .C, hg .D, hspec, hspec, hspec, hspec]
  exact four_bind _ _ _ _

/-! ### `quadratic_jacobian_polynomial`, `cubic_jacobian_polynomial` (hazmat/triangle_helpers.py) -/

theorem list_eq_map_seq (l : List F) (n : Nat) (h : l.length = n) : l = (List.range n).map (seq l) := by
  apply List.ext_getElem
  · simp [h]
  · intro i h1 h2
    simp [seq, List.getD_eq_getElem?_getD, List.getElem?_eq_getElem h1]

theorem length_rowMul (r : List F) (m : List (List F)) : (rowMul r m).length = ncols m := by
  simp [rowMul]

theorem range6 : List.range 6 = [0, 1, 2, 3, 4, 5] := by decide
theorem range12 : List.range 12 = [0, 1, 2, 3, 4, 5, 6, 7, 8, 9, 10, 11] := by decide

/-- the straight-line middle part of `quadratic_jacobian_polynomial`: the six determinants of the column pairs -/
theorem qjp_core {β : Type} (f g : Nat → F) (k : List (List F) → Except Err β) :
    (Rt.bind (Src.Py.Rt.asM22 (Src.Py.Rt.cols [(List.range 12).map f, (List.range 12).map g] none (some (2 : Int)))) fun t4 =>
      Rt.bind (Src.Py.two_by_two_det t4) fun t5 =>
      Rt.bind (Rt.pushCol 6 (Rt.mcNew 1 : List (List F)) (0 : Int) [t5]) fun jac_at_nodes =>
      Rt.bind (Src.Py.Rt.asM22 (Src.Py.Rt.cols [(List.range 12).map f, (List.range 12).map g] (some (2 : Int)) (some (4 : Int)))) fun t6 =>
      Rt.bind (Src.Py.two_by_two_det t6) fun t7 =>
      Rt.bind (Rt.pushCol 6 jac_at_nodes (1 : Int) [t7]) fun jac_at_nodes =>
      Rt.bind (Src.Py.Rt.asM22 (Src.Py.Rt.cols [(List.range 12).map f, (List.range 12).map g] (some (4 : Int)) (some (6 : Int)))) fun t8 =>
      Rt.bind (Src.Py.two_by_two_det t8) fun t9 =>
      Rt.bind (Rt.pushCol 6 jac_at_nodes (2 : Int) [t9]) fun jac_at_nodes =>
      Rt.bind (Src.Py.Rt.asM22 (Src.Py.Rt.cols [(List.range 12).map f, (List.range 12).map g] (some (6 : Int)) (some (8 : Int)))) fun t10 =>
      Rt.bind (Src.Py.two_by_two_det t10) fun t11 =>
      Rt.bind (Rt.pushCol 6 jac_at_nodes (3 : Int) [t11]) fun jac_at_nodes =>
      Rt.bind (Src.Py.Rt.asM22 (Src.Py.Rt.cols [(List.range 12).map f, (List.range 12).map g] (some (8 : Int)) (some (10 : Int)))) fun t12 =>
      Rt.bind (Src.Py.two_by_two_det t12) fun t13 =>
      Rt.bind (Rt.pushCol 6 jac_at_nodes (4 : Int) [t13]) fun jac_at_nodes =>
      Rt.bind (Src.Py.Rt.asM22 (Src.Py.Rt.cols [(List.range 12).map f, (List.range 12).map g] (some (10 : Int)) none)) fun t14 =>
      Rt.bind (Src.Py.two_by_two_det t14) fun t15 =>
      Rt.bind (Rt.pushCol 6 jac_at_nodes (5 : Int) [t15]) fun jac_at_nodes =>
      Rt.bind (Rt.mcFreeze 6 jac_at_nodes) k) =
    k [(List.range 6).map fun i => twoByTwoDet (f (2 * i)) (f (2 * i + 1)) (g (2 * i)) (g (2 * i + 1))] := by
  rw [range12, range6]
  rfl

theorem rect2 (xs ys : List F) (n : Nat) (hx : xs.length = n) (hy : ys.length = n) : ∀ r ∈ [xs, ys], r.length = n := by
  intro r hr
  simp only [List.mem_cons, List.not_mem_nil, or_false] at hr
  rcases hr with rfl | rfl <;> assumption

/-- `quadratic_jacobian_polynomial` on a `2 × 6` array: the model's `jacobianPolynomial` with the two module tables as
    translated from the source (a `1 × 6` array) -/
theorem quadratic_jacobian_polynomial_src (xs ys : List F) (hx : xs.length = 6) (hy : ys.length = 6) :
    Src.Py.quadratic_jacobian_polynomial [xs, ys] =
      .ok [jacobianPolynomial Src.Py.tbl.triangle_helpers._QUADRATIC_JACOBIAN_HELPER
        Src.Py.tbl.triangle_helpers._QUADRATIC_TO_BERNSTEIN [xs, ys]] := by
  unfold Src.Py.quadratic_jacobian_polynomial jacobianPolynomial
  rw [matrix_product_src [xs, ys] _ 6 12 (by simp) (by omega) (by omega) (rect2 xs ys 6 hx hy) rfl (rows_len _ 12 rfl)]
  simp only [Src.Py.Rt.bind_ok, matrixProduct, matMul, List.map_cons, List.map_nil, List.getD_cons_zero, List.getD_cons_succ]
  have hX := length_rowMul xs (Src.Py.tbl.triangle_helpers._QUADRATIC_JACOBIAN_HELPER : List (List F))
  have hY := length_rowMul ys (Src.Py.tbl.triangle_helpers._QUADRATIC_JACOBIAN_HELPER : List (List F))
  rw [show ncols (Src.Py.tbl.triangle_helpers._QUADRATIC_JACOBIAN_HELPER : List (List F)) = 12 from rfl] at hX hY
  generalize rowMul xs (Src.Py.tbl.triangle_helpers._QUADRATIC_JACOBIAN_HELPER : List (List F)) = X at hX ⊢
  generalize rowMul ys (Src.Py.tbl.triangle_helpers._QUADRATIC_JACOBIAN_HELPER : List (List F)) = Y at hY ⊢
  obtain ⟨f, rfl⟩ : ∃ f : Nat → F, X = (List.range 12).map f := ⟨seq X, list_eq_map_seq X 12 hX⟩
  obtain ⟨g, rfl⟩ : ∃ g : Nat → F, Y = (List.range 12).map g := ⟨seq Y, list_eq_map_seq Y 12 hY⟩
  refine (qjp_core f g _).trans ?_
  rw [matrix_product_src _ _ 6 6 (by simp) (by omega) (by omega) (by intro r hr; simp at hr; subst hr; simp) rfl
    (rows_len _ 6 rfl)]
  simp only [matrixProduct, matMul, List.map_cons, List.map_nil, List.length_map, List.length_range]
  congr 3

end Field2
/-! ### the translated module constants are the extracted ones (`Generated/Data.lean`, harness/extract.py), at `K := Rat` -/

section Data
open BezierVerif.Generated

theorem tbl_LINEAR_SUBDIVIDE_A : (Src.Py.tbl.triangle_helpers.LINEAR_SUBDIVIDE_A : List (List Rat)) = py_triangle_helpers_LINEAR_SUBDIVIDE_A := by decide +kernel
theorem tbl_LINEAR_SUBDIVIDE_B : (Src.Py.tbl.triangle_helpers.LINEAR_SUBDIVIDE_B : List (List Rat)) = py_triangle_helpers_LINEAR_SUBDIVIDE_B := by decide +kernel
theorem tbl_LINEAR_SUBDIVIDE_C : (Src.Py.tbl.triangle_helpers.LINEAR_SUBDIVIDE_C : List (List Rat)) = py_triangle_helpers_LINEAR_SUBDIVIDE_C := by decide +kernel
theorem tbl_LINEAR_SUBDIVIDE_D : (Src.Py.tbl.triangle_helpers.LINEAR_SUBDIVIDE_D : List (List Rat)) = py_triangle_helpers_LINEAR_SUBDIVIDE_D := by decide +kernel
theorem tbl_QUADRATIC_SUBDIVIDE_A : (Src.Py.tbl.triangle_helpers.QUADRATIC_SUBDIVIDE_A : List (List Rat)) = py_triangle_helpers_QUADRATIC_SUBDIVIDE_A := by decide +kernel
theorem tbl_QUADRATIC_SUBDIVIDE_B : (Src.Py.tbl.triangle_helpers.QUADRATIC_SUBDIVIDE_B : List (List Rat)) = py_triangle_helpers_QUADRATIC_SUBDIVIDE_B := by decide +kernel
theorem tbl_QUADRATIC_SUBDIVIDE_C : (Src.Py.tbl.triangle_helpers.QUADRATIC_SUBDIVIDE_C : List (List Rat)) = py_triangle_helpers_QUADRATIC_SUBDIVIDE_C := by decide +kernel
theorem tbl_QUADRATIC_SUBDIVIDE_D : (Src.Py.tbl.triangle_helpers.QUADRATIC_SUBDIVIDE_D : List (List Rat)) = py_triangle_helpers_QUADRATIC_SUBDIVIDE_D := by decide +kernel
theorem tbl_CUBIC_SUBDIVIDE_A : (Src.Py.tbl.triangle_helpers.CUBIC_SUBDIVIDE_A : List (List Rat)) = py_triangle_helpers_CUBIC_SUBDIVIDE_A := by decide +kernel
theorem tbl_CUBIC_SUBDIVIDE_B : (Src.Py.tbl.triangle_helpers.CUBIC_SUBDIVIDE_B : List (List Rat)) = py_triangle_helpers_CUBIC_SUBDIVIDE_B := by decide +kernel
theorem tbl_CUBIC_SUBDIVIDE_C : (Src.Py.tbl.triangle_helpers.CUBIC_SUBDIVIDE_C : List (List Rat)) = py_triangle_helpers_CUBIC_SUBDIVIDE_C := by decide +kernel
theorem tbl_CUBIC_SUBDIVIDE_D : (Src.Py.tbl.triangle_helpers.CUBIC_SUBDIVIDE_D : List (List Rat)) = py_triangle_helpers_CUBIC_SUBDIVIDE_D := by decide +kernel
theorem tbl_QUARTIC_SUBDIVIDE_A : (Src.Py.tbl.triangle_helpers.QUARTIC_SUBDIVIDE_A : List (List Rat)) = py_triangle_helpers_QUARTIC_SUBDIVIDE_A := by decide +kernel
theorem tbl_QUARTIC_SUBDIVIDE_B : (Src.Py.tbl.triangle_helpers.QUARTIC_SUBDIVIDE_B : List (List Rat)) = py_triangle_helpers_QUARTIC_SUBDIVIDE_B := by decide +kernel
theorem tbl_QUARTIC_SUBDIVIDE_C : (Src.Py.tbl.triangle_helpers.QUARTIC_SUBDIVIDE_C : List (List Rat)) = py_triangle_helpers_QUARTIC_SUBDIVIDE_C := by decide +kernel
theorem tbl_QUARTIC_SUBDIVIDE_D : (Src.Py.tbl.triangle_helpers.QUARTIC_SUBDIVIDE_D : List (List Rat)) = py_triangle_helpers_QUARTIC_SUBDIVIDE_D := by decide +kernel
theorem tbl_QUADRATIC_JACOBIAN_HELPER : (Src.Py.tbl.triangle_helpers._QUADRATIC_JACOBIAN_HELPER : List (List Rat)) = py_triangle_helpers_QUADRATIC_JACOBIAN_HELPER := by decide +kernel
theorem tbl_QUADRATIC_TO_BERNSTEIN : (Src.Py.tbl.triangle_helpers._QUADRATIC_TO_BERNSTEIN : List (List Rat)) = py_triangle_helpers_QUADRATIC_TO_BERNSTEIN := by decide +kernel
theorem tbl_CUBIC_JACOBIAN_HELPER : (Src.Py.tbl.triangle_helpers._CUBIC_JACOBIAN_HELPER : List (List Rat)) = py_triangle_helpers_CUBIC_JACOBIAN_HELPER := by decide +kernel
theorem tbl_QUARTIC_TO_BERNSTEIN : (Src.Py.tbl.triangle_helpers._QUARTIC_TO_BERNSTEIN : List (List Rat)) = py_triangle_helpers_QUARTIC_TO_BERNSTEIN := by decide +kernel
theorem tbl_WEIGHTS_SUBDIVIDE0 : (Src.Py.tbl.triangle_helpers._WEIGHTS_SUBDIVIDE0 : List Rat) = py_triangle_helpers_WEIGHTS_SUBDIVIDE0 := by decide +kernel
theorem tbl_WEIGHTS_SUBDIVIDE1 : (Src.Py.tbl.triangle_helpers._WEIGHTS_SUBDIVIDE1 : List Rat) = py_triangle_helpers_WEIGHTS_SUBDIVIDE1 := by decide +kernel
theorem tbl_WEIGHTS_SUBDIVIDE2 : (Src.Py.tbl.triangle_helpers._WEIGHTS_SUBDIVIDE2 : List Rat) = py_triangle_helpers_WEIGHTS_SUBDIVIDE2 := by decide +kernel
theorem tbl_WEIGHTS_SUBDIVIDE3 : (Src.Py.tbl.triangle_helpers._WEIGHTS_SUBDIVIDE3 : List Rat) = py_triangle_helpers_WEIGHTS_SUBDIVIDE3 := by decide +kernel
theorem tbl_WEIGHTS_SUBDIVIDE4 : (Src.Py.tbl.triangle_helpers._WEIGHTS_SUBDIVIDE4 : List Rat) = py_triangle_helpers_WEIGHTS_SUBDIVIDE4 := by decide +kernel
theorem tbl_WEIGHTS_SUBDIVIDE5 : (Src.Py.tbl.triangle_helpers._WEIGHTS_SUBDIVIDE5 : List Rat) = py_triangle_helpers_WEIGHTS_SUBDIVIDE5 := by decide +kernel

end Data

section Field4
variable {F : Type} [Field F] [LinearOrder F]

/-! ### `update_locate_candidates` (hazmat/triangle_intersection.py) -/

/-- a candidate as the 4-tuple of the code -/
def encCand (c : TriCand F) : F × F × F × List (List F) := (c.cx, c.cy, c.width, c.nodes)

theorem q_half : (Model.q 1 2 : F) = 1 / (1 + 1) := by
  unfold Model.q
  norm_num

/-- `update_locate_candidates` on a planar candidate: the box test (`Py.containsND`), the four quarters
    (`Py.triSubdivideNodes`, generic path through the parameter `spec`) and the four appended tuples with their tripled
    centroids and signed widths (`triSplitCand`; the middle triangle gets `-half_width`) -/
theorem update_locate_candidates_src
    (spec : List (List F) → Nat → List F → List F → List F → Except Err (List (List F)))
    (c : TriCand F) (next : List (TriCand F)) (x y : F) (degree : Nat) (h2 : c.nodes.length = 2)
    (hrect : ∀ r ∈ c.nodes, r.length = numNodes degree)
    (hspec : ∀ wa wb wc, spec c.nodes degree wa wb wc = Py.triSpecialize degree c.nodes (baryOf wa) (baryOf wb) (baryOf wc)) :
    Src.Py.update_locate_candidates spec (encCand c) (next.map encCand) x y degree =
      match Py.containsND c.nodes [x, y] with
      | .error e => .error e
      | .ok b =>
        if b then
          match Py.triSubdivideNodes srcTables srcWeights degree c.nodes with
          | .error e => .error e
          | .ok four => .ok ((next ++ triSplitCand c four).map encCand)
        else .ok (next.map encCand) := by
  have hne : c.nodes ≠ [] := by
    intro h; rw [h] at h2; simp at h2
  unfold Src.Py.update_locate_candidates encCand
  dsimp only
  rw [SrcPy.contains_nd_src c.nodes [x, y] (by simp [h2])]
  cases hc : Py.containsND c.nodes [x, y] with
  | error e => rfl
  | ok b =>
    cases b with
    | false => rfl
    | true =>
      simp only [Src.Py.Rt.bind_ok, Bool.not_true, Bool.false_eq_true, ↓reduceIte]
      rw [subdivide_nodes_src spec c.nodes degree hne hrect hspec]
      cases hs : Py.triSubdivideNodes (srcTables (F := F)) srcWeights degree c.nodes with
      | error e => rfl
      | ok four =>
        simp only [Src.Py.Rt.bind_ok, triSplitCand, List.map_append, List.map_cons, List.map_nil, List.append_assoc,
          List.cons_append, List.nil_append, q_half]

end Field4
end BezierVerif.SrcPyTriangle
