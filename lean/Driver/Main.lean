import Driver.Ops.Common
import Driver.Ops.Curve
import Driver.Ops.Area
import Driver.Ops.Locate
import Driver.Ops.Protocol
import Driver.Ops.Algebraic
import Driver.Ops.Triangle
import Driver.Ops.Valid
import Driver.Ops.Classify
import Driver.Ops.Helpers
import Driver.Ops.Geometric
import Driver.Ops.Walk
import Driver.Ops.LocateTri
import Driver.Ops.Quadrature
import Driver.Ops.AlgebraicAssembly
import Driver.Ops.QuadratureAdaptive

/-!
# Driver/Main — the model behind a one-line-in, one-line-out protocol (K := Rat)

request : `<op> <arg> <arg> ...`      reply : `ok <value>` | `err <enum>` | `bad <reason>`
Ops live in `Driver/Ops/*.lean` (one module per model area, each exporting `handle`).
-/

open Driver

/-- the op modules, tried in order -/
def handlers : List (String → List V → Option String) :=
  [Driver.Ops.Curve.handle, Driver.Ops.Area.handle, Driver.Ops.Locate.handle,
   Driver.Ops.Protocol.handle, Driver.Ops.Algebraic.handle, Driver.Ops.Triangle.handle, Driver.Ops.Valid.handle, Driver.Ops.Classify.handle, Driver.Ops.Helpers.handle, Driver.Ops.Geometric.handle, Driver.Ops.Walk.handle, Driver.Ops.LocateTri.handle, Driver.Ops.Quadrature.handle, Driver.Ops.AlgebraicAssembly.handle, Driver.Ops.QuadratureAdaptive.handle]

def handle (op : String) (args : List V) : Option String :=
  handlers.firstM (fun h => h op args)

def step (line : String) : String :=
  let toks := (line.trimAscii.toString.splitOn " ").filter (· ≠ "")
  match toks with
  | [] => "bad empty"
  | op :: rest =>
    match rest.mapM parseValue with
    | none => "bad parse"
    | some args =>
      match handle op args with
      | some r => r
      | none => "bad op-or-arity " ++ op

partial def loop (hin : IO.FS.Stream) (hout : IO.FS.Stream) : IO Unit := do
  let line ← hin.getLine
  if line.isEmpty then return ()
  hout.putStrLn (step line)
  loop hin hout

def main : IO Unit := do
  let hin ← IO.getStdin
  let hout ← IO.getStdout
  loop hin hout
  hout.flush
