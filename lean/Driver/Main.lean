import BezierVerif.Model.Basic
import BezierVerif.Model.Curve
import Driver.Proto

/-!
# Driver/Main — the model behind a one-line-in, one-line-out protocol (K := Rat)

request : `<op> <arg> <arg> ...`      reply : `ok <value>` | `err <enum>` | `bad <reason>`
-/

open BezierVerif.Model
open Driver

abbrev Q := Rat

def errV (e : Err) : String := "err " ++ e.toString

def okV (v : V) : String := "ok " ++ v.render

def exceptMat (r : Except Err (List (List Q))) : String :=
  match r with
  | .ok m => okV (ofMat m)
  | .error e => errV e

def pairMat (p : List (List Q) × List (List Q)) : V := .list [ofMat p.1, ofMat p.2]

/-- dispatch on the op name -/
def handle (op : String) (args : List V) : Option String :=
  match op, args with
  -- curve evaluation
  | "evalvs", [nodes, l1, l2] => do
    let m ← nodes.toMat?; let a ← l1.toRat?; let b ← l2.toRat?
    pure (okV (ofRow (m.map (fun row => evalVS (row.length - 1) a b (seq row)))))
  | "evaldc", [nodes, l1, l2] => do
    let m ← nodes.toMat?; let a ← l1.toRat?; let b ← l2.toRat?
    pure (okV (ofRow (m.map (fun row => evalDC a b (row.length - 1) row))))
  | "evalbary", [thr, nodes, l1s, l2s] => do
    let t ← thr.toNat?; let m ← nodes.toMat?; let a ← l1s.toRow?; let b ← l2s.toRow?
    pure (okV (ofMat (evalMultiBary t m (a.zip b))))
  | "evalmulti", [thr, nodes, ss] => do
    let t ← thr.toNat?; let m ← nodes.toMat?; let s ← ss.toRow?
    pure (okV (ofMat (evalMulti t m s)))
  -- subdivision / specialisation
  | "subdivide_py", [nodes] => do
    let m ← nodes.toMat?
    pure (okV (pairMat (Py.subdivide m)))
  | "subdivide_f90", [nodes] => do
    let m ← nodes.toMat?
    pure (okV (pairMat (F90.subdivide m)))
  | "submat", [n] => do
    let d ← n.toNat?
    pure (okV (.list [ofMat (leftMat (K := Q) d), ofMat (rightMat (K := Q) d)]))
  | "specialize_py", [nodes, a, b] => do
    let m ← nodes.toMat?; let a ← a.toRat?; let b ← b.toRat?
    pure (okV (ofMat (Py.specialize m a b)))
  | "specialize_f90", [nodes, a, b] => do
    let m ← nodes.toMat?; let a ← a.toRat?; let b ← b.toRat?
    pure (okV (ofMat (F90.specialize m a b)))
  -- elevation / reduction
  | "elevate", [nodes] => do
    let m ← nodes.toMat?
    pure (okV (ofMat (elevate m)))
  | "elevate_f90", [nodes] => do
    let m ← nodes.toMat?
    pure (okV (ofMat (m.map F90.elevateRow)))
  | "reduce", [nodes] => do
    let m ← nodes.toMat?
    pure (exceptMat (reducePinv m))
  | "fullreduce", [thrSq, nodes] => do
    let t ← thrSq.toRat?; let m ← nodes.toMat?
    pure (exceptMat (fullReduce t m))
  | "canreduce", [thrSq, nodes] => do
    let t ← thrSq.toRat?; let m ← nodes.toMat?
    pure (match canReduce t m with
      | .ok b => okV (ofBool b)
      | .error e => errV e)
  -- derivatives
  | "hodograph", [thr, nodes, s] => do
    let t ← thr.toNat?; let m ← nodes.toMat?; let s ← s.toRat?
    pure (okV (ofRow (hodograph t m s)))
  | "curvature_parts", [thr, nodes, tangent, s] => do
    let t ← thr.toNat?; let m ← nodes.toMat?; let tv ← tangent.toRow?; let s ← s.toRat?
    let p := curvatureParts t m tv s
    pure (okV (ofRow [p.1, p.2]))
  | "newton_refine_curve", [thr, nodes, point, s] => do
    let t ← thr.toNat?; let m ← nodes.toMat?; let p ← point.toRow?; let s ← s.toRat?
    pure (okV (.num (newtonRefine t m p s)))
  | _, _ => none

def step (line : String) : String :=
  let toks := (line.trimAscii.toString.splitOn " ").filter (· ≠ "")
  match toks with
  | [] => "bad empty"
  | op :: rest =>
    match rest.mapM parseValue with
    | none => "bad parse"
    | some args =>
      match handle op args with
      | some r => r
      | none => "bad op-or-arity " ++ op

partial def loop (hin : IO.FS.Stream) (hout : IO.FS.Stream) : IO Unit := do
  let line ← hin.getLine
  if line.isEmpty then return ()
  hout.putStrLn (step line)
  loop hin hout

def main : IO Unit := do
  let hin ← IO.getStdin
  let hout ← IO.getStdout
  loop hin hout
  hout.flush
