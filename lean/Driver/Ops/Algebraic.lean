import BezierVerif.Model.Basic
import BezierVerif.Model.Curve
import BezierVerif.Model.Algebraic
import Driver.Ops.Common

/-! # Driver/Ops/Algebraic — protocol ops of `Model/Algebraic.lean` (K := Rat)

External numerics are supplied by the caller as constants (`l2`, `rank`, lists of complex
roots as `[re,im]` pairs); `polyfit` is replaced by the model's exact interpolation. -/

open BezierVerif.Model
open BezierVerif.Model.Alg
open Driver

namespace Driver.Ops.Algebraic

def toPairs? (v : V) : Option (List (Q × Q)) := do
  let m ← v.toMat?
  m.mapM (fun r => match r with | [a, b] => some (a, b) | _ => none)

def ofPairs (l : List (Q × Q)) : V := .list (l.map (fun z => ofRow [z.1, z.2]))

/-- `[vsThr, cheb7, cheb9, cheb10, reduceThrSq, l2ThrSq, coeffThr, nonSimpleThr, sigmaThrSq,
     wiggleStart, wiggleEnd, imagWiggle, zeroThr]` -/
def toParams? (v : V) : Option (Params Q) := do
  match ← v.toList? with
  | [a, c7, c9, c10, r, l2, ct, ns, sg, ws, we, iw, zt] =>
    pure { vsThr := ← a.toNat?, cheb7 := ← c7.toRow?, cheb9 := ← c9.toRow?, cheb10 := ← c10.toRow?,
           reduceThrSq := ← r.toRat?, l2ThrSq := ← l2.toRat?, coeffThr := ← ct.toRat?,
           nonSimpleThr := ← ns.toRat?, sigmaThrSq := ← sg.toRat?, wiggleStart := ← ws.toRat?,
           wiggleEnd := ← we.toRat?, imagWiggle := ← iw.toRat?, zeroThr := ← zt.toRat? }
  | _ => none

/-- externals as constants; `fit` = exact interpolation -/
def mkExt (l2 : Q) (rank : Nat) (eig roots : List (Q × Q)) : Externals Q :=
  { fit := fun nodes vals _ => interpolate nodes vals, sqrt := fun _ => l2, rank := fun _ => rank,
    eigvals := fun _ => eig, polyroots := fun _ => roots }

def exceptNum (r : Except Err Q) : String :=
  match r with
  | .ok x => okV (.num x)
  | .error e => errV e

def exceptRow (r : Except Err (List Q)) : String :=
  match r with
  | .ok x => okV (ofRow x)
  | .error e => errV e

def handle (op : String) (args : List V) : Option String :=
  match op, args with
  | "alg_evaluate", [nodes, x, y] => do
    let m ← nodes.toMat?; let x ← x.toRat?; let y ← y.toRat?
    pure (exceptNum (evaluate m x y))
  | "alg_det", [n, mat] => do
    let n ← n.toNat?; let m ← mat.toMat?
    pure (okV (.num (det n m)))
  | "alg_sylvester3", [nodes, x, y] => do
    let m ← nodes.toMat?; let x ← x.toRat?; let y ← y.toRat?
    pure (okV (ofMat (sylvester3 (m.getD 0 []) (m.getD 1 []) x y)))
  | "alg_evalipoly", [thr, n1, n2, ts] => do
    let t ← thr.toNat?; let a ← n1.toMat?; let b ← n2.toMat?; let ts ← ts.toRow?
    pure (exceptRow (mapE (evalIntersectionPolynomial t a b) ts))
  | "alg_pbkind", [a, b] => do
    let a ← a.toNat?; let b ← b.toNat?
    pure (match pbKind a b with
      | some k => okV (ofNat k.code)
      | none => errV .notImplemented)
  | "alg_topower", [par, n1, n2] => do
    let p ← toParams? par; let a ← n1.toMat?; let b ← n2.toMat?
    pure (exceptRow (toPowerBasis (mkExt 1 0 [] []) p a b))
  | "alg_interp", [nodes, vals] => do
    let n ← nodes.toRow?; let v ← vals.toRow?
    pure (okV (ofRow (interpolate n v)))
  | "alg_invvander", [nodes] => do
    let n ← nodes.toRow?
    pure (okV (ofMat (invVandermonde n)))
  | "alg_normsq", [coeffs] => do
    let c ← coeffs.toRow?
    pure (okV (.num (polynomialNormSq c)))
  | "alg_normalize", [thrSq, l2, coeffs] => do
    let t ← thrSq.toRat?; let l ← l2.toRat?; let c ← coeffs.toRow?
    pure (okV (ofRow (normalizePolynomial t l c)))
  | "alg_sigma", [coeffs] => do
    let c ← coeffs.toRow?
    let r := getSigmaCoeffs c
    pure (okV (.list [ofBool r.1.isSome, ofRow (r.1.getD []), ofNat r.2.1, ofNat r.2.2]))
  | "alg_companion", [coeffs] => do
    let c ← coeffs.toRow?
    let r := bernsteinCompanion c
    pure (okV (.list [ofMat r.1, ofNat r.2.1, ofNat r.2.2]))
  | "alg_lucompanion", [top, value] => do
    let t ← top.toRow?; let v ← value.toRat?
    pure (match luCompanion t v with
      | .ok r => okV (.list [ofMat r.1, .num r.2])
      | .error e => errV e)
  | "alg_polytopower", [coeffs] => do
    let c ← coeffs.toRow?
    pure (exceptRow (polyToPowerBasis c))
  | "alg_polyval", [coeffs, xs] => do
    let c ← coeffs.toRow?; let xs ← xs.toRow?
    pure (okV (ofRow (xs.map (polyval c))))
  | "alg_rootsfilter", [thrSq, roots, degree, e] => do
    let t ← thrSq.toRat?; let r ← toPairs? roots; let d ← degree.toNat?; let e ← e.toNat?
    pure (okV (ofPairs (bezierRootsFilter t r d e)))
  | "alg_bezierroots", [par, eig, coeffs] => do
    let p ← toParams? par; let r ← toPairs? eig; let c ← coeffs.toRow?
    pure (okV (ofPairs (bezierRoots (mkExt 1 0 r []) p c)))
  | "alg_unitfilter", [par, roots] => do
    let p ← toParams? par; let r ← toPairs? roots
    pure (okV (ofRow (unitIntervalFilter p r)))
  | "alg_strip", [thr, coeffs] => do
    let t ← thr.toRat?; let c ← coeffs.toRow?
    pure (exceptRow (stripLeadingZeros t c))
  | "alg_nonsimple_matrix", [thr, coeffs] => do
    let t ← thr.toRat?; let c ← coeffs.toRow?
    pure (match stripLeadingZeros t c with
      | .ok cs => okV (ofMat (polyAtMatrix cs (polyCompanionT (polyder cs))))
      | .error e => errV e)
  | "alg_checknonsimple", [par, rank, coeffs] => do
    let p ← toParams? par; let r ← rank.toNat?; let c ← coeffs.toRow?
    pure (match checkNonSimple (mkExt 1 r [] []) p c with
      | .ok () => okV (ofNat 1)
      | .error e => errV e)
  | "alg_bboxdisjoint", [n1, n2] => do
    let a ← n1.toMat?; let b ← n2.toMat?
    pure (okV (ofBool (bboxDisjoint a b)))
  | "alg_gate", [par, l2, rank, n1, n2] => do
    let p ← toParams? par; let l ← l2.toRat?; let r ← rank.toNat?
    let a ← n1.toMat?; let b ← n2.toMat?
    pure (match allIntersectionsGate (mkExt l r [] []) p a b with
      | .ok none => okV (ofNat 0)
      | .ok (some s) => okV (.list [ofMat s.nodes1, ofMat s.nodes2, ofBool s.swapped, ofRow s.coeffs])
      | .error e => errV e)
  | "alg_locate", [par, l2, roots, nodes, x, y] => do
    let p ← toParams? par; let l ← l2.toRat?; let r ← toPairs? roots
    let m ← nodes.toMat?; let x ← x.toRat?; let y ← y.toRat?
    pure (match locatePoint (mkExt l 0 [] r) p m x y with
      | .ok none => okV (.list [])
      | .ok (some s) => okV (.list [.num s])
      | .error e => errV e)
  | _, _ => none

end Driver.Ops.Algebraic
