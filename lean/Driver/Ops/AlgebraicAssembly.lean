import BezierVerif.Model.Basic
import BezierVerif.Model.Curve
import BezierVerif.Model.Algebraic
import BezierVerif.Model.AlgebraicAssembly
import Driver.Ops.Common
import Driver.Ops.Algebraic

/-! # Driver/Ops/AlgebraicAssembly — protocol ops of `Model/AlgebraicAssembly.lean` (K := Rat)

The external numerics are handed over by the caller as ORACLE TABLES (association lists keyed by the exact
rational argument the model passes to the external routine):

`oracles = [sqrtTab, rankTab, rootsTab, fitTab]`
* `sqrtTab  = [[x, sqrt_x], …]`                     (`np.sqrt` inside `polynomial_norm`)
* `rankTab  = [[matrix, rank], …]`                  (`np.linalg.matrix_rank` inside `_check_non_simple`)
* `rootsTab = [[coeffs, [[re, im], …]], …]`         (`polynomial.polyroots`: once for the intersection
                                                     polynomial, once per `t`-root inside `locate_point`)
* `fitTab   = [[[nodes, vals, deg], coeffs], …]`     (`polynomial.polyfit(nodes, vals, deg)`, pairs 2-3, 2-4, 3-3 only)

`algebraic_all_intersections par wiggle oracles nodes1 nodes2` replies
* `ok [0, kind, key]` when the run needs an oracle value that is not in the tables
  (`kind` 0 = sqrt, `key` a number; 1 = rank, `key` a matrix; 2 = roots, `key` a coefficient list;
   3 = polyfit, `key = [nodes, vals, deg]`):
  the caller computes it (numpy on the floats of `key`), appends `[key, value]` to the table and asks again;
* `ok [1, s_row, t_row]` — the two rows of the `2 × N` array `all_intersections` returns (flag is always `False`);
* `err notImplemented | unsupportedDegree | valueError | badInput` — the exception of the model run.
-/

open BezierVerif.Model
open BezierVerif.Model.Alg
open Driver
open Driver.Ops.Algebraic

namespace Driver.Ops.AlgebraicAssembly

structure Oracles where
  sqrtTab : List (Q × Q)
  rankTab : List (List (List Q) × Nat)
  rootsTab : List (List Q × List (Q × Q))
  fitTab : List ((List Q × List Q × Nat) × List Q)

def toOracles? (v : V) : Option Oracles := do
  match ← v.toList? with
  | [s, r, p, f] =>
    let s ← (← s.toList?).mapM (fun e => do
      match ← e.toList? with
      | [k, x] => pure ((← k.toRat?), (← x.toRat?))
      | _ => none)
    let r ← (← r.toList?).mapM (fun e => do
      match ← e.toList? with
      | [k, x] => pure ((← k.toMat?), (← x.toNat?))
      | _ => none)
    let p ← (← p.toList?).mapM (fun e => do
      match ← e.toList? with
      | [k, x] => pure ((← k.toRow?), (← toPairs? x))
      | _ => none)
    let f ← (← f.toList?).mapM (fun e => do
      match ← e.toList? with
      | [k, x] =>
        match ← k.toList? with
        | [n, v, d] => pure (((← n.toRow?), (← v.toRow?), (← d.toNat?)), (← x.toRow?))
        | _ => none
      | _ => none)
    pure { sqrtTab := s, rankTab := r, rootsTab := p, fitTab := f }
  | _ => none

/-- externals as table lookups (a missing key answers `0` / `0` / `[]`; `firstMissing` reports it before the
    run is used) -/
def mkExtTab (o : Oracles) : Externals Q :=
  { fit := fun nodes vals deg => ((o.fitTab.find? (fun e => e.1 = (nodes, vals, deg))).map (·.2)).getD [],
    sqrt := fun x => ((o.sqrtTab.find? (fun e => e.1 = x)).map (·.2)).getD 0,
    rank := fun m => ((o.rankTab.find? (fun e => e.1 = m)).map (·.2)).getD 0,
    eigvals := fun _ => [],
    polyroots := fun c => ((o.rootsTab.find? (fun e => e.1 = c)).map (·.2)).getD [] }

inductive Need where
  | sqrt (x : Q)
  | rank (m : List (List Q))
  | roots (c : List Q)
  | fit (nodes vals : List Q) (deg : Nat)

def Need.toV : Need → V
  | .sqrt x => .list [ofNat 0, ofNat 0, .num x]
  | .rank m => .list [ofNat 0, ofNat 1, ofMat m]
  | .roots c => .list [ofNat 0, ofNat 2, ofRow c]
  | .fit n v d => .list [ofNat 0, ofNat 3, .list [ofRow n, ofRow v, ofNat d]]

def needSqrt (o : Oracles) (x : Q) : Option Need :=
  if o.sqrtTab.any (fun e => e.1 = x) then none else some (.sqrt x)

def needRank (o : Oracles) (m : List (List Q)) : Option Need :=
  if o.rankTab.any (fun e => e.1 = m) then none else some (.rank m)

def needRoots (o : Oracles) (c : List Q) : Option Need :=
  if o.rootsTab.any (fun e => e.1 = c) then none else some (.roots c)

/-- the `polyfit` query of `to_power_basis(nodes1, nodes2)`, if it makes one -/
def fitQuery (par : Params Q) (n1 n2 : List (List Q)) : Option (List Q × List Q × Nat) :=
  let q (nodes : List Q) (deg : Nat) : Option (List Q × List Q × Nat) :=
    match mapE (evalIntersectionPolynomial par.vsThr n1 n2) nodes with
    | .ok vals => some (nodes, vals, deg)
    | .error _ => none
  match pbKind (ncols n1) (ncols n2) with
  | some .pb23 => q par.cheb7 6
  | some .deg8 => q par.cheb9 8
  | some .pb33 => q par.cheb10 9
  | _ => none

def needFit (o : Oracles) (k : List Q × List Q × Nat) : Option Need :=
  if o.fitTab.any (fun e => e.1 = k) then none else some (.fit k.1 k.2.1 k.2.2)

/-- the `matrix_rank` query of `_check_non_simple(coeffs)`, if it makes one -/
def rankQuery (par : Params Q) (coeffs : List Q) : Option (List (List Q)) :=
  match stripLeadingZeros par.coeffThr coeffs with
  | .error _ => none
  | .ok cs =>
    if cs.length < 3 then none
    else
      let comp := polyCompanionT (polyder cs)
      if comp.length = 1 then none else some (polyAtMatrix cs comp)

/-- the oracle queries of one `locate_point(nodes1, x, y)` call -/
def locateMissing (o : Oracles) (par : Params Q) (nodes1 : List (List Q)) (x y : Q) : Option Need :=
  match locatePolys par nodes1 x y with
  | .error _ => none
  | .ok (pb1, z2) =>
    (needRoots o pb1).orElse fun _ =>
      if (rootsInUnitInterval (mkExtTab o) par pb1).length = 0 then none
      else
        match polyToPowerBasis z2 with
        | .error _ => none
        | .ok pb2raw => needSqrt o (polynomialNormSq pb2raw)

/-- first oracle key the run `algAllIntersections (mkExtTab o) par wiggle A B` asks for that is not in the
    tables (walks the same stages as the model, built from the model's own pieces) -/
def firstMissing (o : Oracles) (par : Params Q) (A B : List (List Q)) : Option Need :=
  let ext := mkExtTab o
  if bboxDisjoint A B then none
  else
    match fullReduce par.reduceThrSq A, fullReduce par.reduceThrSq B with
    | .ok r1, .ok r2 =>
      let swapped := decide (ncols r1 > ncols r2)
      let n1 := if swapped then r2 else r1
      let n2 := if swapped then r1 else r2
      ((fitQuery par n1 n2).bind (needFit o)).orElse fun _ =>
      match toPowerBasis ext par n1 n2 with
      | .error _ => none
      | .ok raw =>
        (needSqrt o (polynomialNormSq raw)).orElse fun _ =>
          let coeffs := normalizePolynomial par.l2ThrSq (ext.sqrt (polynomialNormSq raw)) raw
          if coeffs.all (fun x => decide (x = 0)) then none
          else
            ((rankQuery par coeffs).bind (needRank o)).orElse fun _ =>
              match checkNonSimple ext par coeffs with
              | .error _ => none
              | .ok () =>
                (needRoots o coeffs).orElse fun _ =>
                  (rootsInUnitInterval ext par coeffs).firstM (fun t =>
                    let p := evalPoint par.vsThr n2 t
                    locateMissing o par n1 (seq p 0) (seq p 1))
    | _, _ => none

def handle (op : String) (args : List V) : Option String :=
  match op, args with
  | "algebraic_all_intersections", [par, wiggle, oracles, n1, n2] => do
    let p ← toParams? par; let w ← wiggle.toRat?; let o ← toOracles? oracles
    let a ← n1.toMat?; let b ← n2.toMat?
    pure (match firstMissing o p a b with
      | some need => okV need.toV
      | none =>
        match algAllIntersections (mkExtTab o) p w a b with
        | .ok ((ss, ts), _) => okV (.list [ofNat 1, ofRow ss, ofRow ts])
        | .error e => errV e)
  | "alg_newton_refine", [thr, s, n1, t, n2] => do
    let thr ← thr.toNat?; let s ← s.toRat?; let t ← t.toRat?
    let a ← n1.toMat?; let b ← n2.toMat?
    pure (match newtonRefineCurves thr s a t b with
      | .ok (s', t') => okV (ofRow [s', t'])
      | .error e => errV e)
  | "alg_resolve_and_add", [thr, wiggle, n1, s, n2, t] => do
    let thr ← thr.toNat?; let w ← wiggle.toRat?; let s ← s.toRat?; let t ← t.toRat?
    let a ← n1.toMat?; let b ← n2.toMat?
    pure (match resolveAndAdd thr w a s [] b t [] with
      | .ok (ss, ts) => okV (.list [ofRow ss, ofRow ts])
      | .error e => errV e)
  | "alg_locate_polys", [par, nodes, x, y] => do
    let p ← toParams? par; let m ← nodes.toMat?; let x ← x.toRat?; let y ← y.toRat?
    pure (match locatePolys p m x y with
      | .ok (pb1, z2) => okV (.list [ofRow pb1, ofRow z2])
      | .error e => errV e)
  | _, _ => none

end Driver.Ops.AlgebraicAssembly
