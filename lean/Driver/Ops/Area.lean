import BezierVerif.Model.Area
import Driver.Ops.Common

/-! # Driver/Ops/Area — protocol ops of `Model/Area.lean` -/

open BezierVerif.Model
open Driver

namespace Driver.Ops.Area

def handle (op : String) (args : List V) : Option String :=
  match op, args with
  | "shoelace", [nodes] => do
    let m ← nodes.toMat?
    pure (match shoelace (K := Q) (m.getD 0 []) (m.getD 1 []) with
      | .ok v => okV (.num v)
      | .error e => errV e)
  | "compute_area", [edges] => do
    let l ← edges.toList?
    let es ← l.mapM V.toMat?
    pure (match computeArea (K := Q) es with
      | .ok v => okV (.num v)
      | .error e => errV e)
  | "length_integrand_sq", [thr, nodes, s] => do
    let t ← thr.toNat?; let m ← nodes.toMat?; let s ← s.toRat?
    pure (okV (.num (lengthIntegrandSq t m s)))
  | "length_closed_sq", [nodes] => do
    let m ← nodes.toMat?
    pure (match lengthClosedFormSq (K := Q) m with
      | .ok (some v) => okV (.list [.num v])
      | .ok none => okV (.list [])
      | .error e => errV e)
  | _, _ => none

end Driver.Ops.Area
