import BezierVerif.Model.Classify
import Driver.Ops.Common

/-!
# Driver/Ops/Classify — protocol ops of `Model/Classify.lean` (K := Rat)

Encodings: an optional value is `[]` / `[v]`; an `Intersection` is
`[index_first?, s?, index_second?, t?, interior?]` (interior = enum code); a segment is `[index,start,end]`.
-/

open BezierVerif.Model
open BezierVerif.Model.Classify
open Driver

namespace Driver.Ops.Classify

def optRat? (v : V) : Option (Option Q) := do
  let l ← v.toList?
  match l with
  | [] => pure none
  | [x] => do let r ← x.toRat?; pure (some r)
  | _ => none

def optNat? (v : V) : Option (Option Nat) := do
  let l ← v.toList?
  match l with
  | [] => pure none
  | [x] => do let r ← x.toNat?; pure (some r)
  | _ => none

def optCls? (v : V) : Option (Option Cls) := do
  let l ← v.toList?
  match l with
  | [] => pure none
  | [x] => do let r ← x.toNat?; let c ← Cls.ofCode r; pure (some c)
  | _ => none

def inter? (v : V) : Option (Intersection Q) := do
  let l ← v.toList?
  match l with
  | [a, b, c, d, e] => do
    let a ← optNat? a; let b ← optRat? b; let c ← optNat? c; let d ← optRat? d; let e ← optCls? e
    pure { indexFirst := a, s := b, indexSecond := c, t := d, interior := e }
  | _ => none

def ofOptRat : Option Q → V
  | none => .list []
  | some x => .list [.num x]

def ofOptNat : Option Nat → V
  | none => .list []
  | some x => .list [ofNat x]

def ofInter (x : Intersection Q) : V :=
  .list [ofOptNat x.indexFirst, ofOptRat x.s, ofOptNat x.indexSecond, ofOptRat x.t,
         ofOptNat (x.interior.map Cls.code)]

def clsReply (r : Except Err Cls) : String :=
  match r with
  | .ok c => okV (ofNat c.code)
  | .error e => errV e

def seg? (v : V) : Option (Segment Q) := do
  let l ← v.toList?
  match l with
  | [i, a, b] => do let i ← i.toNat?; let a ← a.toRat?; let b ← b.toRat?; pure (i, a, b)
  | _ => none

def mats? (v : V) : Option (List (List (List Q))) := do
  let l ← v.toList?
  l.mapM V.toMat?

def handle (op : String) (args : List V) : Option String :=
  match op, args with
  | "handle_ends", [i1, s, i2, t] => do
    let i1 ← i1.toNat?; let s ← s.toRat?; let i2 ← i2.toNat?; let t ← t.toRat?
    let r := handleEnds (K := Q) i1 s i2 t
    pure (okV (.list [ofBool r.1, ofBool r.2.1, ofNat r.2.2.1, .num r.2.2.2.1, ofNat r.2.2.2.2.1, .num r.2.2.2.2.2]))
  | "classify_coincident", [st, c] => do
    let m ← st.toMat?; let c ← c.toNat?
    pure (okV (ofOptNat ((classifyCoincident (K := Q) m (c != 0)).map Cls.code)))
  | "should_use", [x] => do
    let x ← inter? x
    pure (okV (ofBool (shouldUse x)))
  | "ignored_corner", [s, t, t1, t2, p1, p2] => do
    let s ← s.toRat?; let t ← t.toRat?
    let t1 ← t1.toRow?; let t2 ← t2.toRow?; let p1 ← p1.toRow?; let p2 ← p2.toRow?
    pure (okV (ofBool (ignoredCorner s t t1 t2 p1 p2)))
  | "classify_tangent", [d, c1, n1, c2, n2] => do
    let d ← d.toRat?; let c1 ← c1.toRat?; let n1 ← n1.toRat?; let c2 ← c2.toRat?; let n2 ← n2.toRat?
    pure (clsReply (classifyTangent d c1 n1 c2 n2))
  | "classify_tangents", [s, t, t1, t2, p1, p2, c1, n1, c2, n2] => do
    let s ← s.toRat?; let t ← t.toRat?
    let t1 ← t1.toRow?; let t2 ← t2.toRow?; let p1 ← p1.toRow?; let p2 ← p2.toRow?
    let c1 ← c1.toRat?; let n1 ← n1.toRat?; let c2 ← c2.toRat?; let n2 ← n2.toRat?
    pure (clsReply (classifyWithTangents s t t1 t2 p1 p2 c1 n1 c2 n2))
  | "classify_intersection", [thr, i1, s, i2, t, e1, e2] => do
    let thr ← thr.toNat?; let i1 ← i1.toNat?; let s ← s.toRat?; let i2 ← i2.toNat?; let t ← t.toRat?
    let e1 ← mats? e1; let e2 ← mats? e2
    pure (clsReply (classifyIntersection thr i1 s i2 t e1 e2))
  | "to_front", [x, ints, unused] => do
    let x ← inter? x
    let l ← ints.toList?; let ints ← l.mapM inter?
    let u ← unused.toList?; let u ← u.mapM V.toNat?
    let r := toFront x ints u
    let un := V.list (r.2.map ofNat)
    pure (match r.1 with
      | .existing i => okV (.list [ofNat 0, ofNat i, un])
      | .other y => okV (.list [ofNat 1, ofInter y, un]))
  | "ends_to_curve", [a, b] => do
    let a ← inter? a; let b ← inter? b
    pure (match endsToCurve a b with
      | .ok sg => okV (.list [ofNat sg.1, .num sg.2.1, .num sg.2.2])
      | .error e => errV e)
  | "verify_edge_segments", [infos] => do
    let l ← infos.toList?
    let infos ← l.mapM (fun v => do let r ← v.toList?; r.mapM seg?)
    pure (match verifyEdgeSegments (K := Q) (some infos) with
      | .ok _ => okV (ofNat 1)
      | .error e => errV e)
  | "bbox_intersect", [n1, n2] => do
    let n1 ← n1.toMat?; let n2 ← n2.toMat?
    pure (okV (ofNat (bboxIntersect n1 n2).code))
  | _, _ => none

end Driver.Ops.Classify
