import BezierVerif.Model.Basic
import Driver.Proto

/-! # Driver/Ops/Common — reply helpers shared by all op modules -/

open BezierVerif.Model
open Driver

namespace Driver

abbrev Q := Rat

def errV (e : Err) : String := "err " ++ e.toString

def okV (v : V) : String := "ok " ++ v.render

def exceptMat (r : Except Err (List (List Q))) : String :=
  match r with
  | .ok m => okV (ofMat m)
  | .error e => errV e

def pairMat (p : List (List Q) × List (List Q)) : V := .list [ofMat p.1, ofMat p.2]

end Driver
