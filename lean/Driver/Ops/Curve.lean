import BezierVerif.Model.Basic
import BezierVerif.Model.Curve
import Driver.Ops.Common

/-! # Driver/Ops/Curve — protocol ops of `Model/Curve.lean` (K := Rat) -/

open BezierVerif.Model
open Driver

namespace Driver.Ops.Curve

/-- dispatch on the op name -/
def handle (op : String) (args : List V) : Option String :=
  match op, args with
  -- curve evaluation
  | "evalvs", [nodes, l1, l2] => do
    let m ← nodes.toMat?; let a ← l1.toRat?; let b ← l2.toRat?
    pure (okV (ofRow (m.map (fun row => evalVS (row.length - 1) a b (seq row)))))
  | "evaldc", [nodes, l1, l2] => do
    let m ← nodes.toMat?; let a ← l1.toRat?; let b ← l2.toRat?
    pure (okV (ofRow (m.map (fun row => evalDC a b (row.length - 1) row))))
  | "evalbary", [thr, nodes, l1s, l2s] => do
    let t ← thr.toNat?; let m ← nodes.toMat?; let a ← l1s.toRow?; let b ← l2s.toRow?
    pure (okV (ofMat (evalMultiBary t m (a.zip b))))
  | "evalmulti", [thr, nodes, ss] => do
    let t ← thr.toNat?; let m ← nodes.toMat?; let s ← ss.toRow?
    pure (okV (ofMat (evalMulti t m s)))
  -- subdivision / specialisation
  | "subdivide_py", [nodes] => do
    let m ← nodes.toMat?
    -- `Py.subdivide m` with the two matrices computed once (all rows have the same length):
    -- row-wise this is literally `Py.subdivideRow`
    let n := ncols m - 1
    let lm := leftMat (K := Q) n
    let rm := rightMat (K := Q) n
    pure (okV (pairMat (m.map (fun r => rowMul r lm), m.map (fun r => rowMul r rm))))
  | "subdivide_f90", [nodes] => do
    let m ← nodes.toMat?
    pure (okV (pairMat (F90.subdivide m)))
  | "submat", [n] => do
    let d ← n.toNat?
    pure (okV (.list [ofMat (leftMat (K := Q) d), ofMat (rightMat (K := Q) d)]))
  | "specialize_py", [nodes, a, b] => do
    let m ← nodes.toMat?; let a ← a.toRat?; let b ← b.toRat?
    pure (okV (ofMat (Py.specialize m a b)))
  | "specialize_f90", [nodes, a, b] => do
    let m ← nodes.toMat?; let a ← a.toRat?; let b ← b.toRat?
    pure (okV (ofMat (F90.specialize m a b)))
  -- elevation / reduction
  | "elevate", [nodes] => do
    let m ← nodes.toMat?
    pure (okV (ofMat (elevate m)))
  | "elevate_f90", [nodes] => do
    let m ← nodes.toMat?
    pure (okV (ofMat (m.map F90.elevateRow)))
  | "reduce", [nodes] => do
    let m ← nodes.toMat?
    pure (exceptMat (reducePinv m))
  | "fullreduce", [thrSq, nodes] => do
    let t ← thrSq.toRat?; let m ← nodes.toMat?
    pure (exceptMat (fullReduce t m))
  | "canreduce", [thrSq, nodes] => do
    let t ← thrSq.toRat?; let m ← nodes.toMat?
    pure (match canReduce t m with
      | .ok b => okV (ofBool b)
      | .error e => errV e)
  -- derivatives
  | "hodograph", [thr, nodes, s] => do
    let t ← thr.toNat?; let m ← nodes.toMat?; let s ← s.toRat?
    pure (okV (ofRow (hodograph t m s)))
  | "curvature_parts", [thr, nodes, tangent, s] => do
    let t ← thr.toNat?; let m ← nodes.toMat?; let tv ← tangent.toRow?; let s ← s.toRat?
    let p := curvatureParts t m tv s
    pure (okV (ofRow [p.1, p.2]))
  | "newton_refine_curve", [thr, nodes, point, s] => do
    let t ← thr.toNat?; let m ← nodes.toMat?; let p ← point.toRow?; let s ← s.toRat?
    pure (okV (.num (newtonRefine t m p s)))
  | _, _ => none


end Driver.Ops.Curve
