import BezierVerif.Model.GeometricInst
import Driver.Ops.Common

/-! # Driver/Ops/Geometric — the intersection pipeline with the concrete primitives (K := Rat)

`consts` argument (extracted values, unsquared):
`[maxRounds, maxCandidates, errVal, zeroThr, newtonRatio, minWidth, wiggle, vectorCloseEps, vsThr, newtonFuel, locateRounds, locateStdCap, unhandledLinesRaise]`
`bits`: Newton iterates are rounded to that many fractional bits after every step (0 = exact). -/

open BezierVerif.Model
open Driver

namespace Driver.Ops.Geometric

def roundBits (bits : Nat) (x : Q) : Q :=
  if bits = 0 then x
  else
    let sc : Q := ((2 ^ bits : Nat) : Q)
    ((x * sc + 1 / 2).floor : Q) / sc

def mkConsts (bits : Nat) (c : List Q) : Option (PipelineConsts Q) :=
  match c with
  | [maxRounds, maxCand, errVal, zeroThr, ratio, minWidth, wiggle, eps, vsThr, fuel, locRounds, locCap, unh] =>
    some { geo := { errValSq := errVal * errVal, maxRounds := maxRounds.floor.toNat, maxCandidates := maxCand.floor.toNat,
                    zeroThr := zeroThr, ratioSq := ratio * ratio, minWidth := minWidth, unhandledLinesRaise := unh ≠ 0 },
           vsThr := vsThr.floor.toNat, wiggle := wiggle, epsSq := eps * eps, newtonFuel := fuel.floor.toNat,
           locateRounds := locRounds.floor.toNat, locateCapSq := locCap * locCap, rnd := roundBits bits }
  | _ => none

def ofPairs (l : List (Q × Q)) : V := .list (l.map (fun p => .list [.num p.1, .num p.2]))

def handle (op : String) (args : List V) : Option String :=
  match op, args with
  | "all_intersections", [py, bits, consts, n1, n2] => do
    let py ← py.toNat?; let bits ← bits.toNat?; let c ← consts.toRow?; let n1 ← n1.toMat?; let n2 ← n2.toMat?
    let C ← mkConsts bits c
    pure (match allIntersections (concretePrims (py ≠ 0) C) C.geo n1 n2 with
      | .ok (pts, flag) => okV (.list [ofPairs pts, ofBool flag])
      | .error e => errV e)
  | "self_intersections", [py, bits, consts, fuel, nodes] => do
    let py ← py.toNat?; let bits ← bits.toNat?; let c ← consts.toRow?; let fuel ← fuel.toNat?; let n ← nodes.toMat?
    let C ← mkConsts bits c
    pure (match selfIntersections (concretePrims (py ≠ 0) C) C.geo fuel n with
      | .ok pts => okV (ofPairs pts)
      | .error e => errV e)
  | "turning_below_pi", [nodes] => do
    let n ← nodes.toMat?
    pure (okV (ofBool (turningBelowPi n)))
  | "full_newton", [py, bits, consts, s, n1, t, n2] => do
    let py ← py.toNat?; let bits ← bits.toNat?; let c ← consts.toRow?; let s ← s.toRat?; let t ← t.toRat?
    let n1 ← n1.toMat?; let n2 ← n2.toMat?
    let C ← mkConsts bits c
    pure (match (concretePrims (py ≠ 0) C).fullNewton s n1 t n2 with
      | .ok (a, b) => okV (ofRow [a, b])
      | .error e => errV e)
  | "coincident_parameters", [py, consts, n1, n2] => do
    let py ← py.toNat?; let c ← consts.toRow?; let n1 ← n1.toMat?; let n2 ← n2.toMat?
    let C ← mkConsts 0 c
    pure (match coincidentParameters (concretePrims (py ≠ 0) C) C.geo n1 n2 with
      | .ok (some l) => okV (ofPairs l)
      | .ok none => okV (.list [])
      | .error e => errV e)
  | _, _ => none

end Driver.Ops.Geometric
