import BezierVerif.Model.GeometricInst
import BezierVerif.Model.GeometricTrace
import Driver.Ops.Common

/-! # Driver/Ops/Geometric — the intersection pipeline with the concrete primitives (K := Rat)

`consts` argument (extracted values, unsquared):
`[maxRounds, maxCandidates, errVal, zeroThr, newtonRatio, minWidth, wiggle, vectorCloseEps, vsThr, newtonFuel, locateRounds, locateStdCap, unhandledLinesRaise]`
`bits`: Newton iterates are rounded to that many fractional bits after every step (0 = exact). -/

open BezierVerif.Model
open Driver

namespace Driver.Ops.Geometric

def roundBits (bits : Nat) (x : Q) : Q :=
  if bits = 0 then x
  else
    let sc : Q := ((2 ^ bits : Nat) : Q)
    ((x * sc + 1 / 2).floor : Q) / sc

def mkConsts (bits : Nat) (c : List Q) : Option (PipelineConsts Q) :=
  match c with
  | [maxRounds, maxCand, errVal, zeroThr, ratio, minWidth, wiggle, eps, vsThr, fuel, locRounds, locCap, unh] =>
    some { geo := { errValSq := errVal * errVal, maxRounds := maxRounds.floor.toNat, maxCandidates := maxCand.floor.toNat,
                    zeroThr := zeroThr, ratioSq := ratio * ratio, minWidth := minWidth, unhandledLinesRaise := unh ≠ 0 },
           vsThr := vsThr.floor.toNat, wiggle := wiggle, epsSq := eps * eps, newtonFuel := fuel.floor.toNat,
           locateRounds := locRounds.floor.toNat, locateCapSq := locCap * locCap, rnd := roundBits bits }
  | _ => none

/-- numeric code of an error in a value position: -1 unsupportedDegree, -2 notImplemented, -3 valueError, -4 runtimeError, -5 recursion, -6 badInput -/
def errCode : Err → Q
  | .unsupportedDegree => -1 | .notImplemented => -2 | .valueError => -3 | .runtimeError => -4 | .recursion => -5 | .badInput => -6

def ofPairs (l : List (Q × Q)) : V := .list (l.map (fun p => .list [.num p.1, .num p.2]))

def handle (op : String) (args : List V) : Option String :=
  match op, args with
  | "all_intersections", [py, bits, consts, n1, n2] => do
    let py ← py.toNat?; let bits ← bits.toNat?; let c ← consts.toRow?; let n1 ← n1.toMat?; let n2 ← n2.toMat?
    let C ← mkConsts bits c
    pure (match allIntersections (concretePrims (py ≠ 0) C) C.geo n1 n2 with
      | .ok (pts, flag) => okV (.list [ofPairs pts, ofBool flag])
      | .error e => errV e)
  | "all_intersections_trace", [py, bits, consts, n1, n2] => do
    -- reply: [result-or-[], [round, …]] with round = [[ [kind1,start1,stop1,kind2,start2,stop2], … ], accAfter | []]
    let py ← py.toNat?; let bits ← bits.toNat?; let c ← consts.toRow?; let n1 ← n1.toMat?; let n2 ← n2.toMat?
    let C ← mkConsts bits c
    let (r, log) := allIntersectionsTrace (concretePrims (py ≠ 0) C) C.geo n1 n2
    let candV (c : Cand Q) : List V := [.num (if c.isLin then 1 else 0), .num c.sub.start, .num c.sub.stop]
    let roundV (e : RoundLog Q) : V :=
      .list [.list (e.cands.map (fun pr => .list (candV pr.1 ++ candV pr.2))),
             match e.accAfter with | some a => ofPairs a | none => .list [.list []]]
    let logV : V := .list (log.map roundV)
    pure (match r with
      | .ok (pts, flag) => okV (.list [.list [ofPairs pts, ofBool flag], logV])
      | .error e => okV (.list [.list [.num (errCode e)], logV]))
  | "self_intersections", [py, bits, consts, fuel, nodes] => do
    let py ← py.toNat?; let bits ← bits.toNat?; let c ← consts.toRow?; let fuel ← fuel.toNat?; let n ← nodes.toMat?
    let C ← mkConsts bits c
    pure (match selfIntersections (concretePrims (py ≠ 0) C) C.geo fuel n with
      | .ok pts => okV (ofPairs pts)
      | .error e => errV e)
  | "turning_below_pi", [nodes] => do
    let n ← nodes.toMat?
    pure (okV (ofBool (turningBelowPi n)))
  | "full_newton", [py, bits, consts, s, n1, t, n2] => do
    let py ← py.toNat?; let bits ← bits.toNat?; let c ← consts.toRow?; let s ← s.toRat?; let t ← t.toRat?
    let n1 ← n1.toMat?; let n2 ← n2.toMat?
    let C ← mkConsts bits c
    pure (match (concretePrims (py ≠ 0) C).fullNewton s n1 t n2 with
      | .ok (a, b) => okV (ofRow [a, b])
      | .error e => errV e)
  | "coincident_parameters", [py, consts, n1, n2] => do
    let py ← py.toNat?; let c ← consts.toRow?; let n1 ← n1.toMat?; let n2 ← n2.toMat?
    let C ← mkConsts 0 c
    pure (match coincidentParameters (concretePrims (py ≠ 0) C) C.geo n1 n2 with
      | .ok (some l) => okV (ofPairs l)
      | .ok none => okV (.list [])
      | .error e => errV e)
  | _, _ => none

end Driver.Ops.Geometric
