import BezierVerif.Model.Basic
import BezierVerif.Model.Curve
import BezierVerif.Model.Helpers
import Driver.Ops.Common

/-! # Driver/Ops/Helpers — protocol ops of `Model/Helpers.lean` (K := Rat)

Encodings: a point is `[x,y]`; a `2 × N` array is `[[x…],[y…]]`; a Boolean is `0/1`;
an optional result is `[]` (none / failure flag of the code) or `[v,…]`;
`BoxIntersectionType` is its integer value. -/

open BezierVerif.Model
open Driver

namespace Driver.Ops.Helpers

def toPt? (v : V) : Option (Pt Q) := do
  let r ← v.toRow?
  match r with
  | [x, y] => some (x, y)
  | _ => none

/-- `2 × N` array → list of columns (both rows of the same length) -/
def toPts? (v : V) : Option (List (Pt Q)) := do
  let m ← v.toMat?
  match m with
  | [xs, ys] => if xs.length = ys.length then some (List.zip xs ys) else none
  | _ => none

def ofPts (p : List (Pt Q)) : V := ofMat (rowsOf p)

def exceptBool (r : Except Err Bool) : String :=
  match r with
  | .ok b => okV (ofBool b)
  | .error e => errV e

def exceptBox (r : Except Err BoxType) : String :=
  match r with
  | .ok b => okV (ofNat b.toNat)
  | .error e => errV e

def optRow (r : Option (List Q)) : V :=
  match r with
  | none => .list []
  | some l => ofRow l

def handle (op : String) (args : List V) : Option String :=
  match op, args with
  | "vector_close_sq", [v1, v2, epsSq] => do
    let a ← v1.toRow?; let b ← v2.toRow?; let e ← epsSq.toRat?
    pure (okV (ofBool (vectorCloseSq a b e)))
  | "in_interval", [v, s, e] => do
    let v ← v.toRat?; let s ← s.toRat?; let e ← e.toRat?
    pure (okV (ofBool (inInterval v s e)))
  | "bbox", [nodes] => do
    let m ← nodes.toMat?
    pure (match bbox m with
      | .ok (l, r, b, t) => okV (ofRow [l, r, b, t])
      | .error e => errV e)
  | "contains_nd_py", [nodes, point] => do
    let m ← nodes.toMat?; let p ← point.toRow?
    pure (exceptBool (Py.containsND m p))
  | "contains_nd_f90", [nodes, point] => do
    let m ← nodes.toMat?; let p ← point.toRow?
    pure (exceptBool (F90.containsND m p))
  | "cross_product", [v0, v1] => do
    let a ← v0.toRow?; let b ← v1.toRow?
    pure (okV (.num (crossProduct a b)))
  | "matrix_product", [m1, m2] => do
    let a ← m1.toMat?; let b ← m2.toMat?
    pure (okV (ofMat (matrixProduct a b)))
  | "wiggle_interval", [w, v] => do
    let w ← w.toRat?; let v ← v.toRat?
    pure (okV (optRow ((wiggleInterval w v).map (fun x => [x]))))
  | "cross_product_compare", [s, c1, c2] => do
    let s ← toPt? s; let a ← toPt? c1; let b ← toPt? c2
    pure (okV (.num (crossProductCompare s a b)))
  | "in_sorted_py", [values, value] => do
    let l ← values.toList?; let vs ← l.mapM V.toNat?; let x ← value.toNat?
    pure (okV (ofBool (Py.inSorted vs x)))
  | "in_sorted_f90", [values, value] => do
    let l ← values.toList?; let vs ← l.mapM V.toNat?; let x ← value.toNat?
    pure (okV (ofBool (F90.inSorted vs x)))
  | "hull_py", [points] => do
    let p ← toPts? points
    pure (okV (ofPts (Py.convexHull p)))
  | "hull_f90", [points] => do
    let p ← toPts? points
    pure (okV (ofPts (F90.convexHull p)))
  | "sort_unique_py", [points] => do
    let p ← toPts? points
    pure (okV (ofPts (Py.sortUnique p)))
  | "sort_in_place_f90", [points] => do
    let p ← toPts? points
    let r := F90.sortInPlace p
    pure (okV (.list [ofPts r.1, ofNat r.2]))
  | "is_separating_py", [d, p1, p2] => do
    let d ← toPt? d; let a ← toPts? p1; let b ← toPts? p2
    pure (okV (ofBool (Py.isSeparating d a b)))
  | "is_separating_f90", [d, p1, p2] => do
    let d ← toPt? d; let a ← toPts? p1; let b ← toPts? p2
    pure (exceptBool (F90.isSeparating d a b))
  | "polygon_collide_py", [p1, p2] => do
    let a ← toPts? p1; let b ← toPts? p2
    pure (okV (ofBool (Py.polygonCollide a b)))
  | "polygon_collide_f90", [p1, p2] => do
    let a ← toPts? p1; let b ← toPts? p2
    pure (exceptBool (F90.polygonCollide a b))
  | "solve2x2", [lhs, rhs] => do
    let m ← lhs.toMat?; let r ← rhs.toRow?
    match m, r with
    | [[a, b], [c, d]], [e, f] =>
      pure (okV (optRow ((solve2x2 a b c d e f).map (fun xy => [xy.1, xy.2]))))
    | _, _ => none
  | "bbox_intersect", [n1, n2] => do
    let a ← n1.toMat?; let b ← n2.toMat?
    pure (exceptBox (bboxIntersect a b))
  | "linearization_error_sq", [nodes] => do
    let m ← nodes.toMat?
    pure (match linearizationErrorSq m with
      | .ok x => okV (.num x)
      | .error e => errV e)
  | "segment_intersection", [s0, e0, s1, e1] => do
    let s0 ← toPt? s0; let e0 ← toPt? e0; let s1 ← toPt? s1; let e1 ← toPt? e1
    pure (okV (optRow ((segmentIntersection s0 e0 s1 e1).map (fun st => [st.1, st.2]))))
  | "parallel_lines_parameters", [s0, e0, s1, e1] => do
    let s0 ← toPt? s0; let e0 ← toPt? e0; let s1 ← toPt? s1; let e1 ← toPt? e1
    pure (match parallelLinesParameters s0 e0 s1 e1 with
      | .error e => errV e
      | .ok none => okV (.list [])
      -- the matrix `[[start_s, end_s], [start_t, end_t]]`
      | .ok (some (ss, es, st, et)) => okV (ofMat [[ss, es], [st, et]]))
  | "line_line_collide", [l1, l2] => do
    let a ← toPts? l1; let b ← toPts? l2
    match a, b with
    | [a0, a1], [b0, b1] => pure (exceptBool (lineLineCollide a0 a1 b0 b1))
    | _, _ => none
  | "convex_hull_collide_py", [n1, n2] => do
    let a ← toPts? n1; let b ← toPts? n2
    pure (exceptBool (Py.convexHullCollide a b))
  | "convex_hull_collide_f90", [n1, n2] => do
    let a ← toPts? n1; let b ← toPts? n2
    pure (exceptBool (F90.convexHullCollide a b))
  | "bbox_line_intersect", [nodes, ls, le] => do
    let m ← nodes.toMat?; let s ← toPt? ls; let e ← toPt? le
    pure (exceptBox (bboxLineIntersect m s e))
  | "compute_implicit_line", [nodes] => do
    let p ← toPts? nodes
    pure (match computeImplicitLine p with
      | .ok (a, b, c) => okV (ofRow [a, b, c])
      | .error e => errV e)
  | "compute_fat_line", [nodes] => do
    let p ← toPts? nodes
    pure (match computeFatLine p with
      | .ok (a, b, c, dmin, dmax) => okV (ofRow [a, b, c, dmin, dmax])
      | .error e => errV e)
  | "update_parameters", [smin, smax, s0, e0, s1, e1] => do
    let smin ← smin.toRat?; let smax ← smax.toRat?
    let s0 ← toPt? s0; let e0 ← toPt? e0; let s1 ← toPt? s1; let e1 ← toPt? e1
    pure (match updateParameters smin smax s0 e0 s1 e1 with
      | .ok (a, b) => okV (ofRow [a, b])
      | .error e => errV e)
  | "clip_range", [n1, n2] => do
    let a ← toPts? n1; let b ← toPts? n2
    pure (match clipRange a b with
      | .ok (x, y) => okV (ofRow [x, y])
      | .error e => errV e)
  | _, _ => none

end Driver.Ops.Helpers
