import BezierVerif.Model.Locate
import Driver.Ops.Common

/-! # Driver/Ops/Locate — protocol ops of `Model/Locate.lean` -/

open BezierVerif.Model
open Driver

namespace Driver.Ops.Locate

def render (r : LocResult Q) : String :=
  match r with
  | .miss => okV (.list [])
  | .invalid => errV .valueError
  | .found s => okV (.list [.num s])

def handle (op : String) (args : List V) : Option String :=
  match op, args with
  | "contains_nd", [nodes, point] => do
    let m ← nodes.toMat?; let p ← point.toRow?
    pure (okV (ofBool (containsND m p)))
  | "locate_curve_py", [thr, rounds, capSq, nodes, point] => do
    let t ← thr.toNat?; let r ← rounds.toNat?; let c ← capSq.toRat?; let m ← nodes.toMat?; let p ← point.toRow?
    pure (render (locatePoint Py.subdivide t r c m p))
  | "locate_curve_f90", [thr, rounds, capSq, nodes, point] => do
    let t ← thr.toNat?; let r ← rounds.toNat?; let c ← capSq.toRat?; let m ← nodes.toMat?; let p ← point.toRow?
    pure (render (locatePoint F90.subdivide t r c m p))
  -- the bisection stage alone: the surviving parameter intervals after `rounds` rounds
  | "locate_curve_intervals", [rounds, nodes, point] => do
    let r ← rounds.toNat?; let m ← nodes.toMat?; let p ← point.toRow?
    let cands := iter (locateRound (K := Q) F90.subdivide p) r [{ start := 0, stop := 1, nodes := m }]
    pure (okV (.list (cands.map (fun c => .list [.num c.start, .num c.stop]))))
  | _, _ => none

end Driver.Ops.Locate
