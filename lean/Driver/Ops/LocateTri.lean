import BezierVerif.Model.LocateTri
import Driver.Ops.Common
import Driver.Ops.Triangle

/-! # Driver/Ops/LocateTri — protocol ops of `Model/LocateTri.lean` (K := Rat)

`locate_triangle_py|f90 kind thr degree nodes x y rounds epsSq weights` (`kind` of the Fortran running
  binomial: `0` = `integer(c_int)`, `1` = `real(c_double)`; ignored by the Python variant)
  → `[]` (`None` / `LOCATE_MISS`) or `[s,t]`; `err badInput` for a singular Newton system.
  `rounds = MAX_LOCATE_SUBDIVISIONS + 1`, `epsSq = LOCATE_EPS²`, `weights` the six `6 × 3`
  subdivision constants; the tables / closed forms of degree 1–4 are replaced by the model-derived
  operator matrices (equal to the extracted ones by Tables/C09a, C09b).

`locate_triangle_trace_py|f90` (same arguments) → `[result, counts, margin, estimate, first]`:
  `counts[r]` the number of candidates after round `r+1`, `margin` the least distance of a
  coordinate of the point to an edge of a tested control-point box (all rounds, all tested
  candidates; `[]` if no box was tested), `estimate` the mean centroid `[s,t]` or `[]`, `first` the
  result of the first `newton_refine` call or `[]`
  (instrumentation for the tolerance regime of the script, not part of the transcription).

`locate_triangle_cands_py|f90 degree nodes x y r weights` → the candidate list after `r` rounds
  as rows `[cx, cy, width]` (the bookkeeping of `update_locate_candidates`).

`newton_triangle_py|f90 kind thr degree nodes x y s t` → `[s', t']`.
-/

open BezierVerif.Model
open Driver

namespace Driver.Ops.LocateTri

open Driver.Ops.Triangle (quarters V.toSubWeights?)

/-- the model-derived operator matrices A, B, C, D of the degree (degree 1–4 only; a VALUE, formed
    once per request) -/
def matsOf (W : SubWeights Q) (d : Nat) : List (List (List Q)) :=
  if 1 ≤ d ∧ d ≤ 4 then quarters.map (fun qt => triSubdivMat W d qt) else []

def tablesOf (mats : List (List (List Q))) : Nat → Quarter → List (List Q) :=
  fun (_ : Nat) (qt : Quarter) =>
    match qt with
    | .A => mats.getD 0 [] | .B => mats.getD 1 [] | .C => mats.getD 2 [] | .D => mats.getD 3 []

def subdivOf (py : Bool) (W : SubWeights Q) (d : Nat) (mats : List (List (List Q))) :
    List (List Q) → Except Err (TriFour Q) :=
  if py then Py.triSubdivideNodes (tablesOf mats) W d else F90.triSubdivideNodes (tablesOf mats) W d

def renderOpt (r : Except Err (Option (Q × Q))) : String :=
  match r with
  | .error e => errV e
  | .ok none => okV (.list [])
  | .ok (some st) => okV (.list [.num st.1, .num st.2])

def absQ (x : Q) : Q := if x < 0 then -x else x

/-- least distance of `p` to the two edges of the box of one row -/
def rowMargin (row : List Q) (p : Q) : Option Q :=
  match row with
  | [] => none
  | x :: xs =>
    let lo := xs.foldl (fun a b => if b < a then b else a) x
    let hi := xs.foldl (fun a b => if a < b then b else a) x
    let m1 := absQ (p - lo)
    let m2 := absQ (hi - p)
    some (if m2 < m1 then m2 else m1)

def minOpt (a b : Option Q) : Option Q :=
  match a, b with
  | none, b => b
  | a, none => a
  | some x, some y => some (if y < x then y else x)

def candsMargin (point : List Q) (cands : List (TriCand Q)) : Option Q :=
  cands.foldl (fun acc c =>
    (List.zipWith rowMargin c.nodes point).foldl minOpt acc) none

/-- the rounds one by one (the plain Python loop; the Fortran loop differs by its early return
    only), collecting candidate counts and the decision margin -/
def traceLoop (subdiv : List (List Q) → Except Err (TriFour Q)) (point : List Q) :
    Nat → List (TriCand Q) → List Nat → Option Q → Except Err (List (TriCand Q) × List Nat × Option Q)
  | 0, cands, counts, mg => .ok (cands, counts.reverse, mg)
  | r+1, cands, counts, mg =>
    let mg := minOpt mg (candsMargin point cands)
    match triLocateRound subdiv point cands with
    | .error e => .error e
    | .ok next => traceLoop subdiv point r next (next.length :: counts) mg

def handleLocate (py : Bool) (args : List V) : Option String :=
  match args with
  | [kind, thr, degree, nodes, x, y, rounds, epsSq, weights] => do
    let kd ← kind.toNat?; let t ← thr.toNat?; let d ← degree.toNat?; let m ← nodes.toMat?
    let x ← x.toRat?; let y ← y.toRat?; let r ← rounds.toNat?; let e ← epsSq.toRat?
    let W ← V.toSubWeights? weights
    let mats := matsOf W d
    let sub := subdivOf py W d mats
    pure (renderOpt (if py then Py.locatePointTri sub t r e d m x y else F90.locatePointTri sub (kd ≠ 0) t r e d m x y))
  | _ => none

def handleTrace (py : Bool) (args : List V) : Option String :=
  match args with
  | [kind, thr, degree, nodes, x, y, rounds, epsSq, weights] => do
    let kd ← kind.toNat?; let t ← thr.toNat?; let d ← degree.toNat?; let m ← nodes.toMat?
    let x ← x.toRat?; let y ← y.toRat?; let r ← rounds.toNat?; let e ← epsSq.toRat?
    let W ← V.toSubWeights? weights
    let mats := matsOf W d
    let sub := subdivOf py W d mats
    match traceLoop sub [x, y] r [{ cx := 1, cy := 1, width := 1, nodes := m }] [] none with
    | .error err => pure (errV err)
    | .ok (cands, counts, mg) =>
      let fin :=
        if py then
          triLocateFinish (fun d n w => Py.evalBarycentric t d n w)
            (fun actual => vectorCloseSq actual [x, y] e) d m x y cands
        else
          triLocateFinish (fun d n w => F90.evalBarycentricKind (kd ≠ 0) t d n w)
            (fun actual => vectorCloseSq [x, y] actual e) d m x y cands
      let est : V := if cands.isEmpty then .list [] else
        let mc := triMeanCentroid cands
        .list [.num mc.1, .num mc.2]
      let mgV : V := match mg with | none => .list [] | some q => .num q
      let first : V := if cands.isEmpty then .list [] else
        let mc := triMeanCentroid cands
        let r1 := if py then newtonRefineTriE (fun d n w => Py.evalBarycentric t d n w) d m x y mc.1 mc.2
                  else newtonRefineTriE (fun d n w => F90.evalBarycentricKind (kd ≠ 0) t d n w) d m x y mc.1 mc.2
        match r1 with
        | .ok st => .list [.num st.1, .num st.2]
        | .error _ => .list []
      match fin with
      | .error err => pure (errV err)
      | .ok res =>
        let resV : V := match res with | none => .list [] | some st => .list [.num st.1, .num st.2]
        pure (okV (.list [resV, .list (counts.map ofNat), mgV, est, first]))
  | _ => none

def handleCands (py : Bool) (args : List V) : Option String :=
  match args with
  | [degree, nodes, x, y, rounds, weights] => do
    let d ← degree.toNat?; let m ← nodes.toMat?
    let x ← x.toRat?; let y ← y.toRat?; let r ← rounds.toNat?
    let W ← V.toSubWeights? weights
    let mats := matsOf W d
    let sub := subdivOf py W d mats
    let start : List (TriCand Q) := [{ cx := 1, cy := 1, width := 1, nodes := m }]
    let res := if py then Py.triLocateRounds sub [x, y] r start else F90.triLocateRounds sub [x, y] r start
    match res with
    | .error err => pure (errV err)
    | .ok cands => pure (okV (.list (cands.map (fun c => .list [.num c.cx, .num c.cy, .num c.width]))))
  | _ => none

def handleNewton (py : Bool) (args : List V) : Option String :=
  match args with
  | [kind, thr, degree, nodes, x, y, s, t] => do
    let kd ← kind.toNat?; let th ← thr.toNat?; let d ← degree.toNat?; let m ← nodes.toMat?
    let x ← x.toRat?; let y ← y.toRat?; let s ← s.toRat?; let t ← t.toRat?
    let r := if py then newtonRefineTriE (fun d n w => Py.evalBarycentric th d n w) d m x y s t
             else newtonRefineTriE (fun d n w => F90.evalBarycentricKind (kd ≠ 0) th d n w) d m x y s t
    match r with
    | .error err => pure (errV err)
    | .ok st => pure (okV (.list [.num st.1, .num st.2]))
  | _ => none

def handle (op : String) (args : List V) : Option String :=
  match op with
  | "locate_triangle_py" => handleLocate true args
  | "locate_triangle_f90" => handleLocate false args
  | "locate_triangle_trace_py" => handleTrace true args
  | "locate_triangle_trace_f90" => handleTrace false args
  | "locate_triangle_cands_py" => handleCands true args
  | "locate_triangle_cands_f90" => handleCands false args
  | "newton_triangle_py" => handleNewton true args
  | "newton_triangle_f90" => handleNewton false args
  | _ => none

end Driver.Ops.LocateTri
