import BezierVerif.Model.Basic
import BezierVerif.Model.Protocol
import Driver.Ops.Common

/-! # Driver/Ops/Protocol — protocol ops of `Model/Protocol.lean`

The implementation-level machine (`step` / `run` on a `Hidden` state with junk-filled buffers) is driven
with abstract inputs: a curve call is `(status, count)` (the inner function ends with `status` after handing
`count` distinct pairs and one duplicate to `add_intersection`), a triangle call is
`(status, contained, [segments per polygon])`.

op encoding of `proto_run`:  `[0,status,count]` curve, `[1,status,contained,[l1,l2,…]]` triangle,
`[2]` free curve, `[3]` free triangle, `[4]` curve size, `[5]` triangle sizes, `[6,n]` / `[7,n]` / `[8,n]`
reset curves / segment ends / segments.
reply per op: `[tag, payload, w, e, s]` with tag `0` = returned, `2` ValueError, `3` NotImplementedError,
`4` RuntimeError, `9` other; payload = number of columns / polygons returned (or `-1` / `-2` for contained
first / second, `0` otherwise); `w e s` = the three observable sizes after the op.
-/

open BezierVerif.Model BezierVerif.Model.Protocol
open Driver

namespace Driver.Ops.Protocol

def junk : Junk Nat Nat :=
  ⟨fun a i => 1000000 + 1000 * a + i, fun a i => 1000000 + 1000 * a + i, fun a i => 1000000 + 1000 * a + i⟩

/-- inputs are their own inner results -/
def world : World (CurveRes Nat) (TriRes Nat) Nat Nat :=
  { fc := id, ft := id, dup := fun a b => a == b, junk := junk }

def errCode : Err → Int
  | .valueError => 2
  | .notImplemented => 3
  | .runtimeError => 4
  | _ => 9

def actionCode : Action → Int
  | .ret => 0
  | .resize => 1
  | .raise e => errCode e

def toInt? (v : V) : Option Int :=
  match v with
  | .num q => if q.den = 1 then some q.num else none
  | _ => none

def containedOf (n : Nat) : Option Contained :=
  match n with
  | 0 => some .neither
  | 1 => some .first
  | 2 => some .second
  | _ => none

/-- polygon `i` gets the segments `100 i + 0 … 100 i + l - 1` -/
def mkPolys (lens : List Nat) : List (List Nat) :=
  (List.zip (List.range lens.length) lens).map (fun p => (List.range p.2).map (fun k => 100 * p.1 + k))

def decodeOp (v : V) : Option (Op (CurveRes Nat) (TriRes Nat)) := do
  let l ← v.toList?
  match l with
  | [k, st, cnt] =>
    let k ← k.toNat?
    if k = 0 then
      let st ← toInt? st; let c ← cnt.toNat?
      -- `count` distinct pairs, then the first once more (must be rejected as a duplicate)
      pure (.curve { status := st, direct := false,
                     found := List.range c ++ (if c = 0 then [] else [0]), coincident := false })
    else none
  | [k, st, cont, lens] =>
    let k ← k.toNat?
    if k = 1 then
      let st ← toInt? st; let cn ← cont.toNat?; let c ← containedOf cn
      let ls ← lens.toList?; let ls ← ls.mapM V.toNat?
      pure (.triangle { status := st, contained := c, polys := mkPolys ls })
    else none
  | [k] =>
    let k ← k.toNat?
    match k with
    | 2 => pure .freeCurve
    | 3 => pure .freeTriangle
    | 4 => pure .curveSize
    | 5 => pure .triangleSizes
    | _ => none
  | [k, n] =>
    let k ← k.toNat?; let n ← n.toNat?
    match k with
    | 6 => pure (.resetCurves n)
    | 7 => pure (.resetSegEnds n)
    | 8 => pure (.resetSegs n)
    | _ => none
  | _ => none

def resCode (r : Res Nat Nat) : Int × Int :=
  match r with
  | .curve (.ok (cols, _)) => (0, cols.length)
  | .curve (.error e) => (errCode e, 0)
  | .triangle (.ok (.contained true)) => (0, -1)
  | .triangle (.ok (.contained false)) => (0, -2)
  | .triangle (.ok (.polys ps)) => (0, ps.length)
  | .triangle (.error e) => (errCode e, 0)
  | .unit => (0, 0)
  | .size n => (0, n)
  | .sizes e _ => (0, e)

/-- a returned value must also BE the pure one (checked here, in the model, against `pureCurve` / `pureTriangle`) -/
def agreesWithPure (op : Op (CurveRes Nat) (TriRes Nat)) (r : Res Nat Nat) : Bool :=
  match op, r with
  | .curve inp, .curve (.ok (cols, c)) =>
    (match pureCurve world.dup inp with
     | .ok (cols', c') => cols == cols' && c == c'
     | .error _ => false)
  | .curve inp, .curve (.error e) =>
    (match pureCurve world.dup inp with
     | .ok _ => false
     | .error e' => e == e')
  | .triangle inp, .triangle (.ok (.polys ps)) =>
    (match pureTriangle inp with
     | .ok (.polys ps') => ps == ps'
     | _ => false)
  | .triangle inp, .triangle (.ok (.contained b)) =>
    (match pureTriangle inp with
     | .ok (.contained b') => b == b'
     | _ => false)
  | .triangle inp, .triangle (.error e) =>
    (match pureTriangle inp with
     | .error e' => e == e'
     | _ => false)
  | _, _ => true

/-- run the history step by step, reporting result code and observable sizes after every op -/
def trace : List (Op (CurveRes Nat) (TriRes Nat)) → Hidden Nat Nat → List V × Hidden Nat Nat
  | [], h => ([], h)
  | op :: ops, h =>
    let s := step world op h
    let c := resCode s.1
    let row : V := .list [ofInt c.1, ofInt c.2, ofNat s.2.curves.length, ofNat s.2.segEnds.length,
                          ofNat s.2.segs.length, ofBool (agreesWithPure op s.1)]
    let rest := trace ops s.2
    (row :: rest.1, rest.2)

def tableV (t : List (Int × Action)) : V := .list (t.map (fun p => .list [ofInt p.1, ofInt (actionCode p.2)]))

def handle (op : String) (args : List V) : Option String :=
  match op, args with
  | "proto_consts", [] =>
    pure (okV (.list [ofNat curvesWorkspaceInit, ofNat segmentEndsWorkspaceInit, ofNat segmentsWorkspaceInit,
                      ofNat resizesAllowedDefault]))
  | "proto_status_table", [] =>
    pure (okV (.list [.list (allStatusCodes.map ofInt), tableV curveTable, ofInt (actionCode curveElse),
                      tableV triangleTable, ofInt (actionCode triangleElse)]))
  | "proto_action", [st] => do
    let s ← toInt? st
    pure (okV (.list [ofInt (actionCode (curveAction s)), ofInt (actionCode (triangleAction s))]))
  | "proto_run", [sizes, ops] => do
    let z ← sizes.toList?; let z ← z.mapM V.toNat?
    match z with
    | [w, e, s] =>
      let l ← ops.toList?
      let ops ← l.mapM decodeOp
      let t := trace ops (initial junk w e s)
      let h := t.2
      pure (okV (.list [.list t.1, .list [ofNat h.fInter.length, ofNat h.fSegEnds.length, ofNat h.fSegs.length,
                                          ofNat h.allocs]]))
    | _ => none
  -- single calls with an explicit number of allowed resizes (0 = `allow_resize=False`)
  | "proto_curve", [w, st, cnt, allowed] => do
    let w ← w.toNat?; let st ← toInt? st; let c ← cnt.toNat?; let k ← allowed.toNat?
    let r : CurveRes Nat := { status := st, direct := false, found := List.range c, coincident := false }
    let h0 : Hidden Nat Nat := initial junk w segmentEndsWorkspaceInit segmentsWorkspaceInit
    let o := curveCallN world.dup junk r k h0
    let code : Int × Int := match o.1 with
      | .ok (cols, _) => (0, cols.length)
      | .error e => (errCode e, 0)
    pure (okV (.list [ofInt code.1, ofInt code.2, ofNat o.2.curves.length, ofNat (o.2.allocs - h0.allocs)]))
  | "proto_triangle", [e, s, st, cont, lens, allowed] => do
    let e ← e.toNat?; let s ← s.toNat?; let st ← toInt? st; let cn ← cont.toNat?; let c ← containedOf cn
    let ls ← lens.toList?; let ls ← ls.mapM V.toNat?; let k ← allowed.toNat?
    let r : TriRes Nat := { status := st, contained := c, polys := mkPolys ls }
    let h0 : Hidden Nat Nat := initial junk curvesWorkspaceInit e s
    let o := triangleCallN junk r k h0
    let code : Int × Int := resCode (.triangle o.1)
    pure (okV (.list [ofInt code.1, ofInt code.2, ofNat o.2.segEnds.length, ofNat o.2.segs.length,
                      ofNat (o.2.allocs - h0.allocs)]))
  | _, _ => none

end Driver.Ops.Protocol
