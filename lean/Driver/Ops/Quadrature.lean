import BezierVerif.Model.Basic
import BezierVerif.Model.Curve
import BezierVerif.Model.Area
import BezierVerif.Model.Quadrature
import Driver.Ops.Common

/-! # Driver/Ops/Quadrature — protocol ops of `Model/Quadrature.lean` (K := Rat)

The tables are passed by the caller as `[wg, wgk, xgk]` (the script reads them from
`Generated/Quadpack.lean`).  External numerics: `sqrt` is the exact rational root (the op refuses
inputs whose squared speed is not a rational square at one of the 21 abscissae), the real power
`x**1.5` of the error heuristic is replaced by its upper bound `x ↦ x` on `[0,1]` (the reported
`abserr` / `done` are therefore conservative). -/

open BezierVerif.Model
open BezierVerif.Model.Quad
open Driver

namespace Driver.Ops.Quadrature

def toTables? (v : V) : Option (QKTables Q) := do
  match ← v.toList? with
  | [g, k, x] => pure { wg := ← g.toRow?, wgk := ← k.toRow?, xgk := ← x.toRow? }
  | _ => none

/-- exact square root of a non-negative rational square -/
def ratSqrt? (y : Q) : Option Q :=
  if y < 0 then none else
    let n := y.num.natAbs
    let d := y.den
    let rn := Nat.sqrt n
    let rd := Nat.sqrt d
    if rn * rn = n ∧ rd * rd = d then some ((rn : Q) / (rd : Q)) else none

def ofQK (r : QK21 Q) : V := ofRow [r.result, r.resabs, r.resasc, r.rawErr, r.resk, r.resg, r.reskh]

/-- the 21 points at which `dqk21` on `[a,b]` evaluates its integrand -/
def abscissae (T : QKTables Q) (a b : Q) : List Q :=
  let c := (a + b) / 2
  let h := (b - a) / 2
  c :: ((List.range 10).map (fun i => [c - h * seq T.xgk i, c + h * seq T.xgk i])).flatten

def handle (op : String) (args : List V) : Option String :=
  match op, args with
  | "qk21_poly", [tables, coeffs, a, b] => do
    let T ← toTables? tables; let cs ← coeffs.toRow?; let a ← a.toRat?; let b ← b.toRat?
    pure (okV (ofQK (qk21 T (polyEval cs) a b)))
  | "qk21_samples", [tables, pairs, a, b] => do
    -- integrand given by its values at the 21 abscissae: `pairs = [[x, f x], …]` (every abscissa must occur)
    let T ← toTables? tables; let ps ← pairs.toMat?; let a ← a.toRat?; let b ← b.toRat?
    let tab ← ps.mapM (fun r => match r with | [x, y] => some (x, y) | _ => none)
    let look : Q → Option Q := fun x => (tab.find? (fun p => p.1 == x)).map (·.2)
    if (abscissae T a b).any (fun x => (look x).isNone) then pure (errV .badInput)
    else pure (okV (ofQK (qk21 T (fun x => (look x).getD 0) a b)))
  | "qk21_abscissae", [tables, a, b] => do
    let T ← toTables? tables; let a ← a.toRat?; let b ← b.toRat?
    pure (okV (ofRow (abscissae T a b)))
  | "qk21_moment_defects", [tables, n] => do
    let T ← toTables? tables; let n ← n.toNat?
    pure (okV (ofMat ((List.range n).map (fun m => [kronrodMomentDefect T m, gaussMomentDefect T m]))))
  | "qk21_table_checks", [tables] => do
    let T ← toTables? tables
    pure (okV (.list [ofBool (shapeOK T), ofBool (weightsPositive T), ofBool (nodesOK T)]))
  | "length_first_step", [tables, thr, nodes, consts] => do
    let T ← toTables? tables; let thr ← thr.toNat?; let m ← nodes.toMat?
    match ← consts.toList? with
    | [ea, er, lim, em, uf, fl] =>
      let epsabs ← ea.toRat?; let epsrel ← er.toRat?; let limit ← lim.toNat?
      let epmach ← em.toRat?; let uflow ← uf.toRat?; let floor28 ← fl.toRat?
      let squares :=
        if ncols m ≥ 3 then (abscissae T 0 1).map (fun s => lengthIntegrandSq thr m s)
        else if ncols m = 2 then [(m.map firstDerivRow).foldl (fun acc r => acc + seq r 0 * seq r 0) 0]
        else []
      if squares.any (fun y => (ratSqrt? y).isNone) then pure (errV .badInput)
      else
        let sqrtK : Q → Q := fun y => (ratSqrt? y).getD 0
        pure (match lengthFirstStep sqrtK (fun t => t) epmach uflow floor28 T thr epsabs epsrel limit m with
          | .error e => errV e
          | .ok fs =>
            if ncols m ≥ 3 then
              let r := qk21 T (lengthSpeed sqrtK thr m) 0 1
              okV (.list [.num fs.result, .num fs.abserr, ofNat fs.ier, ofBool fs.done, .num r.rawErr, .num r.resabs, .num r.resasc])
            else okV (.list [.num fs.result, .num fs.abserr, ofNat fs.ier, ofBool fs.done]))
    | _ => none
  | _, _ => none

end Driver.Ops.Quadrature
