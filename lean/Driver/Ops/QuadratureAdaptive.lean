import BezierVerif.Model.Basic
import BezierVerif.Model.Curve
import BezierVerif.Model.Quadrature
import BezierVerif.Model.QuadratureAdaptive
import Driver.Ops.Common
import Driver.Ops.Quadrature
import Std.Data.HashMap

/-! # Driver/Ops/QuadratureAdaptive — protocol ops of `Model/QuadratureAdaptive.lean` (K := Rat)

`tables = [wg, wgk, xgk]` as in Driver/Ops/Quadrature.
`consts = [epsabs, epsrel, limit, epmach, uflow, oflow, reals, nats]` with
`reals = [half, c50, floor28, c100, one, roffRel, roffShrink, badEps, badUflow, smallFactor, ktminFactor, divLo,
          divHi, elgIrregular, elgFloor, elgOne]`,
`nats  = [iroff3From, iroff12Max, iroff3Max, iroff2Max, ktminMax, nevalMul, nevalOff, limexp, elgNmin, elgNres]`
(the fields of `Model.Quad.AgseConsts`; the script reads them from `Generated/QuadpackAdaptive.lean`).

ORACLE PROTOCOL.  The external real functions are handed over by the caller as tables
`oracles = [sqrtTab, powTab]`, association lists `[[x, value], …]` keyed by the exact rational argument
the model passes to `sqrt` (inside the integrand of `compute_length`) resp. to `x ↦ x**1.5` (error heuristic
of `dqk21`).  The ops

* `agse_length tables consts thr oracles nodes`        (`Model.Quad.lengthAdaptive`)
* `agse_poly   tables consts oracles coeffs a b`        (`Model.Quad.dqagse` on `polyEval coeffs`)
* `agse_extern tables consts oracles a b`               (`Model.Quad.dqagse` on an integrand that is itself external:
                                                          kind 0 keys are the abscissae `x`, the caller answers `f x`)

reply `ok [0, kind, [key, …]]` while oracle values are missing (`kind` 0 = sqrt, 1 = pow15; ALL missing keys of
the `dqk21` call(s) the run has reached: the 21 resp. 42 integrand arguments of the interval(s) in work, then
the 1–2 arguments of the power); the caller appends `[key, value]` pairs and asks again.  With complete tables:
`ok [1, result, abserr, neval, ier, last, alist, blist, rlist, elist, iord, info, elgin]`, lists cut to `last`
entries, `elgin = [n, epstab, res3la, nres, ertest]` the input of the LAST `dqelg` call of the run and the final
`ertest` (`[]` if there was none; for conditioning tests of the extrapolation, op `dqelg`), `info = [exit, nres, numrl2, iroff1, iroff2, iroff3, ierro, extrapolated]` (`exit`: 0 = returned
after the first `dqk21`, 1 = label 100, 2 = label 115, 3 = loop ran to completion, 6 = invalid-input return;
`extrapolated` = 1 when the returned result is not the sum of `rlist`), or `err valueError` (no node).
The run is driven iteration by iteration with the model's own pieces (`agseInit`, `agseBody`, `agseFinal`);
before every `dqk21` call the keys it needs are looked up.  At the end the reply is compared with
`Model.Quad.dqagse` run in one go on the same tables (`err runtimeError` if they differ – never observed).

* `agse_poly_speed tables consts coeffs a b` – polynomial integrand, no oracle: the power `x**1.5` of the
  error heuristic is replaced by its upper bound `x ↦ x` on `[0,1]` (`min(1, ·)` cuts the rest); exact.
* `dqpsrt limit last maxerr elist iord nrmax`, `dqelg consts n epstab res3la nres` – the two subroutines alone.
-/

open BezierVerif.Model
open BezierVerif.Model.Quad
open Driver
open Driver.Ops.Quadrature

namespace Driver.Ops.QuadratureAdaptive

instance : Hashable Q := ⟨fun q => mixHash (hash q.num) (hash q.den)⟩

/-- an oracle table `[[x, value], …]` (hashed: the tables grow to thousands of entries) -/
abbrev Tab := Std.HashMap Q Q

structure Oracles where
  sqrtTab : Tab
  powTab : Tab

def toTab? (v : V) : Option Tab := do
  let l ← (← v.toList?).mapM (fun e => do
    match ← e.toList? with
    | [k, x] => pure ((← k.toRat?), (← x.toRat?))
    | _ => none)
  pure (Std.HashMap.ofList l)

def toOracles? (v : V) : Option Oracles := do
  match ← v.toList? with
  | [s, p] => pure { sqrtTab := ← toTab? s, powTab := ← toTab? p }
  | _ => none

def look (tab : Tab) (x : Q) : Option Q := tab[x]?

structure Setup where
  C : AgseConsts Q
  epsabs : Q
  epsrel : Q
  limit : Nat
  epmach : Q
  uflow : Q
  oflow : Q

def toSetup? (v : V) : Option Setup := do
  match ← v.toList? with
  | [ea, er, lim, em, uf, ofl, reals, nats] =>
    let r ← reals.toRow?
    let n ← (← nats.toList?).mapM V.toNat?
    match r, n with
    | [half, c50, floor28, c100, one, roffRel, roffShrink, badEps, badUflow, smallFactor, ktminFactor, divLo, divHi,
        elgIrregular, elgFloor, elgOne],
      [iroff3From, iroff12Max, iroff3Max, iroff2Max, ktminMax, nevalMul, nevalOff, limexp, elgNmin, elgNres] =>
      pure { C := { half, c50, floor28, c100, one, roffRel, roffShrink, iroff3From, iroff12Max, iroff3Max, iroff2Max,
                    badEps, badUflow, smallFactor, ktminMax, ktminFactor, divLo, divHi, nevalMul, nevalOff, limexp,
                    elgIrregular, elgFloor, elgOne, elgNmin, elgNres },
             epsabs := ← ea.toRat?, epsrel := ← er.toRat?, limit := ← lim.toNat?, epmach := ← em.toRat?,
             uflow := ← uf.toRat?, oflow := ← ofl.toRat? }
    | _, _ => none
  | _ => none

/-- the environment with table-backed externals; `sq` = argument of `sqrt` as a function of the abscissa
    (`none`: the integrand `f0` needs no oracle) -/
def mkEnv (s : Setup) (T : QKTables Q) (o : Oracles) (sq : Option (Q → Q)) (f0 : Q → Q) (a b : Q) : AgseEnv Q :=
  { C := s.C, pow15 := fun x => (look o.powTab x).getD 0, epmach := s.epmach, uflow := s.uflow, oflow := s.oflow,
    T := T,
    f := match sq with
      | some g => fun x => (look o.sqrtTab (g x)).getD 0
      | none => f0,
    a := a, b := b, epsabs := s.epsabs, epsrel := s.epsrel, limit := s.limit }

/-- the integrand arguments of the calls `dqk21(f, a_i, b_i)` with the arguments `g x` of `sqrt` there -/
def sqrtArgs (T : QKTables Q) (sq : Q → Q) (ivs : List (Q × Q)) : List (Q × Q) :=
  (ivs.map (fun iv => (abscissae T iv.1 iv.2).map (fun x => (x, sq x)))).flatten

/-- `E` with the integrand answered from `pts = [(x, g x), …]` at these abscissae (same values as `E.f` there:
    `E.f x = sqrtLookup (g x)`; saves recomputing `g x`) -/
def withPts (E : AgseEnv Q) (o : Oracles) (pts : List (Q × Q)) : AgseEnv Q :=
  { E with f := fun x => match pts.find? (fun p => p.1 == x) with
      | some p => (look o.sqrtTab p.2).getD 0
      | none => E.f x }

/-- missing oracle keys of the calls `dqk21(f, a_i, b_i)` for the given intervals: sqrt keys of all of them
    first; when none is missing the pow15 keys.  Also returns the environment to run these calls with -/
def k21Missing (E : AgseEnv Q) (o : Oracles) (sq : Option (Q → Q)) (ivs : List (Q × Q)) :
    Option (Nat × List Q) × AgseEnv Q :=
  let pts : List (Q × Q) := match sq with
    | some g => sqrtArgs E.T g ivs
    | none => []
  let missS := ((pts.map (·.2)).filter (fun y => (look o.sqrtTab y).isNone)).eraseDups
  if missS ≠ [] then (some (0, missS), E)
  else
    let E' := match sq with
      | some _ => withPts E o pts
      | none => E
    let powKeys := ivs.filterMap (fun iv =>
      let r := qk21 E'.T E'.f iv.1 iv.2
      if r.resasc ≠ 0 ∧ r.rawErr ≠ 0 then some (((200 : Nat) : Q) * r.rawErr / r.resasc) else none)
    let missP := (powKeys.filter (fun y => (look o.powTab y).isNone)).eraseDups
    if missP ≠ [] then (some (1, missP), E') else (none, E')

/-- input of a `dqelg` call: `n`, `epstab`, `res3la`, `nres` -/
abbrev ElgIn := Nat × List Q × List Q × Nat

/-- the main loop, one `agseBody` per step, keys checked before each; remembers the input of the last `dqelg` call -/
def walkLoop (E : AgseEnv Q) (o : Oracles) (sq : Option (Q → Q)) :
    Nat → Nat → AgseSt Q → Option ElgIn → Except (Nat × List Q) (AgseSt Q × LoopExit × Option ElgIn)
  | 0, last, st, rec => .ok ({ st with last := last }, .exhausted, rec)
  | f+1, last, st, rec =>
    let a1 := get1 st.alist st.maxerr
    let b2 := get1 st.blist st.maxerr
    let b1 := E.C.half * (a1 + b2)
    match k21Missing E o sq [(a1, b1), (b1, b2)] with
    | (some need, _) => .error need
    | (none, E') =>
      match agseBody E' st last with
      | (st', ex) =>
        -- `dqelg` was called in this iteration iff `nres` went up; its input: the table before, plus the new `area`
        let rec' := if st'.nres > st.nres then
            some (st.numrl2 + 1, set1 st.rlist2 (st.numrl2 + 1) st'.area, st.res3la, st.nres)
          else rec
        match ex with
        | .exhausted => walkLoop E o sq f (last + 1) st' rec'
        | _ => .ok (st', ex, rec')

/-- `dqagse` driven step by step; `Except.error` = missing oracle keys -/
def walk (E : AgseEnv Q) (o : Oracles) (sq : Option (Q → Q)) :
    Except (Nat × List Q) (AgseOut Q × List Nat × Option ElgIn × Q) :=
  let C := E.C
  if E.epsabs ≤ 0 ∧ E.epsrel < qmax (C.c50 * E.epmach) C.floor28 then .ok (dqagse E, [6, 0, 0, 0, 0, 0, 0, 0], none, 0)
  else
    match k21Missing E o sq [(E.a, E.b)] with
    | (some need, _) => .error need
    | (none, E') =>
      let r := dqk21 E'.pow15 E'.epmach E'.uflow E'.T E'.f E.a E.b
      let errbnd := qmax E.epsabs (E.epsrel * qabs r.result)
      let ier := if r.abserr ≤ C.c100 * E.epmach * r.resabs ∧ errbnd < r.abserr then 2 else 0
      let ier := if E.limit = 1 then 1 else ier
      if ier ≠ 0 ∨ (r.abserr ≤ errbnd ∧ r.abserr ≠ r.resasc) ∨ r.abserr = 0 then
        .ok (dqagse E, [0, 0, 0, 0, 0, 0, 0, 0], none, 0)
      else
        match walkLoop E o sq (E.limit - 1) 2 (agseInit E r) none with
        | .error need => .error need
        | .ok (st, ex, rec) =>
          let out := agseFinal E st ex
          let code := match ex with | .to100 => 1 | .to115 => 2 | .exhausted => 3
          .ok (out, [code, st.nres, st.numrl2, st.iroff1, st.iroff2, st.iroff3, st.ierro,
                     if out.result == sumRlist st.rlist st.last then 0 else 1], rec, st.ertest)

def replyRun (E : AgseEnv Q) (o : Oracles) (sq : Option (Q → Q)) : String :=
  match walk E o sq with
  | .error (kind, keys) => okV (.list [ofNat 0, ofNat kind, ofRow keys])
  | .ok (out, info, rec, ertest) =>
    let ref := dqagse E
    if ref.result == out.result && ref.abserr == out.abserr && ref.ier == out.ier && ref.last == out.last
        && ref.neval == out.neval && ref.rlist == out.rlist then
      let n := out.last
      okV (.list [ofNat 1, .num out.result, .num out.abserr, ofNat out.neval, ofNat out.ier, ofNat out.last,
        ofRow (out.alist.take n), ofRow (out.blist.take n), ofRow (out.rlist.take n), ofRow (out.elist.take n),
        .list ((out.iord.take n).map ofNat), .list (info.map ofNat),
        (match rec with
         | some (n, tab, r3, nres) => .list [ofNat n, ofRow tab, ofRow r3, ofNat nres, .num ertest]
         | none => .list [])])
    else errV .runtimeError

def handle (op : String) (args : List V) : Option String :=
  match op, args with
  | "agse_length", [tables, consts, thr, oracles, nodes] => do
    let T ← toTables? tables; let s ← toSetup? consts; let thr ← thr.toNat?; let o ← toOracles? oracles
    let m ← nodes.toMat?
    match ncols m with
    | 0 => pure (errV .valueError)
    | 1 => pure (okV (.list [ofNat 2, .num 0, ofNat 0]))
    | 2 =>
      -- closed form `norm2(first_deriv)`: one sqrt key
      let y := (m.map firstDerivRow).foldl (fun acc r => acc + seq r 0 * seq r 0) 0
      match look o.sqrtTab y with
      | none => pure (okV (.list [ofNat 0, ofNat 0, ofRow [y]]))
      | some v => pure (okV (.list [ofNat 2, .num v, ofNat 0]))
    | _ =>
      let sq : Q → Q := fun x => lengthSpeed (fun y => y) thr m x
      let E := mkEnv s T o (some sq) (fun _ => 0) 0 1
      -- the integrand of the model is `lengthSpeed sqrtK thr m` with `sqrtK` the table lookup
      let E := { E with f := lengthSpeed (fun y => (look o.sqrtTab y).getD 0) thr m }
      pure (replyRun E o (some sq))
  | "agse_poly", [tables, consts, oracles, coeffs, a, b] => do
    let T ← toTables? tables; let s ← toSetup? consts; let o ← toOracles? oracles
    let cs ← coeffs.toRow?; let a ← a.toRat?; let b ← b.toRat?
    pure (replyRun (mkEnv s T o none (polyEval cs) a b) o none)
  | "agse_extern", [tables, consts, oracles, a, b] => do
    -- the integrand itself is external: `sqrtTab` is read as `[[x, f x], …]`, the missing keys are abscissae
    let T ← toTables? tables; let s ← toSetup? consts; let o ← toOracles? oracles
    let a ← a.toRat?; let b ← b.toRat?
    let sq : Q → Q := fun x => x
    pure (replyRun (mkEnv s T o (some sq) (fun _ => 0) a b) o (some sq))
  | "agse_poly_speed", [tables, consts, coeffs, a, b] => do
    let T ← toTables? tables; let s ← toSetup? consts
    let cs ← coeffs.toRow?; let a ← a.toRat?; let b ← b.toRat?
    let E := { mkEnv s T { sqrtTab := {}, powTab := {} } none (polyEval cs) a b with pow15 := fun t => t }
    let out := dqagse E
    let n := out.last
    pure (okV (.list [ofNat 1, .num out.result, .num out.abserr, ofNat out.neval, ofNat out.ier, ofNat out.last,
      ofRow (out.alist.take n), ofRow (out.blist.take n), ofRow (out.rlist.take n), ofRow (out.elist.take n),
      .list ((out.iord.take n).map ofNat)]))
  | "dqpsrt", [limit, last, maxerr, elist, iord, nrmax] => do
    let limit ← limit.toNat?; let last ← last.toNat?; let maxerr ← maxerr.toNat?; let el ← elist.toRow?
    let io ← (← iord.toList?).mapM V.toNat?; let nrmax ← nrmax.toNat?
    let p := dqpsrt limit last maxerr el io nrmax
    pure (okV (.list [.list (p.iord.map ofNat), ofNat p.nrmax, ofNat p.maxerr, .num p.ermax]))
  | "dqelg", [consts, n, epstab, res3la, nres] => do
    let s ← toSetup? consts; let n ← n.toNat?; let ep ← epstab.toRow?; let r3 ← res3la.toRow?; let nres ← nres.toNat?
    let e := dqelg s.C s.epmach s.oflow n ep r3 nres
    pure (okV (.list [ofNat e.n, ofRow e.epstab, .num e.result, .num e.abserr, ofRow e.res3la, ofNat e.nres]))
  | _, _ => none

end Driver.Ops.QuadratureAdaptive
