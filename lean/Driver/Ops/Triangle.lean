import BezierVerif.Model.Basic
import BezierVerif.Model.Curve
import BezierVerif.Model.Triangle
import Driver.Ops.Common

/-! # Driver/Ops/Triangle — protocol ops of `Model/Triangle.lean` (K := Rat)

weights are rows `[λ₁,λ₂,λ₃]`, Cartesian parameters rows `[s,t]`; the six subdivision constants a
`6 × 3` matrix; `kind` of the Fortran binomial: `0` = `integer(c_int)`, `1` = `real(c_double)`. -/

open BezierVerif.Model
open Driver

namespace Driver.Ops.Triangle

def rowToBary? (r : List Q) : Option (Bary Q) :=
  match r with
  | [a, b, c] => some ⟨a, b, c⟩
  | _ => none

def rowToPair? (r : List Q) : Option (Q × Q) :=
  match r with
  | [a, b] => some (a, b)
  | _ => none

def V.toBary? (v : V) : Option (Bary Q) := do rowToBary? (← v.toRow?)
def V.toBarys? (v : V) : Option (List (Bary Q)) := do (← v.toMat?).mapM rowToBary?
def V.toPairs? (v : V) : Option (List (Q × Q)) := do (← v.toMat?).mapM rowToPair?

def V.toSubWeights? (v : V) : Option (SubWeights Q) := do
  match ← V.toBarys? v with
  | [a, b, c, d, e, f] => some ⟨a, b, c, d, e, f⟩
  | _ => none

def V.toBool? (v : V) : Option Bool := do
  let n ← v.toNat?
  pure (n ≠ 0)

def exceptRow (r : Except Err (List Q)) : String :=
  match r with
  | .ok m => okV (ofRow m)
  | .error e => errV e

def quarters : List Quarter := [.A, .B, .C, .D]

/-- all four quarters of every row, `.error` if one fails -/
def fourE (f : List Q → Quarter → Except Err (List Q)) (m : List (List Q)) : Except Err (List (List (List Q))) :=
  triMapE (fun qt => triMapE (fun r => f r qt) m) quarters

def exceptMats (r : Except Err (List (List (List Q)))) : String :=
  match r with
  | .ok ms => okV (.list (ms.map ofMat))
  | .error e => errV e

/-- dispatch on the op name -/
def handle (op : String) (args : List V) : Option String :=
  match op, args with
  | "tri_numnodes", [d] => do
    let d ← d.toNat?
    pure (okV (ofNat (numNodes d)))
  | "tri_index", [d, j, k] => do
    let d ← d.toNat?; let j ← j.toNat?; let k ← k.toNat?
    pure (okV (ofNat (triIndex d j k)))
  | "tri_dcround", [degree, nodes, w] => do
    let d ← degree.toNat?; let m ← nodes.toMat?; let w ← V.toBary? w
    pure (okV (ofMat (m.map (dcRound3 d w))))
  -- evaluation
  | "tri_eval_py", [thr, degree, nodes, params] => do
    let t ← thr.toNat?; let d ← degree.toNat?; let m ← nodes.toMat?; let ps ← V.toBarys? params
    pure (okV (ofMat (Py.evalBarycentricMulti t d m ps)))
  | "tri_eval_f90", [kind, thr, degree, nodes, params] => do
    let kd ← kind.toNat?; let t ← thr.toNat?; let d ← degree.toNat?; let m ← nodes.toMat?
    let ps ← V.toBarys? params
    pure (okV (ofMat (if kd = 0 then F90.evalBarycentricMulti t d m ps
                      else F90.evalBarycentricMultiReal t d m ps)))
  | "tri_eval1_py", [thr, degree, nodes, w] => do
    let t ← thr.toNat?; let d ← degree.toNat?; let m ← nodes.toMat?; let w ← V.toBary? w
    pure (okV (ofRow (Py.evalBarycentric t d m w)))
  | "tri_eval1_f90", [kind, thr, degree, nodes, w] => do
    let kd ← kind.toNat?; let t ← thr.toNat?; let d ← degree.toNat?; let m ← nodes.toMat?
    let w ← V.toBary? w
    pure (okV (ofRow (if kd = 0 then F90.evalBarycentric t d m w
                      else m.map (fun row => F90.evalBarycentricRowReal t d row w))))
  | "tri_evalcart_py", [thr, degree, nodes, params] => do
    let t ← thr.toNat?; let d ← degree.toNat?; let m ← nodes.toMat?; let ps ← V.toPairs? params
    pure (okV (ofMat (Py.evalCartesianMulti t d m ps)))
  | "tri_evalcart_f90", [kind, thr, degree, nodes, params] => do
    let kd ← kind.toNat?; let t ← thr.toNat?; let d ← degree.toNat?; let m ← nodes.toMat?
    let ps ← V.toPairs? params
    pure (okV (ofMat (if kd = 0 then F90.evalCartesianMulti t d m ps
                      else F90.evalCartesianMultiReal t d m ps)))
  -- the class methods: verification in front of the (Python-variant) hazmat call
  | "tri_class_bary", [verify, rtol, thr, degree, nodes, params] => do
    let vf ← V.toBool? verify; let rt ← rtol.toRat?
    let t ← thr.toNat?; let d ← degree.toNat?; let m ← nodes.toMat?; let ps ← V.toBarys? params
    pure (exceptMat (Tri.evaluateBarycentricMulti (Py.evalBarycentricMulti t d m) rt vf ps))
  | "tri_class_cart", [verify, thr, degree, nodes, params] => do
    let vf ← V.toBool? verify
    let t ← thr.toNat?; let d ← degree.toNat?; let m ← nodes.toMat?; let ps ← V.toPairs? params
    pure (exceptMat (Tri.evaluateCartesianMulti (Py.evalCartesianMulti t d m) vf ps))
  | "tri_verify_bary", [rtol, w] => do
    let rt ← rtol.toRat?; let w ← V.toBary? w
    pure (okV (ofBool (verifyBarycentric rt w)))
  | "tri_verify_cart", [s, t] => do
    let s ← s.toRat?; let t ← t.toRat?
    pure (okV (ofBool (verifyCartesian s t)))
  -- the Fortran running binomial
  | "tri_binom_f90", [degree] => do
    let d ← degree.toNat?
    pure (okV (.list ((List.range (d + 1)).map (fun t => ofInt (F90.binomAfter d t)))))
  | "tri_binom_overflows", [degree] => do
    let d ← degree.toNat?
    pure (okV (ofBool (F90.binomOverflows d)))
  -- edges
  | "tri_edges", [degree, nodes] => do
    let d ← degree.toNat?; let m ← nodes.toMat?
    let e := computeEdgeNodes d m
    pure (okV (.list [ofMat e.1, ofMat e.2.1, ofMat e.2.2]))
  -- specialisation / subdivision
  | "tri_specialize_py", [degree, nodes, wa, wb, wc] => do
    let d ← degree.toNat?; let m ← nodes.toMat?
    let wa ← V.toBary? wa; let wb ← V.toBary? wb; let wc ← V.toBary? wc
    pure (exceptMat (Py.triSpecialize d m wa wb wc))
  | "tri_specialize_f90", [degree, nodes, wa, wb, wc] => do
    let d ← degree.toNat?; let m ← nodes.toMat?
    let wa ← V.toBary? wa; let wb ← V.toBary? wb; let wc ← V.toBary? wc
    pure (okV (ofMat (F90.triSpecialize d m wa wb wc)))
  | "tri_workspaces", [degree] => do
    let d ← degree.toNat?
    let s := F90.workspaceSizes d
    pure (okV (.list [ofNat s.1, ofNat s.2, ofBool (F90.workspacesSuffice d)]))
  | "tri_submat", [degree, weights] => do
    -- the model-derived operator matrices A, B, C, D (`new = nodes · M`)
    let d ← degree.toNat?; let W ← V.toSubWeights? weights
    pure (okV (.list (quarters.map (fun qt => ofMat (triSubdivMat W d qt)))))
  | "tri_submat_py", [degree, weights] => do
    let d ← degree.toNat?; let W ← V.toSubWeights? weights
    pure (exceptMats (triMapE (fun qt => Py.triSubdivMat W d qt) quarters))
  | "tri_subdivide_py", [degree, nodes, weights] => do
    -- `subdivide_nodes` with the tables of degree 1–4 replaced by the model-derived matrices
    -- (equal to the extracted tables by Tables/C09)
    let d ← degree.toNat?; let m ← nodes.toMat?; let W ← V.toSubWeights? weights
    let mats := if 1 ≤ d ∧ d ≤ 4 then quarters.map (fun qt => triSubdivMat W d qt) else []
    let tables := fun (_ : Nat) (qt : Quarter) =>
      match qt with
      | .A => mats.getD 0 [] | .B => mats.getD 1 [] | .C => mats.getD 2 [] | .D => mats.getD 3 []
    pure (exceptMats (fourE (fun r qt => Py.triSubdivideNodesRow tables W d r qt) m))
  | "tri_subdivide_f90", [degree, nodes, weights] => do
    let d ← degree.toNat?; let m ← nodes.toMat?; let W ← V.toSubWeights? weights
    let mats := if 1 ≤ d ∧ d ≤ 4 then quarters.map (fun qt => triSubdivMat W d qt) else []
    let forms := fun (_ : Nat) (qt : Quarter) =>
      match qt with
      | .A => mats.getD 0 [] | .B => mats.getD 1 [] | .C => mats.getD 2 [] | .D => mats.getD 3 []
    pure (okV (.list (quarters.map (fun qt =>
      ofMat (m.map (fun r => F90.triSubdivideNodesRow forms W d r qt))))))
  | "tri_subdivide_generic_py", [degree, nodes, weights] => do
    let d ← degree.toNat?; let m ← nodes.toMat?; let W ← V.toSubWeights? weights
    pure (exceptMats (fourE (fun r qt => Py.triSubdivideGenericRow W d r qt) m))
  | "tri_subdivide_generic_f90", [degree, nodes, weights] => do
    let d ← degree.toNat?; let m ← nodes.toMat?; let W ← V.toSubWeights? weights
    pure (okV (.list (quarters.map (fun qt =>
      ofMat (m.map (fun r => F90.triSubdivideGenericRow W d r qt))))))
  -- elevation
  | "tri_elevate", [degree, nodes] => do
    let d ← degree.toNat?; let m ← nodes.toMat?
    pure (okV (ofMat (Tri.elevate d m)))
  | _, _ => none

end Driver.Ops.Triangle
