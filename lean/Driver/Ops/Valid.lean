import BezierVerif.Model.Valid
import Driver.Ops.Common

/-! # Driver/Ops/Valid — protocol ops of `Model/TriDeriv.lean` and `Model/Valid.lean` -/

open BezierVerif.Model
open Driver

namespace Driver.Ops.Valid

def thr0 : Nat := 55
def helper2 : List (List Q) := jacobianHelper thr0 2 2
def helper3 : List (List Q) := jacobianHelper thr0 3 4
def toBern2 : List (List Q) := (toBernstein (K := Q) thr0 2).getD []
/-- the library stores `36 ×` the change of basis and divides by `_QUARTIC_BERNSTEIN_FACTOR` afterwards -/
def toBern3 (factor : Q) : List (List Q) := ((toBernstein (K := Q) thr0 4).getD []).map (fun r => r.map (fun x => factor * x))

def subdivAll (m : Nat) (p : List Q) : List (List Q) :=
  [Quarter.A, Quarter.B, Quarter.C, Quarter.D].map (fun q => F90.triSubdivideGenericRow subWeights m p q)

def handle (op : String) (args : List V) : Option String :=
  match op, args with
  | "jacobian_both", [d, nodes] => do
    let d ← d.toNat?; let m ← nodes.toMat?
    pure (okV (ofMat (jacobianBoth d m)))
  | "jacobian_det", [thr, d, nodes, s, t] => do
    let thr ← thr.toNat?; let d ← d.toNat?; let m ← nodes.toMat?; let s ← s.toRat?; let t ← t.toRat?
    pure (okV (.num (jacobianDet thr d m s t)))
  | "newton_refine_triangle", [thr, d, nodes, x, y, s, t] => do
    let thr ← thr.toNat?; let d ← d.toNat?; let m ← nodes.toMat?
    let x ← x.toRat?; let y ← y.toRat?; let s ← s.toRat?; let t ← t.toRat?
    let r := newtonRefineTriangle thr d m x y s t
    pure (okV (ofRow [r.1, r.2]))
  | "jacobian_helper", [d, m] => do
    let d ← d.toNat?; let m ← m.toNat?
    pure (okV (ofMat (jacobianHelper (K := Q) thr0 d m)))
  | "to_bernstein", [m] => do
    let m ← m.toNat?
    pure (match toBernstein (K := Q) thr0 m with
      | some t => okV (ofMat t)
      | none => errV .runtimeError)
  | "jacobian_polynomial", [d, nodes] => do
    let d ← d.toNat?; let m ← nodes.toMat?
    if d = 2 then pure (okV (ofRow (jacobianPolynomial helper2 toBern2 m)))
    else if d = 3 then pure (okV (ofRow (jacobianPolynomial helper3 (toBern3 1) m)))
    else pure (errV .unsupportedDegree)
  | "polynomial_sign", [maxSub, degree, poly] => do
    let ms ← maxSub.toNat?; let d ← degree.toNat?; let p ← poly.toRow?
    pure (match polynomialSign (subdivAll d) ms d p with
      | .ok s => okV (ofInt s)
      | .error e => errV e)
  | "is_valid", [maxSub, factor, dim, d, nodes] => do
    let ms ← maxSub.toNat?; let f ← factor.toRat?; let dim ← dim.toNat?; let d ← d.toNat?; let m ← nodes.toMat?
    pure (match isValid helper2 toBern2 helper3 (toBern3 f) f (subdivAll 2) (subdivAll 4) ms dim d m with
      | .ok b => okV (ofBool b)
      | .error e => errV e)
  | _, _ => none

end Driver.Ops.Valid
