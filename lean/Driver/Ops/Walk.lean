import BezierVerif.Model.Walk
import BezierVerif.Model.GeometricInst
import Driver.Ops.Common
import Driver.Ops.Classify
import Driver.Ops.Geometric

/-!
# Driver/Ops/Walk — protocol ops of `Model/Walk.lean`

* `combine_intersections py maxEdges ints allTypes loc12 loc21`
  `ints` = list of `[index_first, s, index_second, t, class-code]`; `allTypes` = list of class codes (the set
  `all_types`); `loc12` / `loc21` = the two answers of `locate_point` used by `no_intersections`
  (first corner of triangle 1 in triangle 2 / first corner of triangle 2 in triangle 1).
* `tangent_only py allTypes`, `verify_duplicates dups uniques`, `same_intersection a b` (intersections with
  optional fields as in `Driver/Ops/Classify.lean`).
* `walk_regions py maxEdges ints` — the walk alone, with the node pairs:
  reply `[[ [[pos?, inter], [pos?, inter]] …pairs ], …regions ]`.
* `tri_intersections_lin py mode consts n1 n2` — the edge-pair loop on two degree-1 triangles:
  reply `[keep, duplicates, unused, allTypes]` (Fortran variant: `[keep, [], [], allTypes-as-codes]`).
* `tri_intersect_lin py mode verify maxEdges consts n1 n2` — the whole `generic_intersect` /
  `triangles_intersect` on two degree-1 triangles (`n1`, `n2` = `2 × 3` node arrays); the curve–curve primitive
  is the pipeline model `allIntersections (concretePrims …)` (for straight edges: `check_lines` →
  `segment_intersection` / `parallel_lines_parameters`), `locate_point` is exact point-in-triangle.
  `mode = 0`: exact rationals; `mode = 1`: every arithmetic operation rounded to binary64
  (round-to-nearest-even, 53-bit significand, unbounded exponent): `R64`.
  `consts` as in `Driver/Ops/Geometric.lean`.

Outcome encoding: `[regions?, contained?]`, an option being `[]` / `[v]`; a region is a list of
`[edge index, start, end]` in the order produced by the walk.
-/

open BezierVerif.Model
open BezierVerif.Model.Classify
open BezierVerif.Model.Walk
open Driver
open Driver.Ops.Classify

namespace Driver.Ops.Walk

/-! ## binary64 rounding on rationals -/

def pow2 (e : Int) (x : Rat) : Rat :=
  if e ≥ 0 then x * ((2 ^ e.toNat : Nat) : Rat) else x / ((2 ^ (-e).toNat : Nat) : Rat)

/-- round to nearest, ties to even, 53-bit significand (no overflow / underflow) -/
def rn (x : Rat) : Rat :=
  if x = 0 then 0
  else
    let a : Rat := if x < 0 then -x else x
    let k0 : Int := (Nat.log2 a.num.toNat : Int) - (Nat.log2 a.den : Int)
    -- 2^(k0-1) < a < 2^(k0+1)
    let k : Int := if a < pow2 k0 1 then k0 - 1 else k0
    -- 2^k ≤ a < 2^(k+1)
    let y := pow2 (52 - k) a
    let f := y.floor
    let r := y - (f : Rat)
    let m : Int := if r < 1/2 then f else if r > 1/2 then f + 1 else if f % 2 = 0 then f else f + 1
    let v := pow2 (k - 52) (m : Rat)
    if x < 0 then -v else v

structure R64 where
  v : Rat
  deriving DecidableEq

instance : Add R64 := ⟨fun a b => ⟨rn (a.v + b.v)⟩⟩
instance : Sub R64 := ⟨fun a b => ⟨rn (a.v - b.v)⟩⟩
instance : Mul R64 := ⟨fun a b => ⟨rn (a.v * b.v)⟩⟩
instance : Div R64 := ⟨fun a b => ⟨rn (a.v / b.v)⟩⟩
instance : Neg R64 := ⟨fun a => ⟨-a.v⟩⟩
instance : OfNat R64 0 := ⟨⟨0⟩⟩
instance : OfNat R64 1 := ⟨⟨1⟩⟩
instance : NatCast R64 := ⟨fun n => ⟨rn (n : Rat)⟩⟩
instance : LT R64 := ⟨fun a b => a.v < b.v⟩
instance : LE R64 := ⟨fun a b => a.v ≤ b.v⟩
instance : DecidableLT R64 := fun a b => inferInstanceAs (Decidable (a.v < b.v))
instance : DecidableLE R64 := fun a b => inferInstanceAs (Decidable (a.v ≤ b.v))

/-! ## number types of the driver -/

class Num (K : Type) where
  ofQ : Q → K
  toQ : K → Q

instance : Num Q := ⟨id, id⟩
instance : Num R64 := ⟨fun x => ⟨rn x⟩, fun x => x.v⟩

section Generic

variable {K : Type} [Add K] [Sub K] [Mul K] [Div K] [Neg K] [OfNat K 0] [OfNat K 1] [NatCast K]
  [LT K] [DecidableLT K] [LE K] [DecidableLE K] [DecidableEq K] [Num K]

def constsTo (C : PipelineConsts Q) : PipelineConsts K :=
  { geo := { errValSq := Num.ofQ C.geo.errValSq, maxRounds := C.geo.maxRounds, maxCandidates := C.geo.maxCandidates,
             zeroThr := Num.ofQ C.geo.zeroThr, ratioSq := Num.ofQ C.geo.ratioSq, minWidth := Num.ofQ C.geo.minWidth,
             unhandledLinesRaise := C.geo.unhandledLinesRaise },
    vsThr := C.vsThr, wiggle := Num.ofQ C.wiggle, epsSq := Num.ofQ C.epsSq, newtonFuel := C.newtonFuel,
    locateRounds := C.locateRounds, locateCapSq := Num.ofQ C.locateCapSq, rnd := id }

/-- exact point-in-triangle for a degree-1 triangle (closed): all three edge cross products of one sign -/
def locateLin : LocateFn K := fun nodes degree x y =>
  if degree ≠ 1 then none
  else
    let xs := nodes.getD 0 []
    let ys := nodes.getD 1 []
    let c (i j : Nat) : K := (seq xs j - seq xs i) * (y - seq ys i) - (seq ys j - seq ys i) * (x - seq xs i)
    let c0 := c 0 1
    let c1 := c 1 2
    let c2 := c 2 0
    if (0 ≤ c0 ∧ 0 ≤ c1 ∧ 0 ≤ c2) ∨ (c0 ≤ 0 ∧ c1 ≤ 0 ∧ c2 ≤ 0) then some (0, 0) else none

def allIntOf (py : Bool) (C : PipelineConsts K) : AllIntFn K :=
  fun a b => allIntersections (concretePrims py C) C.geo a b

def runTri (py verify : Bool) (maxEdges : Nat) (C : PipelineConsts K) (n1 n2 : List (List K)) :
    Except Err (Outcome K) :=
  if py then Py.genericIntersect C.vsThr maxEdges locateLin (allIntOf py C) n1 1 n2 1 verify
  else F90.trianglesIntersect C.vsThr maxEdges locateLin (allIntOf py C) n1 1 n2 1

def ofOutcome (o : Outcome K) : V :=
  let regs : V := match o.1 with
    | none => .list []
    | some l => .list [.list (l.map (fun r => .list (r.map (fun sg =>
        .list [ofNat sg.1, .num (Num.toQ sg.2.1), .num (Num.toQ sg.2.2)]))))]
  let cont : V := match o.2 with
    | none => .list []
    | some b => .list [ofBool b]
  .list [regs, cont]

def outcomeReply (r : Except Err (Outcome K)) : String :=
  match r with
  | .ok o => okV (ofOutcome o)
  | .error e => errV e

def ofInterK (x : Intersection K) : V :=
  .list [ofOptNat x.indexFirst, ofOptRat (x.s.map Num.toQ), ofOptNat x.indexSecond, ofOptRat (x.t.map Num.toQ),
         ofOptNat (x.interior.map Cls.code)]

def toMatK (m : List (List Q)) : List (List K) := m.map (fun r => r.map Num.ofQ)

def runPoints (py : Bool) (C : PipelineConsts K) (n1 n2 : List (List K)) : String :=
  let edges1 := edgeList 1 n1
  let edges2 := edgeList 1 n2
  if py then
    match Py.triangleIntersections C.vsThr (allIntOf py C) edges1 edges2 with
    | .error e => errV e
    | .ok r => okV (.list [.list (r.keep.map ofInterK), .list (r.duplicates.map ofInterK),
                           .list (r.unused.map ofInterK), .list (r.allTypes.map (fun c => ofNat c.code))])
  else
    match F90.trianglesIntersectionPoints C.vsThr (allIntOf py C) edges1 edges2 with
    | .error e => errV e
    | .ok r => okV (.list [.list (r.1.map ofInterK), .list [], .list [],
                           .list (((List.range 9).filter (fun c => r.2 / 2 ^ c % 2 = 1)).map ofNat)])

end Generic

/-! ## decoding -/

/-- `[index_first, s, index_second, t, class-code]` -/
def fullInter? (v : V) : Option (Intersection Q) := do
  let l ← v.toList?
  match l with
  | [a, b, c, d, e] => do
    let a ← a.toNat?; let b ← b.toRat?; let c ← c.toNat?; let d ← d.toRat?; let e ← e.toNat?
    let cls ← Cls.ofCode e
    pure { indexFirst := some a, s := some b, indexSecond := some c, t := some d, interior := some cls }
  | _ => none

def ofWNode (n : WNode Q) : V :=
  .list [ofOptNat n.pos, ofInter n.val]

def marker1 : List (List Q) := [[0], [0]]
def marker2 : List (List Q) := [[1], [1]]

def handle (op : String) (args : List V) : Option String :=
  match op, args with
  | "combine_intersections", [py, maxEdges, ints, allTypes, loc12, loc21] => do
    let py ← py.toNat?; let maxEdges ← maxEdges.toNat?
    let l ← ints.toList?; let ints ← l.mapM fullInter?
    let t ← allTypes.toList?; let t ← t.mapM V.toNat?; let types ← t.mapM Cls.ofCode
    let loc12 ← loc12.toNat?; let loc21 ← loc21.toNat?
    let locate : LocateFn Q := fun nodes _ _ _ =>
      if nodes = marker2 then (if loc12 ≠ 0 then some (0, 0) else none)
      else (if loc21 ≠ 0 then some (0, 0) else none)
    pure (if py ≠ 0 then
        outcomeReply (Py.combineIntersections maxEdges locate ints marker1 1 marker2 1 (types.foldl (fun s c => setAdd c s) []))
      else
        outcomeReply (F90.combineIntersections maxEdges locate ints marker1 1 marker2 1
          (types.foldl (fun s c => s ||| bitOf c) 0)))
  | "walk_regions", [py, maxEdges, ints] => do
    let py ← py.toNat?; let maxEdges ← maxEdges.toNat?
    let l ← ints.toList?; let ints ← l.mapM fullInter?
    let r := if py ≠ 0 then Py.walkRegions maxEdges ints else F90.walkRegions maxEdges ints
    pure (match r with
      | .error e => errV e
      | .ok regs => okV (.list (regs.map (fun reg =>
          .list [.list (reg.1.map (fun p => .list [ofWNode p.1, ofWNode p.2])),
                 .list (reg.2.map (fun sg => .list [ofNat sg.1, .num sg.2.1, .num sg.2.2]))]))))
  | "tri_intersections_lin", [py, mode, consts, n1, n2] => do
    let py ← py.toNat?; let mode ← mode.toNat?; let c ← consts.toRow?
    let n1 ← n1.toMat?; let n2 ← n2.toMat?
    let C ← Driver.Ops.Geometric.mkConsts 0 c
    pure (if mode = 0 then runPoints (K := Q) (py ≠ 0) C n1 n2
          else runPoints (K := R64) (py ≠ 0) (constsTo C) (toMatK n1) (toMatK n2))
  | "tri_intersect_lin", [py, mode, verify, maxEdges, consts, n1, n2] => do
    let py ← py.toNat?; let mode ← mode.toNat?; let verify ← verify.toNat?; let maxEdges ← maxEdges.toNat?
    let c ← consts.toRow?; let n1 ← n1.toMat?; let n2 ← n2.toMat?
    let C ← Driver.Ops.Geometric.mkConsts 0 c
    pure (if mode = 0 then outcomeReply (runTri (K := Q) (py ≠ 0) (verify ≠ 0) maxEdges C n1 n2)
          else outcomeReply (runTri (K := R64) (py ≠ 0) (verify ≠ 0) maxEdges (constsTo C) (toMatK n1) (toMatK n2)))
  | "tangent_only", [py, allTypes] => do
    let py ← py.toNat?
    let t ← allTypes.toList?; let t ← t.mapM V.toNat?; let types ← t.mapM Cls.ofCode
    pure (if py ≠ 0 then outcomeReply (Py.tangentOnly (K := Q) (types.foldl (fun s c => setAdd c s) []))
          else outcomeReply (F90.tangentOnly (K := Q) (types.foldl (fun s c => s ||| bitOf c) 0)))
  | "verify_duplicates", [dups, uniques] => do
    let d ← dups.toList?; let d ← d.mapM inter?
    let u ← uniques.toList?; let u ← u.mapM inter?
    pure (match verifyDuplicates (sameWiggle : Q) d u with
      | .ok _ => okV (ofNat 1)
      | .error e => errV e)
  | "same_intersection", [a, b] => do
    let a ← inter? a; let b ← inter? b
    pure (okV (ofBool (sameIntersection (sameWiggle : Q) a b)))
  | "rn64", [x] => do
    let x ← x.toRat?
    pure (okV (.num (rn x)))
  | _, _ => none

end Driver.Ops.Walk
