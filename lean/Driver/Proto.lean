/-!
# Driver/Proto — values of the line protocol

A value is a rational `p/q` (or an integer `p`) or a bracketed, comma separated list of values;
no spaces inside a value.  Tokens of a request line are separated by single spaces.
-/

namespace Driver

inductive V where
  | num (q : Rat)
  | list (l : List V)
  deriving Inhabited

partial def V.render : V → String
  | .num q => if q.den = 1 then toString q.num else s!"{q.num}/{q.den}"
  | .list l => "[" ++ ",".intercalate (l.map V.render) ++ "]"

structure P where
  s : Array Char
  i : Nat

def parseNat (p : P) : Option (Nat × P) := Id.run do
  let mut i := p.i
  let mut n := 0
  let mut any := false
  while i < p.s.size && p.s[i]!.isDigit do
    n := n * 10 + (p.s[i]!.toNat - '0'.toNat)
    i := i + 1
    any := true
  if any then return some (n, { p with i := i }) else return none

def parseNum (p : P) : Option (Rat × P) := do
  let (neg, p) := if p.i < p.s.size && p.s[p.i]! = '-' then (true, { p with i := p.i + 1 }) else (false, p)
  let (n, p) ← parseNat p
  let (d, p) ←
    if p.i < p.s.size && p.s[p.i]! = '/' then parseNat { p with i := p.i + 1 } else some (1, p)
  if d = 0 then none
  let r : Rat := mkRat (if neg then -(n : Int) else (n : Int)) d
  return (r, p)

partial def parseV (p : P) : Option (V × P) :=
  if p.i < p.s.size && p.s[p.i]! = '[' then
    let p := { p with i := p.i + 1 }
    if p.i < p.s.size && p.s[p.i]! = ']' then some (.list [], { p with i := p.i + 1 })
    else
      let rec loop (p : P) (acc : Array V) : Option (V × P) :=
        match parseV p with
        | none => none
        | some (v, p) =>
          let acc := acc.push v
          if p.i < p.s.size && p.s[p.i]! = ',' then loop { p with i := p.i + 1 } acc
          else if p.i < p.s.size && p.s[p.i]! = ']' then some (.list acc.toList, { p with i := p.i + 1 })
          else none
      loop p #[]
  else
    match parseNum p with
    | some (r, p) => some (.num r, p)
    | none => none

def parseValue (s : String) : Option V :=
  let p : P := { s := s.toList.toArray, i := 0 }
  match parseV p with
  | some (v, p) => if p.i = p.s.size then some v else none
  | none => none

/-! decoding helpers -/
def V.toRat? : V → Option Rat
  | .num q => some q
  | _ => none

def V.toNat? : V → Option Nat
  | .num q => if q.den = 1 && q.num ≥ 0 then some q.num.toNat else none
  | _ => none

def V.toList? : V → Option (List V)
  | .list l => some l
  | _ => none

def V.toRow? (v : V) : Option (List Rat) := do
  let l ← v.toList?
  l.mapM V.toRat?

def V.toMat? (v : V) : Option (List (List Rat)) := do
  let l ← v.toList?
  l.mapM V.toRow?

def ofRow (r : List Rat) : V := .list (r.map .num)
def ofMat (m : List (List Rat)) : V := .list (m.map ofRow)
def ofBool (b : Bool) : V := .num (if b then 1 else 0)
def ofNat (n : Nat) : V := .num (n : Rat)
def ofInt (n : Int) : V := .num (n : Rat)

end Driver
