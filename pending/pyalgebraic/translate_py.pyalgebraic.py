#!/venv/bin/python
"""Translator (code): predicate / kernel functions of the pure-Python implementation -> Lean.

On every run the CURRENT source text of `$BEZIER_REPO/src/python/bezier/hazmat/*.py` (default
/repo) is parsed with `ast` (the package is NOT imported), every function listed in `SIGS` is
translated statement by statement into a Lean definition, and the result is written to
lean/BezierVerif/Generated/SrcPy.lean (namespace `BezierVerif.Src.Py`).  The kernel then re-proves,
in lean/BezierVerif/Tables/SrcPy.lean, Tables/SrcPyReal.lean (phase 1) and Tables/SrcPyKernels.lean
(phase 2: loops, lists, stateful pieces, evaluation kernels), that each generated definition equals the
hand-written model definition (Model/Helpers.lean, Model/Solve2x2.lean, Model/Geometric.lean,
Model/Curve.lean) on the stated domain.  A semantic change of the source changes the generated term
and breaks the theorem.

Anything the translator does not understand gives `EXTRACT-PROBLEM srcpy: <function>: <what>` on
stdout and NO definition (so the theorem about it cannot build); nothing is skipped silently.
Exit status 0 even then.  Output is deterministic and only rewritten when it changes.

usage:  translate_py.py [--out FILE]        (env BEZIER_REPO = source tree)

------------------------------------------------------------------------------------------------
TRUSTED PART (everything else is re-checked by the kernel through the equality theorems)

 * `SIGS`: the parameter kinds of every translated function
       S    float scalar                        -> K
       S1   NumPy array with ONE entry          -> K      (see "one parameter value" below)
       N    int known to be >= 0                -> Nat
       P    1-D array with exactly 2 entries    -> Pt K = K x K          (v[0] = v.1, v[1] = v.2)
       V    1-D array of any length             -> List K
       C    d x 1 array                         -> List K (its d entries)
       M22  2 x 2 array                         -> List (List K), rows;  shape checked where indexed
       M2N  2 x N array (N free)                -> List (List K), rows;  shape checked where indexed
       MN   d x N array                         -> List (List K), rows
       SUB  SubdividedCurve object              -> Model.SubCurve K (.start, .end -> stop, .nodes)
       ("list", k)   Python list (read only)    -> List _
       ("mlist", k)  Python list that the function UPDATES IN PLACE: it is an argument and (the final
                     contents) a result of the generated definition; `f(.., lst)` as a statement re-binds `lst`
   An argument that violates the declared shape (M22 / M2N) gives `Err.badInput`.
   Default values of parameters (numeric constants only) are emitted as `<fn>_default_<param> : Rat`
   and filled in at calls that omit the argument.
 * `MODULES`: which source file a module alias of an `import` statement denotes (pure-Python
   configuration: the shim `bezier._helpers` binds `hazmat/helpers.py`).
 * `EXC`: exception class -> `Model.Err` constructor (the message is not modelled).
 * `ABSTRACT`: functions / classes that are CALLED by translated functions but not translated themselves
   (`newton_iterate`, the constructors `NewtonSimpleRoot(...)`, `NewtonDoubleRoot(...)`) are explicit parameters of the
   generated definitions of their (transitive) callers, like `sqrt`; the table only fixes their parameter / result
   kinds (kind EV = an `evaluate_fn` object = `Model.NewtonEval K`); nothing is assumed about them - the theorems
   state what they need as hypotheses.
 * methods: `("mod", "Class.method", kinds)` translates `Class.method(self, ...)` as a function of the object's fields
   (the parameters of `__init__`, which must do nothing but `self.x = x` for each of them) followed by the method's
   parameters; `self.x` reads the field.  Lean name `Class.call` for `__call__`.
 * a function name listed twice in `SIGS` keeps its plain Lean name for the first module and is `<module>.<name>` for
   the others (`intersection_helpers.newton_refine`).
 * the meaning given to the supported NumPy / builtin primitives (`RUNTIME` below and `prim_call`):
   np.min/np.max(axis=1), np.abs/abs, min/max (also on +-inf), np.vdot, np.dot, .T, np.asfortranarray/np.array,
   np.all, np.linalg.norm(ord=2) (= an ABSTRACT `sqrt : K -> K` applied to the sum of squares), np.inf, np.nan,
   np.zeros / np.ones / np.empty, .shape / np.shape, len, float, range, bisect.bisect_left (= Model.bisectLeft, the
   transcription of the library routine), elementwise `+ - *` and `<=` on arrays (1-D arrays with NumPy's length-1
   broadcasting; 2-D arrays of EQUAL shapes only - any other pair of shapes is `Err.badInput`, NumPy's 2-D
   broadcasting is not modelled), Python slices `a[:, lo:hi]` (clamping, negative bounds).
 * ONE PARAMETER VALUE: the evaluation kernels of curve_helpers.py broadcast over a vector of parameter values
   (`lambda1`, `s_vals` of shape `(num_vals,)`).  Every operation they use acts entry by entry along that axis,
   so they are translated for `num_vals = 1`: kind S1 (a one-entry array IS a number of K, `x[np.newaxis, :]` and
   `x[0]` are that number, `x.shape == (1,)`), a `d x 1` result is the list of its d entries (kind C), a
   `d x 1 x k` work array is a `d x k` array (three subscripts, the middle one `:` or `0`).  That the multi-value
   routine is the map of the one-value routine over the parameters is NumPy's broadcasting rule, not proved here.
 * float arithmetic `+ - * /` and comparisons are translated to the operations of the number type
   K (exact semantics; rounding is the subject of the correspondence scripts, not of this tie).
   Division by zero (IEEE inf / NaN in the code) is K's total `/`.  Python ints are `Int` (`Nat` where
   declared / derived from a length, a shape, a range); an int used with floats is converted (`Rt.ofInt`).
 * `None` / `np.nan` in a result position make that position an `Option`; using a maybe-`None`
   value as a number (`TypeError` in Python) is `Rt.unwrap` = `Err.badInput` on `none`; an
   out-of-range index (`IndexError`) is `Err.badInput` as well.
 * a function some statement of which can raise (listed exception, NumPy primitive on a zero-size /
   mis-shaped array, maybe-`None` value used as a number, shape check of an M22 / M2N parameter that is
   indexed) returns `Except Err _`; raising sub-computations are sequenced in Python's evaluation order
   with `Rt.bind` (`and` / `or` stay lazy, a lazily evaluated operand of a chained comparison that can
   raise is refused).
 * arrays that the code overwrites in place (`np.empty` + `x[:] = e`, `x[:, 0, :] = e`, `x[:, :, :j] = e`, a `np.empty((2, 2))` filled by
   the two column assignments `x[:, :1] = c0`, `x[:, 1:] = c1` - unusable until both are done,
   `np.zeros` + `x += e`) are re-bound; this is sound because such an array must have been created in the
   function and every second name for it (`y = x`, storing it in a tuple / list) is refused.

ACCEPTED PYTHON (per function body; docstrings ignored)
   statements : `x = e`, `a, b, _ = e` (tuple / 2-entry array unpacking), `x op= e` (numbers, arrays created in the
                function), `if/elif/else`, `return e`, `return (e, ...)`, `raise Exc(...)`, `pass`,
                `for x in <iterable>:` (no else / break / continue), `lst.append(e)`, `f(.., lst)` for a translated
                `f` that updates `lst` in place, the in-place array assignments listed above
   iterables  : a literal tuple / `range(c)` with a constant c <= 4 (unrolled), `range(n)`, `range(a, n)` with a
                constant a >= 0, `range(a, b, -1)` with a constant b >= 0, a list variable, a 1-D array
   loops      : the variables that are defined before the loop and re-bound in it form the loop state (in the order
                of their definition); no `return` inside and nothing that can raise -> `List.foldl`; can raise ->
                `Rt.foldM`; `return` inside -> `Rt.forE` / `Rt.forM` (the step answers `Sum.inl result` or
                `Sum.inr state`); variables first bound inside the loop are unbound after it
   expressions: float/int/bool/None constants (int and float constants alike are numbers of K), constant
                arithmetic incl. `**` (folded exactly),
                names (parameters, locals, numeric module constants), `+ - * /`, unary `-`, `not`,
                `and` / `or` (short-circuit kept when the right operand can raise), comparisons
                incl. chains, `v[0]`, `m[i, j]`, `m[:, j]`, `m[:, [j]]`, `m[i, -1]`, `m[:, -1]`, `m[:, lo:hi]`,
                `m[:, ::-1]`, `lst[i]`, `tup[i]`, tuples, list literals, `[]`, `obj.start/.end/.nodes`, `m.T`, `m.shape`,
                `Class.ATTR` of a plain class with int attributes (enum),
                calls of other translated functions (positional arguments) and of the
                primitives listed above; truth value of a list (`if not lst`).
   control    : early `return` = the remainder of the block becomes the `else` branch; an `if`
                without `return`/`raise` inside = simultaneous `let (x, y) := if .. then .. else ..`
                over the variables assigned in it (both arms must define them, or they must be
                defined before); an `if` some arm of which falls through while another returns =
                the remainder is translated once per falling-through arm.
"""
import ast
import os
import sys
from fractions import Fraction as Fr

REPO = os.environ.get("BEZIER_REPO", "/repo")
HERE = os.path.dirname(os.path.abspath(__file__))
OUT = os.path.join(os.path.dirname(HERE), "lean", "BezierVerif", "Generated", "SrcPy.lean")

# ------------------------------------------------------------------ trusted tables
SIGS = [
    ("helpers", "in_interval", ["S", "S", "S"]),
    ("helpers", "cross_product", ["P", "P"]),
    ("helpers", "cross_product_compare", ["P", "P", "P"]),
    ("helpers", "wiggle_interval", ["S", "S"]),
    ("helpers", "vector_close", ["V", "V", "S"]),
    ("helpers", "bbox", ["M2N"]),
    ("helpers", "contains_nd", ["MN", "V"]),
    ("helpers", "solve2x2", ["M22", "P"]),
    ("geometric_intersection", "bbox_intersect", ["M2N", "M2N"]),
    ("geometric_intersection", "segment_intersection", ["P", "P", "P", "P"]),
    ("geometric_intersection", "parallel_lines_parameters", ["P", "P", "P", "P"]),
    ("geometric_intersection", "line_line_collide", ["M22", "M22"]),
    ("geometric_intersection", "bbox_line_intersect", ["M2N", "P", "P"]),
    ("clipping", "compute_implicit_line", ["M2N"]),
    ("clipping", "_update_parameters", ["S", "S", "P", "P", "P", "P"]),
    ("triangle_helpers", "two_by_two_det", ["M22"]),
    # phase 2: loops and the small stateful pieces of the intersection pipeline
    ("helpers", "is_separating", ["P", "M2N", "M2N"]),
    ("helpers", "polygon_collide", ["M2N", "M2N"]),
    ("helpers", "in_sorted", [("list", "N"), "N"]),
    ("helpers", "matrix_product", ["MN", "MN"]),
    ("geometric_intersection", "linearization_error", ["MN"]),
    ("curve_helpers", "de_casteljau_one_round", ["MN", "S", "S"]),
    ("curve_helpers", "evaluate_multi_vs", ["MN", "S1", "S1"]),
    ("curve_helpers", "evaluate_multi_de_casteljau", ["MN", "S1", "S1"]),
    ("curve_helpers", "evaluate_multi_barycentric", ["MN", "S1", "S1"]),
    ("curve_helpers", "evaluate_multi", ["MN", "S1"]),
    ("curve_helpers", "evaluate_hodograph", ["S", "MN"]),
    ("curve_helpers", "newton_refine", ["MN", "C", "S"]),
    # phase 3
    ("intersection_helpers", "full_newton_nonzero", ["S", "MN", "S", "MN"]),
    ("intersection_helpers", "full_newton", ["S", "MN", "S", "MN"]),
    ("intersection_helpers", "newton_refine", ["S", "MN", "S", "MN"]),
    ("intersection_helpers", "NewtonSimpleRoot.__call__", ["MN", "MN", "MN", "MN", "S", "S"]),
    ("geometric_intersection", "add_intersection", ["S", "S", ("mlist", ("tuple", ("S", "S")))]),
    ("geometric_intersection", "endpoint_check", ["SUB", "V", "S", "SUB", "V", "S", ("mlist", ("tuple", ("S", "S")))]),
    ("geometric_intersection", "tangent_bbox_intersection", ["SUB", "SUB", ("mlist", ("tuple", ("S", "S")))]),
    # phase 4 (pyalgebraic)
    ("algebraic_intersection", "_evaluate3", ["M2N", "S", "S"]),
    ("algebraic_intersection", "evaluate", ["M2N", "S", "S"]),
    ("algebraic_intersection", "eval_intersection_polynomial", ["M2N", "MN", "S"]),
    ("algebraic_intersection", "_to_power_basis11", ["M2N", "MN"]),
    ("algebraic_intersection", "_to_power_basis12", ["M2N", "MN"]),
    ("algebraic_intersection", "_to_power_basis13", ["M2N", "MN"]),
    ("algebraic_intersection", "_to_power_basis_degree4", ["M2N", "MN"]),
    ("algebraic_intersection", "_to_power_basis23", ["M2N", "MN"]),
    ("algebraic_intersection", "_to_power_basis_degree8", ["M2N", "MN"]),
    ("algebraic_intersection", "_to_power_basis33", ["M2N", "MN"]),
    ("algebraic_intersection", "to_power_basis", ["M2N", "MN"]),
    ("algebraic_intersection", "polynomial_norm", ["V"]),
    ("algebraic_intersection", "normalize_polynomial", ["VW", "S"]),
    ("algebraic_intersection", "poly_to_power_basis", ["V"]),
    ("algebraic_intersection", "_get_sigma_coeffs", ["V"]),
    ("algebraic_intersection", "bernstein_companion", ["V"]),
    ("algebraic_intersection", "lu_companion", ["V", "S"]),
    ("algebraic_intersection", "all_intersections", ["M2N", "M2N"]),
    ("algebraic_intersection", "roots_in_unit_interval", ["V"]),
    ("algebraic_intersection", "_strip_leading_zeros", ["V", "S"]),
    ("algebraic_intersection", "bezier_roots", ["V"]),
    ("algebraic_intersection", "_reciprocal_condition_number", ["MN", "S"]),
    ("algebraic_intersection", "bezier_value_check", ["V", "S", "S"]),
    ("algebraic_intersection", "locate_point", ["M2N", "S", "S"]),
    ("algebraic_intersection", "_check_non_simple", ["V"]),
    ("algebraic_intersection", "_resolve_and_add", ["MN", "S", ("mlist", ("opt", "S", "nan")), "MN", "S", ("mlist", ("opt", "S", "nan"))]),
]
MODULES = {
    "bezier.hazmat.helpers": "helpers",
    "bezier.hazmat.geometric_intersection": "geometric_intersection",
    "bezier.hazmat.clipping": "clipping",
    "bezier.hazmat.triangle_helpers": "triangle_helpers",
    "bezier.hazmat.intersection_helpers": "intersection_helpers",
    "bezier.hazmat.curve_helpers": "curve_helpers",
    "bezier._helpers": "helpers",                      # shim, pure-Python configuration
}
# functions that are CALLED by translated functions but not translated themselves: the generated definitions of their
# (transitive) callers take them as an explicit parameter, like `sqrt`; nothing is assumed about them
ABSTRACT = {     # (module, name) -> (parameter kinds, result kind, can raise?)
    ("intersection_helpers", "NewtonSimpleRoot"): (["MN", "MN", "MN", "MN"], "EV", False),
    ("intersection_helpers", "NewtonDoubleRoot"): (["MN", "MN", "MN", "MN", "MN", "MN"], "EV", False),
    ("intersection_helpers", "newton_iterate"): (["EV", "S", "S"], ("tuple", ("B", "S", "S")), True),
}
EXC = {"NotImplementedError": "notImplemented", "ValueError": "valueError",
       "RuntimeError": "runtimeError", "UnsupportedDegree": "unsupportedDegree"}

RUNTIME = """\
/-! ## runtime: the meaning of the supported NumPy primitives (fixed text, part of the trusted base) -/
namespace Rt

/-- `np.min(row)`: `ValueError` on a zero-size array -/
def npMin (r : List K) : Except Err K :=
  match r with
  | [] => .error .valueError
  | x :: xs => .ok (Model.minOf x xs)

/-- `np.max(row)`: `ValueError` on a zero-size array -/
def npMax (r : List K) : Except Err K :=
  match r with
  | [] => .error .valueError
  | x :: xs => .ok (Model.maxOf x xs)

/-- sequencing: an exception raised by the first computation propagates -/
def bind {α β : Type} (m : Except Err α) (f : α → Except Err β) : Except Err β :=
  match m with
  | .error e => .error e
  | .ok v => f v

@[simp] theorem bind_ok {α β : Type} (v : α) (f : α → Except Err β) : bind (.ok v) f = f v := rfl
@[simp] theorem bind_error {α β : Type} (e : Err) (f : α → Except Err β) : bind (.error e) f = .error e := rfl

/-- a maybe-`None` value used where a float is required (`TypeError`) -/
def unwrap {α : Type} (x : Option α) : Except Err α :=
  match x with
  | some v => .ok v
  | none => .error .badInput

/-- `row[i]` with a constant `i ≥ 0` (`IndexError`) -/
def idx (r : List K) (i : Nat) : Except Err K :=
  match r[i]? with
  | some v => .ok v
  | none => .error .badInput

/-- `row[-1]` (`IndexError`) -/
def idxLast (r : List K) : Except Err K :=
  match r.getLast? with
  | some v => .ok v
  | none => .error .badInput

/-- elementwise binary operation of two 1-D arrays with NumPy broadcasting (equal lengths, or one
    of them of length 1); otherwise `ValueError` -/
def vzip {β : Type} (f : K → K → β) (a b : List K) : Except Err (List β) :=
  if a.length = b.length then .ok (List.zipWith f a b)
  else match a, b with
    | [x], _ => .ok (b.map (fun y => f x y))
    | _, [y] => .ok (a.map (fun x => f x y))
    | _, _ => .error .valueError

/-! ### phase 2: Python ints, `±inf`, lists, shapes, loops -/

/-- a Python int used in float arithmetic -/
def ofInt (i : Int) : K := if i < 0 then -((i.natAbs : Nat) : K) else ((i.natAbs : Nat) : K)

/-- `row[j]` with a Python int `j`: negative `j` counts from the end; `IndexError` outside `-len .. len-1` -/
def idxI (r : List K) (j : Int) : Except Err K :=
  if 0 ≤ j then idx r j.toNat
  else if -(r.length : Int) ≤ j then idx r ((r.length : Int) + j).toNat
  else .error .badInput

/-- `lst[i]` of a Python list, `i ≥ 0` (`IndexError`) -/
def lidx {α : Type} (l : List α) (i : Nat) : Except Err α :=
  match l[i]? with
  | some v => .ok v
  | none => .error .badInput

/-- `nodes.shape[1]` of a `2 × N` array: both rows have `N` entries (anything else is not an array: `badInput`) -/
def shape2 (r0 r1 : List K) : Except Err Nat :=
  if r0.length = r1.length then .ok r0.length else .error .badInput

/-- `nodes.shape` of a `d × N` array given by its rows (rows of unequal length are not an array: `badInput`;
    zero rows: `(0, 0)`) -/
def shape (m : List (List K)) : Except Err (Nat × Nat) :=
  match m with
  | [] => .ok (0, 0)
  | r :: rs => if rs.all (fun x => x.length == r.length) then .ok (rs.length + 1, r.length) else .error .badInput

/-- `lst[lo:hi]` of Python (bounds clamped, negative bounds count from the end; never raises) -/
def sliceIdx (n : Nat) (i : Int) : Nat := if i < 0 then ((n : Int) + i).toNat else min i.toNat n

def slice {α : Type} (r : List α) (lo hi : Option Int) : List α :=
  let a := match lo with
    | none => 0
    | some i => sliceIdx r.length i
  let b := match hi with
    | none => r.length
    | some i => sliceIdx r.length i
  (r.drop a).take (b - a)

/-- `nodes[:, lo:hi]` of a `d × N` array -/
def cols (m : List (List K)) (lo hi : Option Int) : List (List K) := m.map fun r => slice r lo hi

/-- a 1-D array / a `d × 1` array used where exactly two entries are required (anything else: `badInput`) -/
def asPt (v : List K) : Except Err (Pt K) :=
  match v with
  | [a, b] => .ok (a, b)
  | _ => .error .badInput

/-- `nodes[:, ::-1]`: every row reversed -/
def mrev (m : List (List K)) : List (List K) := m.map List.reverse

/-- entrywise function of a `d × N` array (`c * A`, `A * c`, `np.abs(A)`) -/
def mmap (f : K → K) (m : List (List K)) : List (List K) := m.map fun r => r.map f

/-- `A + B` / `A - B` of two 2-D arrays OF THE SAME SHAPE (NumPy's broadcasting of 2-D arrays is not modelled:
    any other pair of shapes is `Err.badInput`) -/
def mzip (f : K → K → K) : List (List K) → List (List K) → Except Err (List (List K))
  | [], [] => .ok []
  | ra :: a, rb :: b =>
    if ra.length = rb.length then bind (mzip f a b) fun rest => .ok (List.zipWith f ra rb :: rest)
    else .error .badInput
  | _, _ => .error .badInput

/-- the `d × k` array all of whose entries are `c` (`x[...] = c`) -/
def mfill (d k : Nat) (c : K) : List (List K) := List.replicate d (List.replicate k c)

/-- `x[...] = e` for an array `x` of shape `d × k`: `e` must have that shape (broadcasting of `e` is not modelled: `badInput`) -/
def asShape (d k : Nat) (e : List (List K)) : Except Err (List (List K)) :=
  if e.length = d ∧ e.all (fun r => r.length == k) = true then .ok e else .error .badInput

/-- `x[:, lo:hi] = e` row by row: the replaced stretch and the row of `e` must have the same length (`badInput`) -/
def setCols (m : List (List K)) (lo hi : Option Int) : List (List K) → Except Err (List (List K)) :=
  fun e => match m, e with
  | [], [] => .ok []
  | r :: m', er :: e' =>
    let a := match lo with
      | none => 0
      | some i => sliceIdx r.length i
    let b := match hi with
      | none => r.length
      | some i => sliceIdx r.length i
    if er.length = b - a then bind (setCols m' lo hi e') fun rest => .ok ((r.take a ++ er ++ r.drop (max a b)) :: rest)
    else .error .badInput
  | _, _ => .error .badInput

/-- `np.dot(A, B)` of two 2-D arrays: every row of `A` must have as many entries as `B` has rows (`ValueError`) -/
def npDot (a b : List (List K)) : Except Err (List (List K)) :=
  if a.all (fun r => r.length == b.length) then .ok (Model.matMul a b) else .error .valueError

/-- a float that may be `-inf` / `+inf` (`np.inf`) -/
inductive Ext (K : Type) where
  | ninf
  | fin (x : K)
  | pinf

/-- `a < b` on possibly infinite values -/
def Ext.lt : Ext K → Ext K → Bool
  | .ninf, .ninf => false
  | .ninf, _ => true
  | .fin _, .ninf => false
  | .fin a, .fin b => decide (a < b)
  | .fin _, .pinf => true
  | .pinf, _ => false

/-- the builtin `min(a, b)`: `b if b < a else a` -/
def Ext.min (a b : Ext K) : Ext K := if Ext.lt b a then b else a

/-- the builtin `max(a, b)`: `b if b > a else a` -/
def Ext.max (a b : Ext K) : Ext K := if Ext.lt a b then b else a

def Ext.neg : Ext K → Ext K
  | .ninf => .pinf
  | .fin x => .fin (-x)
  | .pinf => .ninf

/-- `for x in xs: state = step(state, x)` where the step can raise -/
def foldM {α σ : Type} (xs : List α) (init : σ) (step : σ → α → Except Err σ) : Except Err σ :=
  match xs with
  | [] => .ok init
  | x :: xs => bind (step init x) fun s => foldM xs s step

/-- `for x in xs:` with early `return`: the step answers `Sum.inl r` (return `r`) or `Sum.inr state` (go on) -/
def forE {α σ ρ : Type} (xs : List α) (init : σ) (step : σ → α → ρ ⊕ σ) : ρ ⊕ σ :=
  match xs with
  | [] => .inr init
  | x :: xs =>
    match step init x with
    | .inl r => .inl r
    | .inr s => forE xs s step

/-- the same where the step can raise -/
def forM {α σ ρ : Type} (xs : List α) (init : σ) (step : σ → α → Except Err (ρ ⊕ σ)) : Except Err (ρ ⊕ σ) :=
  match xs with
  | [] => .ok (.inr init)
  | x :: xs =>
    bind (step init x) fun res =>
      match res with
      | .inl r => .ok (.inl r)
      | .inr s => forM xs s step

end Rt
"""

LEAN_KEYWORDS = {"end", "at", "from", "then", "else", "do", "open", "show", "have", "fun", "match", "with",
                 "in", "if", "let", "def", "theorem", "by", "where", "import", "namespace", "section",
                 "variable", "universe", "instance", "class", "structure", "inductive", "return", "for",
                 "mut", "using", "calc", "suffices", "obtain", "deriving", "extends", "Type", "Prop", "Sort",
                 "e", "K", "sqrt", "Model", "Rt", "Err", "Pt", "some", "none", "true", "false", "id", "decide",
                 "List", "Except", "Option", "Nat", "Bool", "Src", "Py", "BezierVerif"}
# a local variable must not capture a generated global either
LEAN_KEYWORDS |= {fn for _, fn, _ in SIGS} | {fn for _, fn in ABSTRACT}

# ------------------------------------------------------------------ phase 4 (pyalgebraic): hazmat/algebraic_intersection.py
# TRUSTED additions of this phase
#  * parameter kind VW: a 1-D array (List K) that the function may overwrite in place (`coeffs /= l2_norm`): the new
#    contents are the value of the variable from then on (and what `return coeffs` delivers); that the CALLER's array
#    is changed as well is a side effect that is NOT modelled - a translated call site must pass a fresh temporary
#    (an argument that is a plain variable is refused).
#  * shims of the pure-Python configuration: `bezier._curve_helpers` etc. bind the hazmat modules.
#  * external numerics called by the translated functions are explicit parameters of the generated definitions
#    (nothing is assumed about them): `np.linalg.det` -> `np_linalg_det : List (List K) → K`,
#    `numpy.polynomial.polynomial.polyfit(x, y, deg)` -> `polyfit : List K → List K → Nat → List K`, `np.sqrt` -> `sqrt`.
#  * module constants that are 1-D array literals (`_CHEB7 = np.asfortranarray([float.fromhex(..), ..])`) are emitted
#    as `<module>.<NAME without leading _> : List K` with the exact binary64 values; a list comprehension over such a
#    constant is unrolled (like a loop over a literal tuple).
#  * meaning of the new primitives: see RUNTIME_PYALGEBRAIC; unpacking a 1-D array into n names is `Rt.unpackN`
#    (`ValueError` unless it has exactly n entries); `2-row array - np.asfortranarray([[a], [b]])` subtracts `a` from
#    row 0 and `b` from row 1 (NumPy broadcasting of a 2 x 1 column against a 2 x N array); `v op s` / `s op v` of a
#    1-D array and a scalar acts entry by entry; `np.zeros(v.shape)` is as many zeros as `v` has entries; `np.zeros((a, b))`
#    is the a x b zero array; `x[r0:r1, c0:c1] = e` (x created in the function) requires e of exactly that shape
#    (`badInput` otherwise: broadcasting of e is not modelled); `x[:, lo:hi] *= c` scales those columns.
#  * further statements / expressions of this phase (each refused outside the stated form):
#      `x = None` + `if x is None:` / `is not None` (a maybe-None variable; inside the other arm it is a plain value),
#      `break` in a `for` (not together with `return` / `raise` in the same loop) -> `Rt.forB` / `Rt.forBM`,
#      `while test(x): x = e(x)` for ONE 1-D array x -> `Rt.whileM` with fuel `len(x) + 1` (`Err.recursion` beyond: an answer
#      the code cannot give, so the equality theorem shows the fuel suffices),
#      `range(a, -1, -1)` (a, .., 0), `range(i + 1, n)`, truth value of a Python int, `[c] * n` (list repetition, as a 1-D
#      array; any other arithmetic with a list LITERAL is refused), `v[i]`, `v[lo:hi]`, `v[::-1]`, `-v`, `v[i] op= c`,
#      `x[i, j] = c` / `x[i, j]` (Python index conventions, `IndexError` = `badInput`), `x[i, :] = v`,
#      `x.flat[start::step] = c` (row-major positions), `np.empty((0,))`, `np.empty((d, 0))`, `np.hstack([a, b])`,
#      1-D COMPLEX arrays (kind VC = List (K x K), entries (re, im)): `.real`, `.imag`, `z + c`, `c + z`, `z / w`
#      (textbook formula `Rt.cdiv`), `np.abs(z)` = `sqrt (re*re + im*im)` with the abstract `sqrt`, a real array where a complex
#      one is expected is embedded with imaginary part 0; boolean arrays: `v < c`, `c < v`, `a & b`, `x[mask]`;
#      a module constant naming an enum member of another module (`_DISJOINT`), comparison of enum members by their integers;
#      `import <external module>` inside a function and `_f = <external module>.<function>` (a local name for an ABSTRACT
#      function, bound once); `return None, 0, 0` next to `return x, degree, n`: an integer CONSTANT in a tuple position where
#      another `return` delivers a Python int is that int.
MODULES.update({
    "bezier._curve_helpers": "curve_helpers",                  # shims, pure-Python configuration
    "bezier._geometric_intersection": "geometric_intersection",
    "bezier._intersection_helpers": "intersection_helpers",
    "bezier.hazmat.algebraic_intersection": "algebraic_intersection",
    "numpy.polynomial.polynomial": "numpy.polynomial",         # external: only ABSTRACT callees
})
ABSTRACT.update({
    ("algebraic_intersection", "intersect_curves"): (["MN", "MN"], "MN", True),
    ("numpy", "np_linalg_det"): (["MN"], "S", False),
    ("numpy", "np_linalg_eigvals"): (["MN"], "VC", False),
    ("numpy.polynomial", "polyfit"): (["V", "V", "N"], "V", False),
    ("numpy.polynomial", "polyroots"): (["V"], "VC", False),
    ("numpy.polynomial", "polyval"): (["V", "V"], "V", False),
    ("numpy.polynomial", "polyder"): (["V"], "V", False),
    ("numpy.polynomial", "polycompanion"): (["V"], "MN", False),
    ("numpy", "np_linalg_matrix_rank"): (["MN"], "N", False),
    ("curve_helpers", "full_reduce"): (["MN"], "MN", True),
    ("scipy.linalg.lapack", "dgecon"): (["MN", "S"], ("tuple", ("S", "I")), False),
})
LEAN_KEYWORDS |= {fn for _, fn in ABSTRACT}

# external modules whose `import` inside a function body is skipped (an import has no effect on the values computed), and
# whose functions may be bound to a local name (`_dgecon = scipy.linalg.lapack.dgecon`): calls through that name are calls
# of the ABSTRACT function
EXTERNAL_IMPORTS = {"scipy.linalg.lapack"}

RUNTIME_PYALGEBRAIC = """\

/-! ### phase 4 (pyalgebraic): unpacking, blocks of a 2-D array -/
namespace Rt

/-- `a, b = v` for a 1-D array `v` (`ValueError` unless it has exactly two entries) -/
def unpack2 (v : List K) : Except Err (K × K) :=
  match v with
  | [a, b] => .ok (a, b)
  | _ => .error .valueError

/-- `a, b, c = v` -/
def unpack3 (v : List K) : Except Err (K × K × K) :=
  match v with
  | [a, b, c] => .ok (a, b, c)
  | _ => .error .valueError

/-- `a, b, c, d = v` -/
def unpack4 (v : List K) : Except Err (K × K × K × K) :=
  match v with
  | [a, b, c, d] => .ok (a, b, c, d)
  | _ => .error .valueError

/-- `x[:, lo:hi] op= c` row by row: the entries of the stretch are replaced by their images under `f` -/
def mapCols (f : K → K) (m : List (List K)) (lo hi : Option Int) : List (List K) :=
  m.map fun r =>
    let a := match lo with
      | none => 0
      | some i => sliceIdx r.length i
    let b := match hi with
      | none => r.length
      | some i => sliceIdx r.length i
    r.take a ++ ((r.drop a).take (b - a)).map f ++ r.drop (max a b)

/-- `x[rlo:rhi, clo:chi] = e`: `e` must have exactly the shape of the replaced block (`badInput`; broadcasting of `e`
    is not modelled) -/
def setBlock (m : List (List K)) (rlo rhi clo chi : Option Int) (e : List (List K)) : Except Err (List (List K)) :=
  let a := match rlo with
    | none => 0
    | some i => sliceIdx m.length i
  let b := match rhi with
    | none => m.length
    | some i => sliceIdx m.length i
  if e.length = b - a then
    bind (setCols ((m.drop a).take (b - a)) clo chi e) fun mid => .ok (m.take a ++ mid ++ m.drop (max a b))
  else .error .badInput

/-- `for x in xs:` with `break`: the step answers `Sum.inl state` (leave the loop) or `Sum.inr state` (go on) -/
def forB {α σ : Type} (xs : List α) (init : σ) (step : σ → α → σ ⊕ σ) : σ :=
  match xs with
  | [] => init
  | x :: xs =>
    match step init x with
    | .inl s => s
    | .inr s => forB xs s step

/-- the same where the step can raise -/
def forBM {α σ : Type} (xs : List α) (init : σ) (step : σ → α → Except Err (σ ⊕ σ)) : Except Err σ :=
  match xs with
  | [] => .ok init
  | x :: xs =>
    bind (step init x) fun res =>
      match res with
      | .inl s => .ok s
      | .inr s => forBM xs s step

/-- `x.flat[start::step] = c` for a 2-D array (rows of the length of the first row): the entries at the row-major
    positions `start, start + step, ...` (`ValueError` for `step = 0`) -/
def setFlat (m : List (List K)) (start step : Nat) (c : K) : Except Err (List (List K)) :=
  if step = 0 then .error .valueError
  else
    let nc := (m.headD []).length
    .ok (m.mapIdx fun r row => row.mapIdx fun j x =>
      if start ≤ r * nc + j ∧ (r * nc + j - start) % step = 0 then c else x)

/-- `x[i, :] = v`: `v` must have as many entries as the row (`ValueError`; broadcasting of a one-entry `v` is not
    modelled), `IndexError` (`badInput`) without such a row -/
def setRow (m : List (List K)) (i : Nat) (v : List K) : Except Err (List (List K)) :=
  match m[i]? with
  | none => .error .badInput
  | some r => if r.length = v.length then .ok (m.set i v) else .error .valueError

/-- `while test(s): s = step(s)` with at most `fuel` rounds (`Err.recursion` when they do not suffice) -/
def whileM {σ : Type} (fuel : Nat) (s : σ) (test : σ → Except Err Bool) (step : σ → Except Err σ) : Except Err σ :=
  match fuel with
  | 0 => .error .recursion
  | f + 1 => bind (test s) fun c => if c then bind (step s) fun s' => whileM f s' test step else .ok s

/-- complex division `(a + bi) / (c + di)` by the textbook formula (exact arithmetic; NumPy's scaling against overflow is
    a matter of rounding) -/
def cdiv (z w : K × K) : K × K :=
  let n := w.1 * w.1 + w.2 * w.2
  ((z.1 * w.1 + z.2 * w.2) / n, (z.2 * w.1 - z.1 * w.2) / n)

/-- elementwise operation of two 1-D complex arrays of equal length (anything else `ValueError`) -/
def czip (f : K × K → K × K → K × K) (a b : List (K × K)) : Except Err (List (K × K)) :=
  if a.length = b.length then .ok (List.zipWith f a b) else .error .valueError

/-- `np.argmin(v)`: index of the first minimum (`ValueError` on an empty array) -/
def argmin (v : List K) : Except Err Nat :=
  match v with
  | [] => .error .valueError
  | x :: rest =>
    .ok (rest.foldl (fun (st : Nat × K × Nat) y =>
      if y < st.2.1 then (st.2.2, y, st.2.2 + 1) else (st.1, st.2.1, st.2.2 + 1)) (0, x, 1)).1

/-- `a & b` of two boolean arrays (equal lengths; anything else `ValueError`: broadcasting is not modelled) -/
def band (a b : List Bool) : Except Err (List Bool) :=
  if a.length = b.length then .ok (List.zipWith (fun x y => x && y) a b) else .error .valueError

/-- `x[mask]` with a boolean array of the same length (`IndexError`: `badInput`) -/
def mask {α : Type} (x : List α) (m : List Bool) : Except Err (List α) :=
  if x.length = m.length then .ok (((x.zip m).filter fun p => p.2).map fun p => p.1) else .error .badInput

/-- position of the Python index `i` in a sequence of length `n` (negative indices count from the end) -/
def pyIdx (n : Nat) (i : Int) : Option Nat :=
  if 0 ≤ i then (if i.toNat < n then some i.toNat else none)
  else if -(n : Int) ≤ i then some ((n : Int) + i).toNat
  else none

/-- `x[i, j] = c` for a 2-D array created in the function (`IndexError`: `badInput`) -/
def setCell (m : List (List K)) (i j : Int) (c : K) : Except Err (List (List K)) :=
  match pyIdx m.length i with
  | none => .error .badInput
  | some r =>
    match m[r]? with
    | none => .error .badInput
    | some row =>
      match pyIdx row.length j with
      | none => .error .badInput
      | some k => .ok (m.set r (row.set k c))

/-- `x[i, j]` of a 2-D array (`IndexError`: `badInput`) -/
def getCell (m : List (List K)) (i j : Int) : Except Err K :=
  match pyIdx m.length i with
  | none => .error .badInput
  | some r =>
    match m[r]? with
    | none => .error .badInput
    | some row => idxI row j

/-- `v[i] op= c` for a 1-D array created in the function (`IndexError`: `badInput`) -/
def updIdx (f : K → K) (v : List K) (i : Nat) : Except Err (List K) :=
  match v[i]? with
  | some x => .ok (v.set i (f x))
  | none => .error .badInput

end Rt
"""
RUNTIME += RUNTIME_PYALGEBRAIC


class Problem(Exception):
    pass


def lean_fn_name(mod, fn):
    first = next(m for m, f, _ in SIGS if f == fn)
    fn = fn.replace(".__call__", ".call")
    return fn if first == mod else "%s.%s" % (mod, fn)


def lname(n):
    if n == "_":
        return "_"
    if n in LEAN_KEYWORDS or n in CLASS_NAMES:
        return n + "_"
    return n


CLASS_NAMES = set()      # names of the plain classes of the parsed modules (enum holders)


# ------------------------------------------------------------------ kinds
def opt(k, why):
    return ("opt", k, why)


def is_opt(k):
    return isinstance(k, tuple) and k[0] == "opt"


def is_tuple(k):
    return isinstance(k, tuple) and k[0] == "tuple"


def is_list(k):
    return isinstance(k, tuple) and k[0] == "list"


def kstr(k):
    """kind as written in the doc comment of a generated definition"""
    if isinstance(k, str):
        return k
    if k[0] == "mlist":
        return "L!(%s)" % kstr(k[1])
    if k[0] == "list":
        return "L(%s)" % ("?" if k[1] is None else kstr(k[1]))
    if k[0] == "tuple":
        return "(" + ",".join(kstr(c) for c in k[1]) + ")"
    return repr(k)


def lty(k):
    base = {"S": "K", "B": "Bool", "E": "Nat", "P": "Pt K", "V": "List K", "VB": "List Bool",
            "M22": "List (List K)", "M2N": "List (List K)", "MN": "List (List K)",
            "I": "Int", "N": "Nat", "X": "Rt.Ext K", "SUB": "Model.SubCurve K", "C": "List K", "S1": "K",
            "EV": "Model.NewtonEval K"}
    base["VW"] = "List K"              # phase 4 (pyalgebraic)
    base["VC"] = "List (K × K)"        # phase 4 (pyalgebraic): 1-D complex array, entries (re, im)
    base["unit"] = "Unit"              # phase 4 (pyalgebraic): a function every `return` of which delivers None
    if isinstance(k, str) and k in base:
        return base[k]
    if isinstance(k, tuple) and k[0] == "mlist":
        return lty(("list", k[1]))
    if is_list(k):
        if k[1] is None:
            raise Problem("a list whose element kind is never determined")
        return "List %s" % atom(lty(k[1]))
    if is_opt(k):
        return "Option %s" % atom(lty(k[1]))
    if is_tuple(k):
        return " × ".join(("(%s)" % lty(c)) if is_tuple(c) else lty(c) for c in k[1])
    raise Problem("result position is always None / nan: no Lean type (%r)" % (k,))


def unify(a, b):
    if a == b:
        return a
    if {a, b} == {"S", "X"}:
        return "X"
    if {a, b} == {"N", "I"}:
        return "I"
    if {a, b} == {"P", "V"}:           # phase 4 (pyalgebraic): a 2-entry array literal next to longer ones
        return "V"
    if {a, b} == {"V", "VC"}:          # phase 4 (pyalgebraic): a real array where the other arm has a complex one
        return "VC"
    if is_list(a) and is_list(b):
        if a[1] is None or b[1] is None:
            return a if b[1] is None else b
        return ("list", unify(a[1], b[1]))
    if a in ("none", "nan"):
        a, b = b, a
    if b == "none":
        if a == "nan":
            return opt("S", "nan")
        if is_opt(a):
            return a
        return opt(a, "none")
    if b == "nan":
        if a == "S":
            return opt("S", "nan")
        if is_opt(a) and a[1] == "S":
            return opt("S", "nan")
        raise Problem("np.nan and %r in the same result position" % (a,))
    if is_opt(a) and not is_opt(b):
        return opt(unify(a[1], b), a[2])
    if is_opt(b) and not is_opt(a):
        return opt(unify(a, b[1]), b[2])
    if is_opt(a) and is_opt(b):
        return opt(unify(a[1], b[1]), "nan" if "nan" in (a[2], b[2]) else "none")
    if is_tuple(a) and is_tuple(b) and len(a[1]) == len(b[1]):
        return ("tuple", tuple(unify(x, y) for x, y in zip(a[1], b[1])))
    raise Problem("results of different kinds: %r and %r" % (a, b))


def atom(code):
    """parenthesise unless obviously atomic"""
    c = code.strip()
    if c and (c.replace("_", "a").replace(".", "a").replace("'", "a").isalnum()) and not c[0].isdigit():
        return c
    if c.startswith("(") and c.endswith(")"):
        depth = 0
        for i, ch in enumerate(c):
            depth += ch == "("
            depth -= ch == ")"
            if depth == 0 and i < len(c) - 1:
                break
        else:
            return c
    if c.startswith("[") and c.endswith("]") and c.count("[") == 1:
        return c
    return "(" + c + ")"


class Val:
    def __init__(self, kind, code, comps=None, prop=None, cells=None, rows=None, intval=None, inplace=False):
        self.intval = intval      # S: the value of an integer-typed constant expression (Python int)
        self.unit = False         # S: a NumPy array with a single entry (all of its dimensions are 1)
        self.owned = False        # a fresh array (np.zeros): the variable it is bound to may be updated with `op=`
        self.wide = False         # MN: a 3-D array d x 1 x k (one parameter value), indexed with three subscripts
        self.inplace = inplace    # an array that the function overwrites in place (must not be aliased)
        self.kind = kind
        self.code = code          # Lean term of type lty(kind)
        self.comps = comps        # tuple: [Val]; P: [code, code]
        self.prop = prop          # B: the same condition as a Prop (comparisons and their connectives)
        self.cells = cells        # M22: [[code, code], [code, code]]
        self.rows = rows          # M2N: [code, code]


def lit(x):
    x = Fr(x)
    if x < 0:
        return "(-%s : K)" % lit(-x)
    if x.denominator == 1:
        n = x.numerator
        if n in (0, 1):
            return "(%d : K)" % n
        return "((%d : Nat) : K)" % n
    return "(Model.q %d %d : K)" % (x.numerator, x.denominator)


# ------------------------------------------------------------------ IR of a function body
class Leaf:                       # `return val`
    def __init__(self, val):
        self.val = val


class Yield:                      # value of an `if` arm (phi) / of a short-circuit operand
    def __init__(self, code):
        self.code = code


class Let:
    def __init__(self, pat, code, body):
        self.pat, self.code, self.body = pat, code, body


class Bind:                       # match code with | .error e => .error e | .ok pat => body
    def __init__(self, pat, code, body):
        self.pat, self.code, self.body = pat, code, body


class MIf:                        # scrutinee of a Bind: `if cond then A else B` of type Except Err _
    def __init__(self, cond, then, els, ty):
        self.cond, self.then, self.els, self.ty = cond, then, els, ty


class Shape:                      # match code with | pat => body | _ => .error .badInput
    def __init__(self, code, pat, body):
        self.code, self.pat, self.body = code, pat, body


class Ite:
    def __init__(self, cond, then, els):
        self.cond, self.then, self.els = cond, then, els


class Phi:                        # (pat) := if cond then A else B ; body      (A, B end in Yield)
    def __init__(self, pat, cond, then, els, body, ty):
        self.pat, self.cond, self.then, self.els, self.body, self.ty = pat, cond, then, els, body, ty


class Fail:
    def __init__(self, err):
        self.err = err


class Next:                       # end of the body of a loop with early exit: continue with this state
    def __init__(self, code):
        self.code = code


class Brk(Next):                  # phase 4 (pyalgebraic): `break`: leave the enclosing loop with this state
    pass


class WhileIR:                    # phase 4 (pyalgebraic): while test(x): x = step(x) ; rest   (x a 1-D array, fuel len(x) + 1)
    def __init__(self, var, init, test, step, rest):
        self.var, self.init, self.test, self.step, self.rest = var, init, test, step, rest


class MatchOpt:                   # phase 4 (pyalgebraic): match code with | none => then | some pat => els
    def __init__(self, code, then, pat, els):
        self.code, self.then, self.pat, self.els = code, then, pat, els


class Loop:
    """for target in iter: body ; rest.   state = the variables carried from one iteration to the next"""
    def __init__(self, it, target, spat, init, sty, body, rest, has_exit, r, res):
        self.it, self.target, self.spat, self.init, self.sty = it, target, spat, init, sty
        self.body, self.rest, self.has_exit, self.r, self.res = body, rest, has_exit, r, res


def impure(ir):
    if isinstance(ir, WhileIR):           # phase 4 (pyalgebraic)
        return True
    if isinstance(ir, MatchOpt):          # phase 4 (pyalgebraic)
        return impure(ir.then) or impure(ir.els)
    if isinstance(ir, (Bind, Shape, Fail)):
        return True
    if isinstance(ir, (Leaf, Yield, Next)):
        return False
    if isinstance(ir, Loop):
        return impure(ir.body) or impure(ir.rest)
    if isinstance(ir, Let):
        return impure(ir.body)
    if isinstance(ir, Ite):
        return impure(ir.then) or impure(ir.els)
    if isinstance(ir, Phi):
        return impure(ir.then) or impure(ir.els) or impure(ir.body)
    raise AssertionError(ir)


def wrap(binds, ir):
    for kind, pat, code in reversed(binds):
        ir = Bind(pat, code, ir) if kind == "bind" else Let(pat, code, ir)
    return ir


# ------------------------------------------------------------------ module level
class Module:
    def __init__(self, name):
        self.name = name
        path = os.path.join(REPO, "src/python/bezier/hazmat", name + ".py")
        with open(path) as fh:
            self.tree = ast.parse(fh.read())
        self.funcs = {}
        self.aliases = {}      # local name -> module name (source file) or "numpy"
        self.consts = {}       # NAME -> ast expression (module level)
        self.classes = {}      # Class -> {ATTR: int}
        self.methods = {}      # (Class, method) -> FunctionDef
        for node in self.tree.body:
            if isinstance(node, ast.FunctionDef):
                self.funcs[node.name] = node
            elif isinstance(node, ast.Import):
                for a in node.names:
                    if a.name in ("numpy", "bisect"):
                        self.aliases[a.asname or a.name] = a.name
            elif isinstance(node, ast.ImportFrom) and node.level == 0:
                for a in node.names:
                    full = "%s.%s" % (node.module, a.name)
                    if full in MODULES:
                        self.aliases[a.asname or a.name] = MODULES[full]
            elif isinstance(node, ast.Assign) and len(node.targets) == 1 and isinstance(node.targets[0], ast.Name):
                self.consts[node.targets[0].id] = node.value
            elif isinstance(node, ast.ClassDef):
                attrs = {}
                for st in node.body:
                    if isinstance(st, ast.Assign) and len(st.targets) == 1 and isinstance(st.targets[0], ast.Name) \
                            and isinstance(st.value, ast.Constant) and isinstance(st.value.value, int) \
                            and not isinstance(st.value.value, bool):
                        attrs[st.targets[0].id] = st.value.value
                self.classes[node.name] = attrs
                CLASS_NAMES.add(node.name)
                for st in node.body:
                    if isinstance(st, ast.FunctionDef):
                        self.methods[(node.name, st.name)] = st


class Translated:
    def __init__(self, name, params, kinds, ret, monadic, uses_sqrt, text, defaults=(), mut=(), ret_none=False):
        self.name, self.params, self.kinds, self.ret = name, params, kinds, ret
        self.monadic, self.uses_sqrt, self.text = monadic, uses_sqrt, text   # uses_sqrt: the abstract parameters, in order
        self.defaults = dict(defaults)     # parameter -> exact default value
        self.mut = list(mut)               # positions of the list parameters the function updates in place
        self.ret_none = ret_none           # every `return` delivers None


class Translator:
    def __init__(self):
        self.modules = {}
        self.done = {}           # (mod, fn) -> Translated | None
        self.order = []
        self.problems = []
        self.enums = {}          # "Class.ATTR" -> int
        self.sigs = {(m, f): k for m, f, k in SIGS}
        self.stack = []

    def module(self, name):
        if name not in self.modules:
            self.modules[name] = Module(name)
        return self.modules[name]

    # -------------------------------------------------------------- functions
    def function(self, mod, fn):
        key = (mod, fn)
        if key in self.done:
            return self.done[key]
        if key in self.stack:
            raise Problem("recursive call of %s" % fn)
        self.stack.append(key)
        try:
            tr = FunctionTranslator(self, mod, fn).run()
            self.done[key] = tr
            self.order.append(key)
        except Problem as exc:
            self.done[key] = None
            self.order.append(key)
            self.problems.append("%s: %s" % (fn, exc))
        except (OSError, SyntaxError) as exc:
            self.done[key] = None
            self.order.append(key)
            self.problems.append("%s: cannot read / parse %s.py: %r" % (fn, mod, exc))
        except Exception as exc:  # noqa  (a construct that trips the translator is a problem, not a crash)
            self.done[key] = None
            self.order.append(key)
            self.problems.append("%s: translator internal error %r" % (fn, exc))
        finally:
            self.stack.pop()
        return self.done[key]


def contains_exit(stmts):
    for st in stmts:
        for node in ast.walk(st):
            if isinstance(node, (ast.Return, ast.Raise)):
                return True
    return False


def contains_break(stmts):        # phase 4 (pyalgebraic)
    return any(isinstance(node, ast.Break) for st in stmts for node in ast.walk(st))


def assigned_names(stmts, env):
    """names (re-)bound somewhere in the block, in order of first occurrence"""
    out = []

    def targets(t):
        if isinstance(t, ast.Name):
            if t.id != "_" and t.id not in out:
                out.append(t.id)
        elif isinstance(t, (ast.Tuple, ast.List)):
            for e in t.elts:
                targets(e)
        elif isinstance(t, ast.Subscript) and isinstance(t.value, ast.Name):
            targets(t.value)                       # x[...] = e  re-binds x
        else:
            raise Problem("assignment target %s" % ast.dump(t)[:60])

    def walk(block):
        for st in block:
            if isinstance(st, ast.Assign):
                for t in st.targets:
                    targets(t)
            elif isinstance(st, ast.AugAssign):
                targets(st.target)
            elif isinstance(st, ast.If):
                walk(st.body)
                walk(st.orelse)
            elif isinstance(st, ast.For):
                targets(st.target)
                walk(st.body)
                walk(st.orelse)
            elif isinstance(st, ast.Expr) and isinstance(st.value, ast.Call):
                # x.append(e) and f(.., x, ..) re-bind a list variable x
                c = st.value
                if isinstance(c.func, ast.Attribute) and isinstance(c.func.value, ast.Name) and c.func.attr == "append":
                    targets(c.func.value)
                for a in c.args:
                    if isinstance(a, ast.Name) and a.id in env and is_list(env[a.id].kind) and a.id not in out:
                        out.append(a.id)
            elif isinstance(st, (ast.AnnAssign, ast.While, ast.With, ast.Try)):
                raise Problem("statement %s (line %d)" % (type(st).__name__, st.lineno))
    walk(stmts)
    return out


def definitely_assigned(stmts):
    out = set()
    for st in stmts:
        if isinstance(st, ast.Assign):
            for t in st.targets:
                for n in ast.walk(t):
                    if isinstance(n, ast.Name):
                        out.add(n.id)
        elif isinstance(st, ast.AugAssign):
            for n in ast.walk(st.target):
                if isinstance(n, ast.Name):
                    out.add(n.id)
        elif isinstance(st, ast.If):
            out |= definitely_assigned(st.body) & definitely_assigned(st.orelse)
    return out


class FunctionTranslator:
    def __init__(self, tr, mod, fn):
        self.tr, self.modname, self.fn = tr, mod, fn
        self.mod = tr.module(mod)
        self.extra = []          # abstract parameters of the generated definition: "sqrt", untranslated callees
        self.ntmp = 0
        self.names = set()
        self.struct_used = set()
        self.locals_ = set()
        self.prealloc = {}       # name -> kind of an array created by np.empty (no value until overwritten)
        self.mut_params = []     # list parameters that are updated in place (their final value is returned)
        self.ro_lists = set()    # list parameters that are NOT declared mutable
        self.plain_rets = []
        self.guarded = set()     # shape entries already checked to be non-negative

    def tmp(self):
        while True:
            self.ntmp += 1
            n = "t%d" % self.ntmp
            if n not in self.names:
                return n

    def run(self):
        self.fields = None
        if "." in self.fn:
            # a method `Class.method(self, ...)`: the generated definition takes the fields of the object (the
            # parameters of `__init__`, which must store each of them as `self.<name> = <name>` and do nothing else)
            # followed by the parameters of the method; `self.<name>` reads the field
            cls, meth = self.fn.split(".", 1)
            node = self.mod.methods.get((cls, meth))
            init = self.mod.methods.get((cls, "__init__"))
            if node is None or init is None:
                raise Problem("method not found in %s.py" % self.modname)
            ia = init.args
            fields = [x.arg for x in ia.args][1:]
            body = [st for st in init.body if not (isinstance(st, ast.Expr) and isinstance(st.value, ast.Constant))]
            ok = len(body) == len(fields) and not (ia.vararg or ia.kwarg or ia.kwonlyargs or ia.defaults)
            for st, f in zip(body, fields):
                ok = ok and isinstance(st, ast.Assign) and len(st.targets) == 1 and \
                    ast.unparse(st.targets[0]) == "self.%s" % f and ast.unparse(st.value) == f
            if not ok or not node.args.args or node.args.args[0].arg != "self":
                raise Problem("__init__ does more than storing its parameters")
            self.fields = fields
        else:
            node = self.mod.funcs.get(self.fn)
        if node is None:
            raise Problem("function not found in %s.py" % self.modname)
        kinds = self.tr.sigs[(self.modname, self.fn)]
        a = node.args
        if a.vararg or a.kwarg or a.kwonlyargs or a.posonlyargs:
            raise Problem("unsupported parameter list")
        params = [x.arg for x in a.args]
        if self.fields is not None:
            if set(self.fields) & set(params[1:]):
                raise Problem("a field and a parameter of the method have the same name")
            params = self.fields + params[1:]
        if len(params) != len(kinds):
            raise Problem("has %d parameters, signature table says %d" % (len(params), len(kinds)))
        if node.decorator_list:
            raise Problem("decorated function")
        defaults = []
        for p, d in zip(params[len(params) - len(a.defaults):], a.defaults):
            v = self.const_eval(d)
            if v is None:
                raise Problem("default value of parameter %s is not a numeric constant" % p)
            defaults.append((p, v))
        self.locals_ = set()
        for n in ast.walk(node):
            if isinstance(n, ast.Name):
                self.names.add(n.id)
                if not isinstance(n.ctx, ast.Load):
                    self.locals_.add(n.id)
            elif isinstance(n, ast.arg):
                self.names.add(n.arg)
                self.locals_.add(n.arg)
        for n in list(self.names):
            if lname(n) != n and lname(n) in self.names:
                raise Problem("names %s and %s would collide after renaming" % (n, lname(n)))
        env = {}
        shapes = []
        self.param_names = {lname(p) for p in params}
        for p, k in zip(params, kinds):
            lp = lname(p)
            if k == "M22":
                cells = [["%s_%d%d" % (lp, i, j) for j in range(2)] for i in range(2)]
                if set(cells[0] + cells[1]) & self.names:
                    raise Problem("a local name collides with the generated names %s_ij" % lp)
                env[p] = Val(k, lp, cells=cells)
                shapes.append((lp, "[[%s, %s], [%s, %s]]" % (cells[0][0], cells[0][1], cells[1][0], cells[1][1]),
                               cells[0] + cells[1]))
            elif k == "M2N":
                rows = ["%s_r0" % lp, "%s_r1" % lp]
                if set(rows) & self.names:
                    raise Problem("a local name collides with the generated names %s_r0/_r1" % lp)
                env[p] = Val(k, lp, rows=rows)
                shapes.append((lp, "[%s, %s]" % (rows[0], rows[1]), rows))
            elif isinstance(k, tuple) and k[0] == "mlist":
                env[p] = Val(("list", k[1]), lp)
                self.mut_params.append(p)
            elif k == "S1":
                env[p] = Val("S", lp)
                env[p].unit = True
            elif k == "VW":                   # phase 4 (pyalgebraic)
                env[p] = Val("V", lp)
                env[p].writable = True
            else:
                env[p] = Val(k, lp)
                if is_list(k):
                    self.ro_lists.add(p)
        body = list(node.body)
        self.ret_kinds = []
        ir = self.block(body, env, lambda e: self.leaf(Val("none", "none"), e, "end of the function"))
        for lp, pat, names in reversed(shapes):
            if self.struct_used & set(names):      # only parameters that are indexed here (callees check theirs)
                ir = Shape(lp, pat, ir)
        self.harmonize_int_returns(ir)           # phase 4 (pyalgebraic)
        ret = None
        for k in self.ret_kinds:
            ret = k if ret is None else unify(ret, k)
        if ret is None:
            raise Problem("no result")
        if ret == "none" and not self.mut_params:        # phase 4 (pyalgebraic): called for its exceptions only
            ret = "unit"
        self.ret = ret
        rty = lty(ret)
        monadic = impure(ir)
        text = self.render(ir, monadic, 1)
        binders = []
        for x in self.extra:
            if x == "sqrt":
                binders.append("(sqrt : K → K)")
            else:
                ak, ar, can_raise = ABSTRACT[x]
                binders.append("(%s : %s → %s)" % (x[1], " → ".join(atom(lty(k)) for k in ak),
                                                  ("Except Err %s" % atom(lty(ar))) if can_raise else lty(ar)))
        i = 0
        while i < len(params):            # group consecutive parameters of the same kind
            j = i
            while j + 1 < len(params) and kinds[j + 1] == kinds[i]:
                j += 1
            binders.append("(%s : %s)" % (" ".join(lname(p) for p in params[i:j + 1]), lty(kinds[i])))
            i = j + 1
        head = "/-- `%s.%s(%s)` (hazmat/%s.py), parameter kinds %s -/\ndef %s %s : %s :=\n" % (
            self.modname, self.fn, ", ".join(params), self.modname, " ".join(kstr(k) for k in kinds), lean_fn_name(self.modname, self.fn), " ".join(binders),
            ("Except Err %s" % atom(rty)) if monadic else rty)
        dtext = "".join("/-- default value of parameter `%s` of `%s` -/\ndef %s_default_%s : Rat := %s\n\n"
                        % (p, self.fn, self.fn, p, "(%d : Rat) / %d" % (v.numerator, v.denominator))
                        for p, v in defaults)
        return Translated(self.fn, params, kinds, ret, monadic, list(self.extra), dtext + head + text, defaults=defaults,
                          mut=[i for i, p in enumerate(params) if p in self.mut_params],
                          ret_none=all(kd == "none" for kd in self.plain_rets))

    def leaf(self, val, env, where):
        """`return val`: with mutable list parameters the function delivers their final contents as well"""
        if is_list(val.kind) and val.kind[1] is None:
            raise Problem("return of an untyped empty list (%s)" % where)
        self.plain_rets.append(val.kind)
        if self.mut_params:
            comps = ([] if val.kind == "none" else [val]) + [env[p] for p in self.mut_params]
            val = comps[0] if len(comps) == 1 else Val(("tuple", tuple(c.kind for c in comps)),
                                                       "(" + ", ".join(c.code for c in comps) + ")", comps=comps)
        self.ret_kinds.append(val.kind)
        return Leaf(val)

    # -------------------------------------------------------------- rendering
    def coerce(self, val, target):
        k = val.kind
        if k == target:
            return val.code
        if k == "S" and target == "X":
            return "Rt.Ext.fin %s" % atom(val.code)
        if k == "N" and target == "I":
            return "(%s : Int)" % val.code
        if k == "none" and target == "unit":     # phase 4 (pyalgebraic)
            return "()"
        if k == "V" and target == "VC":      # phase 4 (pyalgebraic): real numbers as complex numbers
            return "List.map (fun x => (x, (0 : K))) %s" % atom(val.code)
        if k == "P" and target == "V":       # phase 4 (pyalgebraic)
            if val.comps is not None:
                return "[%s, %s]" % (val.comps[0], val.comps[1])
            return "[%s.1, %s.2]" % (atom(val.code), atom(val.code))
        if is_list(k) and is_list(target) and (k[1] is None or k[1] == target[1]):
            return val.code
        if is_opt(target):
            if k in ("none", "nan"):
                return "none"
            if is_opt(k):
                if k[1] == target[1]:
                    return val.code
                raise Problem("cannot convert %r to %r" % (k, target))
            return "some %s" % atom(self.coerce(val, target[1]))
        if is_tuple(target) and is_tuple(k) and val.comps is not None and len(val.comps) == len(target[1]):
            return "(" + ", ".join(self.coerce(c, t) for c, t in zip(val.comps, target[1])) + ")"
        raise Problem("cannot convert result of kind %r to %r" % (k, target))

    def render(self, ir, monadic, ind, ctx="fn"):
        """ctx = "fn": a `return` ends the function;  "loop": it ends the enclosing loop with `Sum.inl value`"""
        pad = "  " * ind

        def ok(code):
            return (".ok %s" % atom(code)) if monadic else code

        if isinstance(ir, WhileIR):             # phase 4 (pyalgebraic)
            assert monadic
            return (pad + "Rt.bind (Rt.whileM (List.length %s + 1) %s (fun %s =>\n" % (atom(ir.init), atom(ir.init), ir.var)
                    + self.render(ir.test, True, ind + 2, ctx).rstrip("\n") + ") (fun %s =>\n" % ir.var
                    + self.render(ir.step, True, ind + 2, ctx).rstrip("\n") + ")) fun %s =>\n" % ir.var
                    + self.render(ir.rest, monadic, ind, ctx))
        if isinstance(ir, Brk):                 # phase 4 (pyalgebraic)
            return pad + ok("Sum.inl %s" % atom(ir.code)) + "\n"
        if isinstance(ir, MatchOpt):            # phase 4 (pyalgebraic)
            return (pad + "(match %s with\n" % ir.code + pad + "| none =>\n" + self.render(ir.then, monadic, ind + 1, ctx)
                    + pad + "| some %s =>\n" % ir.pat + self.render(ir.els, monadic, ind + 1, ctx).rstrip("\n") + ")\n")
        if isinstance(ir, Loop) and getattr(ir, "has_break", False):          # phase 4 (pyalgebraic)
            bm = impure(ir.body)
            init = "(%s : %s)" % (ir.init, ir.sty)
            body = self.render(ir.body, bm, ind + 2, ctx).rstrip("\n")
            if not bm:
                return (pad + "let %s :=\n" % ir.spat + pad + "  Rt.forB %s %s (fun %s %s =>\n" % (atom(ir.it), init, ir.spat, ir.target)
                        + body + ")\n" + self.render(ir.rest, monadic, ind, ctx))
            assert monadic
            return (pad + "Rt.bind (Rt.forBM %s %s fun %s %s =>\n" % (atom(ir.it), init, ir.spat, ir.target)
                    + body + ") fun %s =>\n" % ir.spat + self.render(ir.rest, monadic, ind, ctx))
        if isinstance(ir, Leaf):
            c = self.coerce(ir.val, self.ret)
            return pad + ok(c if ctx == "fn" else "Sum.inl %s" % atom(c)) + "\n"
        if isinstance(ir, Yield):
            return pad + ok(ir.code) + "\n"
        if isinstance(ir, Next):
            return pad + ok("Sum.inr %s" % atom(ir.code)) + "\n"
        if isinstance(ir, Fail):
            return pad + ".error .%s\n" % ir.err
        if isinstance(ir, Let):
            return pad + "let %s := %s\n" % (ir.pat, ir.code) + self.render(ir.body, monadic, ind, ctx)
        if isinstance(ir, Bind):
            assert monadic
            if isinstance(ir.code, MIf):
                scrut = (pad + "  (if %s then\n" % ir.code.cond + self.render(ir.code.then, True, ind + 2, ctx)
                         + pad + "  else\n" + self.render(ir.code.els, True, ind + 2, ctx).rstrip("\n")
                         + " : Except Err %s)" % atom(ir.code.ty))
            else:
                scrut = ir.code
            # `m >>= pure` is `m`
            b = ir.body
            if (isinstance(b, Yield) and b.code == ir.pat) or \
                    (isinstance(b, Leaf) and ctx == "fn" and b.val.code == ir.pat and b.val.kind == self.ret):
                return pad + scrut.lstrip() + "\n"
            if isinstance(ir.code, MIf):
                return (pad + "Rt.bind\n" + scrut + " fun %s =>\n" % ir.pat + self.render(ir.body, monadic, ind, ctx))
            return pad + "Rt.bind (%s) fun %s =>\n" % (scrut, ir.pat) + self.render(ir.body, monadic, ind, ctx)
        if isinstance(ir, Shape):
            assert monadic
            return (pad + "(match %s with\n" % ir.code + pad + "| %s =>\n" % ir.pat
                    + self.render(ir.body, monadic, ind + 1, ctx) + pad + "| _ => .error .badInput)\n")
        if isinstance(ir, Ite):
            return (pad + "if %s then\n" % ir.cond + self.render(ir.then, monadic, ind + 1, ctx) + pad + "else\n"
                    + self.render(ir.els, monadic, ind + 1, ctx))
        if isinstance(ir, Phi):
            arms_m = impure(ir.then) or impure(ir.els)
            if arms_m:
                assert monadic
                return self.render(Bind(ir.pat, MIf(ir.cond, ir.then, ir.els, ir.ty), ir.body), monadic, ind, ctx)
            cond = (pad + "  (if %s then\n" % ir.cond + self.render(ir.then, arms_m, ind + 2, ctx) + pad + "  else\n"
                    + self.render(ir.els, arms_m, ind + 2, ctx).rstrip("\n") + ")\n")
            return pad + "let %s :=\n" % ir.pat + cond + self.render(ir.body, monadic, ind, ctx)
        if isinstance(ir, Loop):
            bm = impure(ir.body)
            init = "(%s : %s)" % (ir.init, ir.sty)
            if not ir.has_exit:
                body = self.render(ir.body, bm, ind + 2, ctx).rstrip("\n")
                if not bm:
                    return (pad + "let %s :=\n" % ir.spat + pad + "  List.foldl (fun %s %s =>\n" % (ir.spat, ir.target)
                            + body + ") %s %s\n" % (init, atom(ir.it)) + self.render(ir.rest, monadic, ind, ctx))
                assert monadic
                return (pad + "Rt.bind (Rt.foldM %s %s fun %s %s =>\n" % (atom(ir.it), init, ir.spat, ir.target)
                        + body + ") fun %s =>\n" % ir.spat + self.render(ir.rest, monadic, ind, ctx))
            rho = atom(lty(self.ret))
            body = self.render(ir.body, bm, ind + 2, "loop").rstrip("\n")
            leave = ok(ir.r if ctx == "fn" else "Sum.inl %s" % ir.r)
            if not bm:
                return (pad + "(match Rt.forE (ρ := %s) %s %s (fun %s %s =>\n" % (rho, atom(ir.it), init, ir.spat, ir.target)
                        + body + ") with\n" + pad + "| .inl %s => %s\n" % (ir.r, leave)
                        + pad + "| .inr %s =>\n" % ir.spat + self.render(ir.rest, monadic, ind + 1, ctx).rstrip("\n") + ")\n")
            assert monadic
            return (pad + "Rt.bind (Rt.forM (ρ := %s) %s %s fun %s %s =>\n" % (rho, atom(ir.it), init, ir.spat, ir.target)
                    + body + ") fun %s =>\n" % ir.res
                    + pad + "(match %s with\n" % ir.res + pad + "| .inl %s => %s\n" % (ir.r, leave)
                    + pad + "| .inr %s =>\n" % ir.spat + self.render(ir.rest, monadic, ind + 1, ctx).rstrip("\n") + ")\n")
        raise AssertionError(ir)

    # -------------------------------------------------------------- statements
    def block(self, stmts, env, k):
        if not stmts:
            return k(env)
        st, rest = stmts[0], stmts[1:]
        where = "line %d" % st.lineno
        if isinstance(st, ast.Pass):
            return self.block(rest, env, k)
        if isinstance(st, ast.Expr) and isinstance(st.value, ast.Constant) and isinstance(st.value.value, str):
            return self.block(rest, env, k)            # docstring / bare string
        if isinstance(st, ast.Import) and all(a.name in EXTERNAL_IMPORTS and a.asname is None for a in st.names):
            return self.block(rest, env, k)        # phase 4 (pyalgebraic): `import scipy.linalg.lapack` in a function body
        if isinstance(st, ast.Assign) and len(st.targets) == 1 and isinstance(st.targets[0], ast.Name) \
                and isinstance(st.value, ast.Attribute) and ast.unparse(st.value).rsplit(".", 1)[0] in EXTERNAL_IMPORTS \
                and (ast.unparse(st.value).rsplit(".", 1)[0], st.value.attr) in ABSTRACT \
                and ast.unparse(st.value).split(".")[0] not in env and st.targets[0].id not in env:
            # phase 4 (pyalgebraic): `_dgecon = scipy.linalg.lapack.dgecon`: a local name for an external function; it must
            # be bound exactly once in the function
            name = st.targets[0].id
            nstores = sum(1 for n in ast.walk(self.mod.funcs.get(self.fn, st)) if isinstance(n, ast.Name) and n.id == name
                          and not isinstance(n.ctx, ast.Load))
            if nstores != 1 or "." in self.fn:
                raise Problem("the local name %s of an external function is bound more than once (%s)" % (name, where))
            self.__dict__.setdefault("fn_alias", {})[name] = (ast.unparse(st.value).rsplit(".", 1)[0], st.value.attr)
            return self.block(rest, env, k)
        if isinstance(st, ast.Break):              # phase 4 (pyalgebraic)
            if rest:
                raise Problem("unreachable statements after break (%s)" % where)
            if not getattr(self, "break_stack", None):
                raise Problem("break outside of a translated loop (%s)" % where)
            return self.break_stack[-1](env)
        if isinstance(st, ast.Return):
            if rest:
                raise Problem("unreachable statements after return (%s)" % where)
            if st.value is None:
                return self.leaf(Val("none", "none"), env, where)
            if isinstance(st.value, ast.Tuple):    # phase 4 (pyalgebraic): nothing is updated in place after the return
                env = self.release_inplace(env)
            binds, v = self.tx(st.value, env)
            return wrap(binds, self.leaf(v, env, where))
        if isinstance(st, ast.Raise):
            if rest:
                raise Problem("unreachable statements after raise (%s)" % where)
            exc = st.exc
            if isinstance(exc, ast.Call):
                exc = exc.func
            if isinstance(exc, ast.Attribute) and isinstance(exc.value, ast.Name) and exc.value.id not in env \
                    and self.mod.aliases.get(exc.value.id) not in (None, "numpy", "bisect"):
                exc = ast.Name(id=exc.attr, ctx=ast.Load())      # phase 4 (pyalgebraic): `_py_helpers.UnsupportedDegree`
            if st.cause is not None or not isinstance(exc, ast.Name) or exc.id not in EXC:
                raise Problem("raise of an unlisted exception (%s)" % where)
            return Fail(EXC[exc.id])
        if isinstance(st, ast.Assign):
            if len(st.targets) != 1:
                raise Problem("chained assignment (%s)" % where)
            return self.assign(st.targets[0], st.value, rest, env, k, where)
        if isinstance(st, ast.AugAssign):
            if isinstance(st.target, ast.Subscript):          # phase 4 (pyalgebraic)
                return self.aug_subscript(st, rest, env, k, where)
            if isinstance(st.target, ast.Name) and st.target.id in env and env[st.target.id].kind == "V" \
                    and getattr(env[st.target.id], "writable", False):
                new = ast.Assign(targets=[ast.Name(id=st.target.id, ctx=ast.Store())],
                                 value=ast.BinOp(left=ast.Name(id=st.target.id, ctx=ast.Load()), op=st.op, right=st.value))
                ast.copy_location(new, st)
                ast.fix_missing_locations(new)
                return self.block([new] + rest, env, k)
            ok_aug = isinstance(st.target, ast.Name) and st.target.id in env and (
                env[st.target.id].kind in ("S", "I", "N") or (env[st.target.id].kind == "C" and env[st.target.id].inplace))
            if not ok_aug:
                raise Problem("augmented assignment to something else than a number variable or an array created in "
                              "this function (%s)" % where)
            self.aug_owner = st.target.id if env[st.target.id].kind == "C" else None
            new = ast.Assign(targets=[ast.Name(id=st.target.id, ctx=ast.Store())],
                             value=ast.BinOp(left=ast.Name(id=st.target.id, ctx=ast.Load()), op=st.op, right=st.value))
            ast.copy_location(new, st)
            ast.fix_missing_locations(new)
            return self.block([new] + rest, env, k)
        if isinstance(st, ast.Expr) and isinstance(st.value, ast.Call):
            return self.call_stmt(st.value, rest, env, k, where)
        if isinstance(st, ast.For):
            return self.for_loop(st, rest, env, k, where)
        if isinstance(st, ast.If) and self.none_test(st.test, env) is not None:      # phase 4 (pyalgebraic)
            # `if x is None:` / `if x is not None:` for a maybe-None variable: inside the other arm x is a plain value
            name, positive = self.none_test(st.test, env)
            e_none, e_some = dict(env), dict(env)
            e_none[name] = Val("none", "none")
            e_some[name] = Val(env[name].kind[1], lname(name))

            def kk(e):
                return self.block(rest, e, k)
            a_none, a_some = (st.body, st.orelse) if positive else (st.orelse, st.body)
            return MatchOpt(env[name].code, self.block(a_none, e_none, kk), lname(name), self.block(a_some, e_some, kk))
        if isinstance(st, ast.If):
            binds, c = self.tx(st.test, env)
            c = self.truth(c)
            if c.kind != "B":
                raise Problem("condition of kind %r (%s)" % (c.kind, where))
            cond = c.prop if c.prop is not None else c.code
            if contains_exit(st.body) or contains_exit(st.orelse) or contains_break(st.body + st.orelse):
                def kk(e):
                    return self.block(rest, e, k)
                return wrap(binds, Ite(cond, self.block(st.body, dict(env), kk), self.block(st.orelse, dict(env), kk)))
            names = assigned_names(st.body + st.orelse, env)
            both = definitely_assigned(st.body) & definitely_assigned(st.orelse)
            phi = [n for n in names if n in env or n in both]
            lost = [n for n in names if n not in phi]

            def arm(stmts_, kinds):
                got = {}

                def yk(e):
                    got["env"] = e
                    if not phi:
                        return Yield("()")
                    if kinds is None:
                        return Yield("?")
                    cs = [self.coerce(e[n], kinds[n]) for n in phi]
                    return Yield(cs[0] if len(phi) == 1 else "(" + ", ".join(cs) + ")")
                ir_ = self.block(stmts_, dict(env), yk)
                return ir_, got["env"]
            # first pass: the kinds of the variables at the end of each arm; second pass: code
            keep = (self.ntmp, len(self.ret_kinds))
            _, env_a = arm(st.body, None)
            _, env_b = arm(st.orelse, None)
            self.ntmp = keep[0]
            del self.ret_kinds[keep[1]:]
            env2 = dict(env)
            for n in lost:
                env2.pop(n, None)
            retry = [n for n in phi if {env_a[n].kind, env_b[n].kind} in ({"S", "N"}, {"S", "I"})
                     and n not in getattr(self, "int_vars", set())]
            if retry:
                # phase 4 (pyalgebraic): `rank = 1` / `rank = 0` in one arm, a Python int in the other: the constants are ints
                self.__dict__.setdefault("int_vars", set()).update(retry)
                return self.block(stmts, env, k)
            kinds = {}
            for n in phi:
                kd = unify(env_a[n].kind, env_b[n].kind)
                if is_tuple(kd) or kd in ("none", "nan", "VB"):
                    raise Problem("variable %s has kind %r after the if (%s)" % (n, kd, where))
                kinds[n] = kd
                env2[n] = Val(kd, lname(n))
            ir_a, _ = arm(st.body, kinds)
            ir_b, _ = arm(st.orelse, kinds)
            if not phi:
                raise Problem("`if` that neither returns nor assigns a (definitely defined) variable (%s)" % where)
            pat = lname(phi[0]) if len(phi) == 1 else "(" + ", ".join(lname(n) for n in phi) + ")"
            ty = lty(("tuple", tuple(kinds[n] for n in phi))) if len(phi) != 1 else lty(kinds[phi[0]])
            return wrap(binds, Phi(pat, cond, ir_a, ir_b, self.block(rest, env2, k), ty if phi else "Unit"))
        if isinstance(st, ast.While):             # phase 4 (pyalgebraic)
            # only `while test(x): x = e(x)` for ONE 1-D array x; at most len(x) + 1 rounds are made (more: `Err.recursion`,
            # an answer the code cannot give - the equality theorem has to show that it never occurs)
            ok = not st.orelse and len(st.body) == 1 and isinstance(st.body[0], ast.Assign) and len(st.body[0].targets) == 1 \
                and isinstance(st.body[0].targets[0], ast.Name) and st.body[0].targets[0].id in env \
                and env[st.body[0].targets[0].id].kind == "V" and not env[st.body[0].targets[0].id].inplace
            if not ok:
                raise Problem("while loop of this form (%s)" % where)
            name = st.body[0].targets[0].id
            e0 = dict(env)
            e0[name] = Val("V", lname(name))
            tb, tc = self.tx(st.test, e0)
            if tc.kind != "B":
                raise Problem("condition of kind %r (%s)" % (tc.kind, where))
            sb, sv = self.tx(st.body[0].value, e0)
            if sv.kind != "V":
                raise Problem("while body assigns a value of kind %r (%s)" % (sv.kind, where))
            env2 = dict(env)
            env2[name] = Val("V", lname(name))
            return WhileIR(lname(name), env[name].code, wrap(tb, Yield(tc.code)), wrap(sb, Yield(sv.code)),
                           self.block(rest, env2, k))
        raise Problem("statement %s (%s)" % (type(st).__name__, where))

    def truth(self, c):
        """truth value of a list: non-empty"""
        if is_list(c.kind):
            return Val("B", "!(List.isEmpty %s)" % atom(c.code))
        if c.kind in ("N", "I"):            # phase 4 (pyalgebraic): truth value of a Python int
            zero = "(0 : Nat)" if c.kind == "N" else "(0 : Int)"
            return Val("B", "decide (%s ≠ %s)" % (atom(c.code), zero), prop="%s ≠ %s" % (atom(c.code), zero))
        return c

    def call_stmt(self, c, rest, env, k, where):
        f = c.func
        if isinstance(f, ast.Attribute) and f.attr == "append" and isinstance(f.value, ast.Name) and f.value.id in env \
                and is_list(env[f.value.id].kind):
            name = f.value.id
            if len(c.args) != 1 or c.keywords:
                raise Problem("append with this argument list (%s)" % where)
            if name in self.ro_lists:
                raise Problem("append to the list parameter %s, which the signature table does not declare mutable (%s)"
                              % (name, where))
            cur = env[name]
            binds, v = self.tx(c.args[0], env)
            if v.inplace or v.kind in ("none", "nan", "VB"):
                raise Problem("append of a value of kind %r / of an array overwritten in place (%s)" % (v.kind, where))
            ek = v.kind if cur.kind[1] is None else cur.kind[1]
            if unify(ek, v.kind) != ek:
                raise Problem("list %s of kind %r gets an element of kind %r (%s)" % (name, ek, v.kind, where))
            env2 = dict(env)
            env2[name] = Val(("list", ek), lname(name))
            return wrap(binds, Let(lname(name), "%s ++ [%s]" % (atom(cur.code), self.coerce(v, ek)),
                                   self.block(rest, env2, k)))
        binds, v, muts = self.call(c, env, where, stmt=True)
        if not muts:
            raise Problem("call whose result is discarded (%s)" % where)
        env2 = dict(env)
        for n, kd in muts:
            env2[n] = Val(kd, lname(n))
        pat = lname(muts[0][0]) if len(muts) == 1 else "(" + ", ".join(lname(n) for n, _ in muts) + ")"
        if binds and binds[-1][0] == "bind" and binds[-1][1] == v.code:
            binds = binds[:-1] + [("bind", pat, binds[-1][2])]
            return wrap(binds, self.block(rest, env2, k))
        return wrap(binds, Let(pat, v.code, self.block(rest, env2, k)))

    def iterable(self, it, env, where):
        """(binds, Lean list, kind of the elements)"""
        if isinstance(it, ast.Call) and isinstance(it.func, ast.Name) and it.func.id == "range" and "range" not in env:
            if not it.keywords and len(it.args) == 3 and self.const_int(it.args[2]) == -1:
                # range(a, b, -1) = a, a-1, ..., b+1   with a constant b >= 0
                binds, av = self.tx(it.args[0], env)
                b2, bv = self.tx(it.args[1], env)
                binds += b2
                if self.is_int(av) and bv.intval == -1:        # phase 4 (pyalgebraic): a, a-1, ..., 0 (nothing for a < 0)
                    n_code = ("%s + 1" % atom(self.as_nat(av))) if self.natlike(av) else \
                        "Int.toNat (%s + 1)" % atom(self.as_int(av))
                    return binds, "List.reverse (List.range (%s))" % n_code, "N"
                if not self.is_int(av) or bv.intval is None or bv.intval < 0:
                    raise Problem("descending range with these bounds (%s)" % where)
                return binds, "List.reverse (List.range' %d (%s - %d))" % (bv.intval + 1, self.dim_nat(av), bv.intval), "N"
            if it.keywords or not 1 <= len(it.args) <= 2:
                raise Problem("range with this argument list (%s)" % where)
            binds, vals = [], []
            for a in it.args:
                b, v = self.tx(a, env)
                binds += b
                if not self.is_int(v):
                    raise Problem("range over a value of kind %r (%s)" % (v.kind, where))
                vals.append(v)
            stop = vals[-1]
            stop_code = self.as_nat(stop) if self.natlike(stop) else "Int.toNat %s" % atom(self.as_int(stop))
            if len(vals) == 1:
                return binds, "List.range %s" % atom(stop_code), "N"
            if vals[0].intval is None and vals[0].kind == "N":         # phase 4 (pyalgebraic): range(i + 1, n)
                return binds, "List.range' %s (%s - %s)" % (atom(vals[0].code), stop_code, atom(vals[0].code)), "N"
            if vals[0].intval is None or vals[0].intval < 0:
                raise Problem("the start of a range must be a non-negative integer constant (%s)" % where)
            return binds, "List.range' %d (%s - %d)" % (vals[0].intval, stop_code, vals[0].intval), "N"
        binds, v = self.tx(it, env)
        if is_list(v.kind) and v.kind[1] is not None:
            return binds, v.code, v.kind[1]
        if v.kind == "V":
            return binds, v.code, "S"
        raise Problem("loop over a value of kind %r (%s)" % (v.kind, where))

    def for_loop(self, st, rest, env, k, where):
        if st.orelse:
            raise Problem("for ... else (%s)" % where)
        it = st.iter
        if isinstance(it, (ast.Tuple, ast.List)):
            # a loop over a literal tuple is unrolled: target = e1; body; target = e2; body; ...
            new = []
            for e in it.elts:
                a = ast.Assign(targets=[st.target], value=e)
                ast.copy_location(a, st)
                ast.fix_missing_locations(a)
                new.append(a)
                new.extend(st.body)
            return self.block(new + rest, env, k)
        if isinstance(it, ast.Call) and isinstance(it.func, ast.Name) and it.func.id == "range" and "range" not in env \
                and len(it.args) == 1 and not it.keywords:
            b0, n0 = self.tx(it.args[0], env)
            if not b0 and n0.kind == "S" and n0.intval is not None and 0 <= n0.intval <= 4:
                new = []                        # range(c) with a small constant c is unrolled as well
                for c in range(n0.intval):
                    a = ast.Assign(targets=[st.target], value=ast.Constant(value=c))
                    ast.copy_location(a, st)
                    ast.fix_missing_locations(a)
                    new.append(a)
                    new.extend(st.body)
                return self.block(new + rest, env, k)
        binds, it_code, ek = self.iterable(it, env, where)
        if isinstance(st.target, ast.Name):
            tnames, tkinds, tpat = [st.target.id], [ek], lname(st.target.id)
        elif isinstance(st.target, ast.Tuple) and all(isinstance(e, ast.Name) for e in st.target.elts) \
                and is_tuple(ek) and len(ek[1]) == len(st.target.elts):
            tnames, tkinds = [e.id for e in st.target.elts], list(ek[1])
            tpat = "(" + ", ".join(lname(n) for n in tnames) + ")"
        else:
            raise Problem("loop target does not fit elements of kind %r (%s)" % (ek, where))
        has_exit = contains_exit(st.body)

        def own_break(stmts_):              # phase 4 (pyalgebraic): a `break` of THIS loop (not of a nested one)
            for s_ in stmts_:
                if isinstance(s_, ast.Break):
                    return True
                if isinstance(s_, ast.If) and (own_break(s_.body) or own_break(s_.orelse)):
                    return True
            return False
        has_break = own_break(st.body)
        if has_break and has_exit:
            raise Problem("a loop with both `break` and `return` / `raise` (%s)" % where)
        if contains_break(st.body) and not has_break:
            raise Problem("`break` in a nested position that is not understood (%s)" % where)
        names = assigned_names(st.body, env)
        if any(n in tnames for n in names):
            raise Problem("the loop variable is re-bound in the loop (%s)" % where)
        carried = [n for n in env if n in names]      # in the order of their definition before the loop
        lost = [n for n in names if n not in carried] + [n for n in tnames if n != "_"]
        kinds = {n: env[n].kind for n in carried}

        def run_body(final):
            envs = []

            def kb(e):
                envs.append(e)
                if not final:
                    return Yield("?")
                cs = [self.coerce(e[n], kinds[n]) for n in carried]
                code = "()" if not cs else cs[0] if len(cs) == 1 else "(" + ", ".join(cs) + ")"
                return Next(code) if (has_exit or has_break) else Yield(code)

            def kbrk(e):                    # phase 4 (pyalgebraic): `break` leaves the loop with the current state
                envs.append(e)
                if not final:
                    return Yield("?")
                cs = [self.coerce(e[n], kinds[n]) for n in carried]
                return Brk("()" if not cs else cs[0] if len(cs) == 1 else "(" + ", ".join(cs) + ")")
            e0 = dict(env)
            for n in carried:
                e0[n] = Val(kinds[n], lname(n), inplace=env[n].inplace)
                e0[n].unit, e0[n].wide = env[n].unit, env[n].wide
            for n, kd in zip(tnames, tkinds):
                if n != "_":
                    e0[n] = Val(kd, lname(n))
            if has_break:
                self.__dict__.setdefault("break_stack", []).append(kbrk)
                try:
                    return self.block(st.body, e0, kb), envs
                finally:
                    self.break_stack.pop()
            return self.block(st.body, e0, kb), envs
        keep = (self.ntmp, len(self.ret_kinds), len(self.plain_rets))
        for _ in range(4):
            _, envs = run_body(False)
            self.ntmp = keep[0]
            del self.ret_kinds[keep[1]:]
            del self.plain_rets[keep[2]:]
            new = dict(kinds)
            for e in envs:
                for n in carried:
                    if n not in e:
                        raise Problem("variable %s may be unbound after an iteration (%s)" % (n, where))
                    new[n] = unify(new[n], e[n].kind)
            if new == kinds:
                break
            kinds = new
        else:
            raise Problem("the kinds of the loop-carried variables do not settle (%s)" % where)
        for n in carried:
            if is_tuple(kinds[n]) or kinds[n] in ("none", "nan", "VB") or (is_list(kinds[n]) and kinds[n][1] is None):
                raise Problem("loop-carried variable %s of kind %r (%s)" % (n, kinds[n], where))
        body_ir, _ = run_body(True)
        if not carried and not has_exit and not impure(body_ir):
            raise Problem("loop without effect (%s)" % where)
        env2 = dict(env)
        for n in lost:
            env2.pop(n, None)
        for n in carried:
            env2[n] = Val(kinds[n], lname(n), inplace=env[n].inplace)
            env2[n].unit, env2[n].wide = env[n].unit, env[n].wide
        inits = [self.coerce(env[n], kinds[n]) for n in carried]
        if not carried:
            spat, init, sty = "()", "()", "Unit"
        elif len(carried) == 1:
            spat, init, sty = lname(carried[0]), inits[0], lty(kinds[carried[0]])
        else:
            spat = "(" + ", ".join(lname(n) for n in carried) + ")"
            init = "(" + ", ".join(inits) + ")"
            sty = lty(("tuple", tuple(kinds[n] for n in carried)))
        r, res = self.tmp(), self.tmp()
        loop_ir = Loop(it_code, tpat, spat, init, sty, body_ir, self.block(rest, env2, k), has_exit, r, res)
        loop_ir.has_break = has_break       # phase 4 (pyalgebraic)
        return wrap(binds, loop_ir)

    def slice_assign(self, target, value, rest, env, k, where):
        """`x[:] = e` for an array x created by np.empty: x is (re-)bound to e"""
        sl = target.slice

        def is_full(x):
            return isinstance(x, ast.Slice) and x.lower is None and x.upper is None and x.step is None
        full = is_full(sl)
        if isinstance(target.value, ast.Attribute) and target.value.attr == "flat" and isinstance(target.value.value, ast.Name) \
                and target.value.value.id in env and env[target.value.value.id].kind == "MN" \
                and env[target.value.value.id].inplace and not env[target.value.value.id].wide \
                and isinstance(sl, ast.Slice) and sl.lower is not None and sl.upper is None and sl.step is not None:
            # phase 4 (pyalgebraic): `x.flat[start::step] = c` for a 2-D array x created in this function
            name = target.value.value.id
            binds, a = self.tx(sl.lower, env)
            b2, b = self.tx(sl.step, env)
            binds += b2
            b3, c = self.tx(value, env)
            binds += b3
            if not (self.natlike(a) and self.natlike(b)):
                raise Problem("flat slice with bounds of kinds %r, %r (%s)" % (a.kind, b.kind, where))
            c = self.as_scalar(binds, c, "array entry (%s)" % where)
            binds.append(("bind", lname(name), "Rt.setFlat %s %s %s %s"
                          % (lname(name), atom(self.as_nat(a)), atom(self.as_nat(b)), atom(c.code))))
            env2 = dict(env)
            env2[name] = Val("MN", lname(name), inplace=True)
            return wrap(binds, self.block(rest, env2, k))
        if isinstance(target.value, ast.Name) and target.value.id in env and env[target.value.id].kind == "MN" \
                and env[target.value.id].inplace and not env[target.value.id].wide and target.value.id not in self.prealloc \
                and isinstance(sl, ast.Tuple) and len(sl.elts) == 2 and not any(isinstance(x, ast.Slice) for x in sl.elts):
            # phase 4 (pyalgebraic): `x[i, j] = c` for a 2-D array x created in this function
            name = target.value.id
            binds, iv = self.tx(sl.elts[0], env)
            b2, jv = self.tx(sl.elts[1], env)
            binds += b2
            b3, c = self.tx(value, env)
            binds += b3
            if not (self.is_int(iv) and self.is_int(jv)):
                raise Problem("cell assignment with indices of kinds %r, %r (%s)" % (iv.kind, jv.kind, where))
            c = self.as_scalar(binds, c, "array entry (%s)" % where)
            binds.append(("bind", lname(name), "Rt.setCell %s %s %s %s"
                          % (lname(name), atom(self.as_int(iv)), atom(self.as_int(jv)), atom(c.code))))
            env2 = dict(env)
            env2[name] = Val("MN", lname(name), inplace=True)
            return wrap(binds, self.block(rest, env2, k))
        if isinstance(target.value, ast.Name) and target.value.id in env and env[target.value.id].kind == "MN" \
                and env[target.value.id].inplace and not env[target.value.id].wide and target.value.id not in self.prealloc \
                and isinstance(sl, ast.Tuple) and len(sl.elts) == 2 and is_full(sl.elts[1]) \
                and not isinstance(sl.elts[0], ast.Slice):
            # phase 4 (pyalgebraic): `x[i, :] = v` for a 2-D array x created in this function
            name = target.value.id
            binds, iv = self.tx(sl.elts[0], env)
            b2, v = self.tx(value, env)
            binds += b2
            if not self.natlike(iv) or v.kind != "V":
                raise Problem("row assignment with index of kind %r and value of kind %r (%s)" % (iv.kind, v.kind, where))
            binds.append(("bind", lname(name), "Rt.setRow %s %s %s" % (lname(name), atom(self.as_nat(iv)), atom(v.code))))
            env2 = dict(env)
            env2[name] = Val("MN", lname(name), inplace=True)
            return wrap(binds, self.block(rest, env2, k))
        if isinstance(target.value, ast.Name) and target.value.id in env and env[target.value.id].kind == "MN" \
                and env[target.value.id].inplace and not env[target.value.id].wide and target.value.id not in self.prealloc \
                and isinstance(sl, ast.Tuple) and len(sl.elts) == 2 and all(isinstance(x, ast.Slice) for x in sl.elts):
            # phase 4 (pyalgebraic): `x[r0:r1, c0:c1] = e` for a 2-D array x created in this function (np.zeros)
            name = target.value.id
            binds, v = self.tx(value, env)
            if v.kind != "MN" or v.wide:
                raise Problem("block assignment of a value of kind %r (%s)" % (v.kind, where))
            rlo, rhi = self.slice_bounds(binds, sl.elts[0], env, where)
            clo, chi = self.slice_bounds(binds, sl.elts[1], env, where)
            binds.append(("bind", lname(name), "Rt.setBlock %s %s %s %s %s %s"
                          % (lname(name), rlo, rhi, clo, chi, atom(v.code))))
            env2 = dict(env)
            env2[name] = Val("MN", lname(name), inplace=True)
            return wrap(binds, self.block(rest, env2, k))
        if isinstance(target.value, ast.Name) and isinstance(self.prealloc.get(target.value.id), tuple) \
                and isinstance(sl, ast.Tuple) and len(sl.elts) == 3 and is_full(sl.elts[0]):
            return self.wide_assign(target.value.id, sl.elts[1], sl.elts[2], value, rest, env, k, where)
        if isinstance(target.value, ast.Name) and self.prealloc.get(target.value.id) == "J22" \
                and isinstance(sl, ast.Tuple) and len(sl.elts) == 2 and is_full(sl.elts[0]) \
                and isinstance(sl.elts[1], ast.Slice) and sl.elts[1].step is None:
            # a 2 x 2 array filled by columns: `x[:, :1] = c0`, `x[:, 1:] = c1` with d x 1 arrays c0, c1 (d must be 2)
            lo, hi = sl.elts[1].lower, sl.elts[1].upper
            col = 0 if (lo is None and self.const_int(hi) == 1) else 1 if (hi is None and self.const_int(lo) == 1) else None
            name = target.value.id
            binds, v = self.tx(value, env)
            if col is None or v.kind != "C":
                raise Problem("assignment target %s / value of kind %r (%s)" % (ast.unparse(target), v.kind, where))
            t = self.tmp()
            binds.append(("bind", t, "Rt.asPt %s" % atom(v.code)))
            cur = dict(env[name].cols) if name in env and env[name].kind == "J22" else {}
            cur[col] = t
            env2 = dict(env)
            if len(cur) == 2:
                cells = [["%s.1" % cur[0], "%s.1" % cur[1]], ["%s.2" % cur[0], "%s.2" % cur[1]]]
                code = "[[%s, %s], [%s, %s]]" % (cells[0][0], cells[0][1], cells[1][0], cells[1][1])
                env2[name] = Val("M22", lname(name), cells=None)
                return wrap(binds, Let(lname(name), code, self.block(rest, env2, k)))
            part = Val("J22", "?")
            part.cols = cur
            env2[name] = part
            return wrap(binds, self.block(rest, env2, k))
        if not (isinstance(target.value, ast.Name) and full and target.value.id in self.prealloc):
            raise Problem("assignment target %s (%s)" % (ast.unparse(target), where))
        name = target.value.id
        if name in env and not env[name].inplace:
            raise Problem("slice assignment to %s (%s)" % (name, where))
        binds, v = self.tx(value, env)
        if v.kind != self.prealloc[name] or v.inplace:
            raise Problem("`%s[:] = ...` with a value of kind %r (%s)" % (name, v.kind, where))
        env2 = dict(env)
        env2[name] = Val(v.kind, lname(name), inplace=True)
        return wrap(binds, Let(lname(name), v.code, self.block(rest, env2, k)))

    def release_inplace(self, env):
        """phase 4 (pyalgebraic): the environment of a `return (..)` expression: arrays created in the function are plain values"""
        out = dict(env)
        for n, v in env.items():
            if v.inplace and v.kind in ("V", "MN") and not v.wide:
                c = Val(v.kind, v.code)
                out[n] = c
        return out

    def none_test(self, test, env):
        """phase 4 (pyalgebraic): `x is None` -> (x, True), `x is not None` -> (x, False) for a maybe-None variable x"""
        if isinstance(test, ast.Compare) and len(test.ops) == 1 and isinstance(test.ops[0], (ast.Is, ast.IsNot)) \
                and isinstance(test.left, ast.Name) and test.left.id in env and isinstance(test.comparators[0], ast.Constant) \
                and test.comparators[0].value is None and is_opt(env[test.left.id].kind) and env[test.left.id].kind[2] == "none" \
                and env[test.left.id].code == lname(test.left.id):
            return test.left.id, isinstance(test.ops[0], ast.Is)
        return None

    def harmonize_int_returns(self, ir):
        """phase 4 (pyalgebraic): `return None, 0, 0` next to `return x, degree, n`: an integer CONSTANT in a position of a
        returned tuple where another `return` delivers a Python int is that int (not a float)"""
        leaves = []

        def walk(x):
            if isinstance(x, Leaf):
                leaves.append(x)
            elif isinstance(x, (Let, Shape)):
                walk(x.body)
            elif isinstance(x, Bind):
                if isinstance(x.code, MIf):
                    walk(x.code.then)
                    walk(x.code.els)
                walk(x.body)
            elif isinstance(x, (Ite, MatchOpt)):
                walk(x.then)
                walk(x.els)
            elif isinstance(x, Phi):
                walk(x.then)
                walk(x.els)
                walk(x.body)
            elif isinstance(x, Loop):
                walk(x.body)
                walk(x.rest)
            elif isinstance(x, WhileIR):
                walk(x.rest)
        walk(ir)
        vals = [l.val for l in leaves]
        if len(vals) < 2 or not all(is_tuple(v.kind) and v.comps and all(isinstance(c, Val) for c in v.comps) for v in vals) \
                or len({len(v.comps) for v in vals}) != 1 or self.mut_params:
            return
        changed = False
        for i in range(len(vals[0].comps)):
            kinds_i = [v.comps[i].kind for v in vals]
            if any(kd in ("I", "N") for kd in kinds_i) and any(kd == "S" for kd in kinds_i):
                for v in vals:
                    c = v.comps[i]
                    if c.kind == "S" and c.intval is not None:
                        v.comps[i] = Val("N", "(%d : Nat)" % c.intval) if c.intval >= 0 else Val("I", "(%d : Int)" % c.intval)
                        changed = True
        if changed:
            for v in vals:
                v.kind = ("tuple", tuple(c.kind for c in v.comps))
                v.code = "(" + ", ".join(c.code for c in v.comps) + ")"
            self.ret_kinds = [v.kind for v in vals]

    def aug_subscript(self, st, rest, env, k, where):
        """phase 4 (pyalgebraic): `x[:, lo:hi] *= c` / `/= c` for a 2-D array x created in this function"""
        t = st.target
        sl = t.slice
        if isinstance(t.value, ast.Name) and t.value.id in env and env[t.value.id].kind == "V" and env[t.value.id].inplace \
                and not isinstance(sl, (ast.Tuple, ast.Slice)) and isinstance(st.op, (ast.Mult, ast.Div, ast.Add, ast.Sub)):
            # `v[i] op= c` for a 1-D array created in this function
            name = t.value.id
            binds, iv = self.tx(sl, env)
            if not self.natlike(iv):
                raise Problem("index of kind %r in an augmented assignment (%s)" % (iv.kind, where))
            b2, c = self.tx(st.value, env)
            binds += b2
            c = self.as_scalar(binds, c, "operand of an augmented assignment (%s)" % where)
            op = {ast.Mult: "*", ast.Div: "/", ast.Add: "+", ast.Sub: "-"}[type(st.op)]
            binds.append(("bind", lname(name), "Rt.updIdx (fun x => x %s %s) %s %s"
                          % (op, atom(c.code), lname(name), atom(self.as_nat(iv)))))
            env2 = dict(env)
            env2[name] = Val("V", lname(name), inplace=True)
            return wrap(binds, self.block(rest, env2, k))
        ok = isinstance(t.value, ast.Name) and t.value.id in env and env[t.value.id].kind == "MN" \
            and env[t.value.id].inplace and not env[t.value.id].wide and isinstance(sl, ast.Tuple) and len(sl.elts) == 2 \
            and isinstance(sl.elts[0], ast.Slice) and sl.elts[0].lower is None and sl.elts[0].upper is None \
            and sl.elts[0].step is None and isinstance(sl.elts[1], ast.Slice) and isinstance(st.op, (ast.Mult, ast.Div))
        if not ok:
            raise Problem("augmented assignment to %s (%s)" % (ast.unparse(t), where))
        name = t.value.id
        binds, c = self.tx(st.value, env)
        c = self.as_scalar(binds, c, "factor of an array (%s)" % where)
        lo, hi = self.slice_bounds(binds, sl.elts[1], env, where)
        op = "*" if isinstance(st.op, ast.Mult) else "/"
        env2 = dict(env)
        env2[name] = Val("MN", lname(name), inplace=True)
        return wrap(binds, Let(lname(name), "Rt.mapCols (fun x => x %s %s) %s %s %s" % (op, atom(c.code), lname(name), lo, hi),
                               self.block(rest, env2, k)))

    def const_array(self, node):
        """phase 4 (pyalgebraic): a module constant that is a 1-D array literal -> (Lean name, exact values) or None"""
        if not (isinstance(node, ast.Name) and node.id in self.mod.consts and node.id not in self.locals_):
            return None
        e = self.mod.consts[node.id]
        if not (isinstance(e, ast.Call) and isinstance(e.func, ast.Attribute) and e.func.attr in ("asfortranarray", "array")
                and isinstance(e.func.value, ast.Name) and self.mod.aliases.get(e.func.value.id) == "numpy"
                and len(e.args) == 1 and not e.keywords and isinstance(e.args[0], ast.List) and e.args[0].elts):
            return None
        vals = []
        for x in e.args[0].elts:
            if isinstance(x, ast.Call) and isinstance(x.func, ast.Attribute) and x.func.attr == "fromhex" \
                    and isinstance(x.func.value, ast.Name) and x.func.value.id == "float" and len(x.args) == 1 \
                    and not x.keywords and isinstance(x.args[0], ast.Constant) and isinstance(x.args[0].value, str):
                try:
                    f = float.fromhex(x.args[0].value)
                except ValueError:
                    return None
                if f != f or f in (float("inf"), float("-inf")):
                    return None
                vals.append(Fr(f))
            else:
                c = self.const_eval(x)
                if c is None:
                    return None
                vals.append(c)
        lean = "%s.%s" % (self.modname, node.id.lstrip("_"))
        table = self.tr.__dict__.setdefault("const_arrays", {})
        if lean in table and table[lean][0] != (self.modname, node.id):
            raise Problem("module constants %s and %s get the same Lean name" % (node.id, table[lean][0][1]))
        table[lean] = ((self.modname, node.id), vals)
        return lean, vals

    def dim_nat(self, v):
        return self.as_nat(v) if self.natlike(v) else "Int.toNat %s" % atom(self.as_int(v))

    def slice_bounds(self, binds, sl, env, where):
        if not isinstance(sl, ast.Slice) or sl.step is not None:
            raise Problem("slice %s (%s)" % (ast.unparse(sl), where))
        out = []
        for bnd in (sl.lower, sl.upper):
            if bnd is None:
                out.append("none")
            else:
                b2, bv = self.tx(bnd, env)
                binds += b2
                if not self.is_int(bv):
                    raise Problem("slice bound of kind %r (%s)" % (bv.kind, where))
                out.append("(some %s)" % atom(self.as_int(bv)))
        return out

    def wide_assign(self, name, mid, last, value, rest, env, k, where):
        """assignments to an array `x = np.empty((d, 1, k))`:  `x[:, 0, :] = e` (all of it), `x[:, :, lo:hi] = e`"""
        _, dv, kv = self.prealloc[name]
        binds, v = self.tx(value, env)
        if v.inplace and isinstance(value, ast.Name):
            raise Problem("copy of an array that is updated in place (%s)" % where)
        env2 = dict(env)
        new = Val("MN", lname(name), inplace=True)
        new.wide = True
        env2[name] = new
        mid_full = isinstance(mid, ast.Slice) and mid.lower is None and mid.upper is None and mid.step is None
        last_full = isinstance(last, ast.Slice) and last.lower is None and last.upper is None and last.step is None
        if not mid_full and last_full:
            b2, mv = self.tx(mid, env)
            if b2 or not (mv.kind == "S" and mv.intval == 0):
                raise Problem("index %s into an axis of length 1 (%s)" % (ast.unparse(mid), where))
            d, kk = atom(self.dim_nat(dv)), atom(self.dim_nat(kv))
            if v.kind in ("S", "I", "N"):
                v = self.as_scalar(binds, v, "array entry (%s)" % where)
                return wrap(binds, Let(lname(name), "Rt.mfill %s %s %s" % (d, kk, atom(v.code)), self.block(rest, env2, k)))
            if v.kind == "MN":
                binds.append(("bind", lname(name), "Rt.asShape %s %s %s" % (d, kk, atom(v.code))))
                return wrap(binds, self.block(rest, env2, k))
            raise Problem("assignment of a value of kind %r to a 3-D array (%s)" % (v.kind, where))
        if mid_full and not last_full:
            if name not in env or not (env[name].wide and env[name].inplace) or v.kind != "MN":
                raise Problem("partial assignment to %s (%s)" % (name, where))
            lo, hi = self.slice_bounds(binds, last, env, where)
            binds.append(("bind", lname(name), "Rt.setCols %s %s %s %s" % (lname(name), lo, hi, atom(v.code))))
            return wrap(binds, self.block(rest, env2, k))
        raise Problem("assignment target %s[...] (%s)" % (name, where))

    def assign(self, target, value, rest, env, k, where):
        if isinstance(target, ast.Subscript):
            return self.slice_assign(target, value, rest, env, k, where)
        if isinstance(target, ast.Name) and self.np_empty_kind(value, env) is not None:
            # np.empty(...): no value until the array is overwritten (`x[:] = ...`); reading it before is refused
            pk = self.np_empty_kind(value, env)
            self.prealloc[target.id] = pk
            env2 = dict(env)
            env2.pop(target.id, None)
            ir = self.block(rest, env2, k)
            if isinstance(pk, tuple):
                for dim in (pk[2], pk[1]):          # a negative dimension: ValueError
                    if not self.natlike(dim) and (dim.code, id(env.get(dim.code))) not in self.guarded:
                        self.guarded.add((dim.code, id(env.get(dim.code))))
                        ir = Ite("%s < 0" % atom(self.as_int(dim)), Fail("valueError"), ir)
            return ir
        binds, v = self.tx(value, env)
        env2 = dict(env)
        if isinstance(value, ast.Name) and (v.inplace or is_list(v.kind)):
            raise Problem("a second name for a list / an array that is updated in place (%s)" % where)
        if isinstance(target, ast.Name) and v.kind == "none" and isinstance(value, ast.Constant) and not binds \
                and target.id != "_":
            # phase 4 (pyalgebraic): `x = None`: x is a maybe-None variable once a loop / an if gives it a value
            env2[target.id] = Val("none", "none")
            return self.block(rest, env2, k)
        if isinstance(target, ast.Name) and target.id in getattr(self, "int_vars", set()) and v.kind == "S" \
                and v.intval is not None and not binds:
            # phase 4 (pyalgebraic): an integer constant assigned to a variable that holds a Python int elsewhere
            v = Val("N", "(%d : Nat)" % v.intval) if v.intval >= 0 else Val("I", "(%d : Int)" % v.intval)
        if isinstance(target, ast.Name) and v.kind == "VB" and target.id != "_":
            # phase 4 (pyalgebraic): a boolean array bound to a name (`real_inds = np.abs(..) < ..`)
            env2[target.id] = Val("VB", lname(target.id))
            if binds and binds[-1][0] == "bind" and binds[-1][1] == v.code:
                binds = binds[:-1] + [("bind", lname(target.id), binds[-1][2])]
                return wrap(binds, self.block(rest, env2, k))
            return wrap(binds, Let(lname(target.id), v.code, self.block(rest, env2, k)))
        if isinstance(target, ast.Name):
            if v.kind in ("none", "nan") or v.kind == "VB":
                raise Problem("assignment of a value of kind %r (%s)" % (v.kind, where))
            n = lname(target.id)
            if target.id == "_":
                raise Problem("assignment to _ (%s)" % where)
            if is_tuple(v.kind):
                env2[target.id] = Val(v.kind, n)
            else:
                # components / cells are NOT remembered: the names they mention may be re-bound later
                # (rows / cells of a parameter are fresh names bound once at entry, so an alias may keep them)
                is_param_struct = v.code in self.param_names
                env2[target.id] = Val(v.kind, n, cells=v.cells if is_param_struct else None,
                                      rows=v.rows if is_param_struct else None,
                                      inplace=v.owned or getattr(self, "aug_owner", None) == target.id)
                env2[target.id].unit = v.unit and v.kind == "S"
                env2[target.id].intval = v.intval if v.kind == "S" else None
                env2[target.id].wide = v.wide and is_param_struct
                self.aug_owner = None
            if binds and binds[-1][0] == "bind" and binds[-1][1] == v.code:
                binds = binds[:-1] + [("bind", n, binds[-1][2])]
                return wrap(binds, self.block(rest, env2, k))
            return wrap(binds, Let(n, v.code, self.block(rest, env2, k)))
        if isinstance(target, (ast.Tuple, ast.List)) and v.kind == "C" and all(
                isinstance(e, (ast.Tuple, ast.List)) and len(e.elts) == 1 and isinstance(e.elts[0], ast.Name)
                for e in target.elts):
            # phase 4 (pyalgebraic): `(x,), (y,) = <d x 1 array>`: every row has exactly one entry
            target = ast.Tuple(elts=[e.elts[0] for e in target.elts], ctx=ast.Store())
        if isinstance(target, (ast.Tuple, ast.List)):
            names = []
            for e in target.elts:
                if not isinstance(e, ast.Name):
                    raise Problem("nested unpacking (%s)" % where)
                names.append(e.id)
            if is_tuple(v.kind):
                kinds = list(v.kind[1])
            elif v.kind == "P":
                kinds = ["S", "S"]
            elif v.kind in ("V", "C") and 2 <= len(names) <= 4:        # phase 4 (pyalgebraic)
                t = self.tmp()
                binds.append(("bind", t, "Rt.unpack%d %s" % (len(names), atom(v.code))))
                kinds = ["S"] * len(names)
                v = Val(("tuple", tuple(kinds)), t)
            else:
                raise Problem("unpacking a value of kind %r (%s)" % (v.kind, where))
            if len(kinds) != len(names):
                raise Problem("unpacking %d values into %d names (%s)" % (len(kinds), len(names), where))
            for i, (n, kd) in enumerate(zip(names, kinds)):
                if n != "_":
                    if kd in ("none", "nan"):
                        raise Problem("unpacked position is always None (%s)" % where)
                    env2[n] = Val(kd, lname(n), intval=v.comps[i].intval if v.comps and isinstance(v.comps[i], Val) else None)
            pat = "(" + ", ".join(lname(n) for n in names) + ")" if len(names) > 1 else lname(names[0])
            if len(names) == 1 and v.comps:
                v = v.comps[0]
            if binds and binds[-1][0] == "bind" and binds[-1][1] == v.code:
                binds = binds[:-1] + [("bind", pat, binds[-1][2])]
                return wrap(binds, self.block(rest, env2, k))
            return wrap(binds, Let(pat, v.code, self.block(rest, env2, k)))
        raise Problem("assignment target %s (%s)" % (type(target).__name__, where))

    # -------------------------------------------------------------- expressions
    def const_eval(self, node, mod=None, depth=0):
        """exact value of a constant numeric expression (or None); the float evaluation must be exact"""
        mod = mod or self.mod
        if depth > 8:
            return None
        if isinstance(node, ast.Constant):
            v = node.value
            if isinstance(v, bool) or not isinstance(v, (int, float)):
                return None
            if isinstance(v, float) and (v != v or v in (float("inf"), float("-inf"))):
                return None
            return Fr(v)
        if isinstance(node, ast.UnaryOp) and isinstance(node.op, ast.USub):
            v = self.const_eval(node.operand, mod, depth + 1)
            return None if v is None else -v
        if isinstance(node, ast.BinOp):
            a = self.const_eval(node.left, mod, depth + 1)
            b = self.const_eval(node.right, mod, depth + 1)
            if a is None or b is None:
                return None
            try:
                if isinstance(node.op, ast.Add):
                    r = a + b
                elif isinstance(node.op, ast.Sub):
                    r = a - b
                elif isinstance(node.op, ast.Mult):
                    r = a * b
                elif isinstance(node.op, ast.Div):
                    r = a / b
                elif isinstance(node.op, ast.Pow) and b.denominator == 1 and abs(b) <= 1100:
                    r = a ** int(b)
                else:
                    return None
                if Fr(float(r)) != r:
                    raise Problem("constant expression is not exact in binary64 (line %d)" % node.lineno)
            except (ZeroDivisionError, OverflowError):
                raise Problem("constant expression cannot be evaluated (line %d)" % node.lineno)
            return r
        if isinstance(node, ast.Name) and node.id in mod.consts and (mod is not self.mod or node.id not in self.locals_):
            return self.const_eval(mod.consts[node.id], mod, depth + 1)
        if isinstance(node, ast.Attribute) and isinstance(node.value, ast.Name):
            al = mod.aliases.get(node.value.id)
            if al and al != "numpy":
                other = self.tr.module(al)
                if node.attr in other.consts:
                    return self.const_eval(other.consts[node.attr], other, depth + 1)
        return None

    def const_int(self, node, mod=None, depth=0):
        """value of an integer-typed constant expression (Python int arithmetic), or None"""
        mod = mod or self.mod
        if depth > 8:
            return None
        if isinstance(node, ast.Constant):
            return node.value if isinstance(node.value, int) and not isinstance(node.value, bool) else None
        if isinstance(node, ast.UnaryOp) and isinstance(node.op, ast.USub):
            v = self.const_int(node.operand, mod, depth + 1)
            return None if v is None else -v
        if isinstance(node, ast.BinOp) and isinstance(node.op, (ast.Add, ast.Sub, ast.Mult)):
            a = self.const_int(node.left, mod, depth + 1)
            b = self.const_int(node.right, mod, depth + 1)
            if a is None or b is None:
                return None
            return a + b if isinstance(node.op, ast.Add) else a - b if isinstance(node.op, ast.Sub) else a * b
        if isinstance(node, ast.Name) and node.id in mod.consts and (mod is not self.mod or node.id not in self.locals_):
            return self.const_int(mod.consts[node.id], mod, depth + 1)
        return None

    # Python ints: kind N (a natural number: a length, a shape entry, a range index) or I (any int); an
    # integer-typed constant is a number literal that remembers its value
    @staticmethod
    def is_int(v):
        return v.kind in ("I", "N") or (v.kind == "S" and v.intval is not None)

    @staticmethod
    def natlike(v):
        return v.kind == "N" or (v.kind == "S" and v.intval is not None and v.intval >= 0)

    @staticmethod
    def as_int(v):
        if v.kind == "I":
            return v.code
        if v.kind == "N":
            return "(%s : Int)" % v.code
        return "(%d : Int)" % v.intval

    @staticmethod
    def as_nat(v):
        return v.code if v.kind == "N" else "(%d : Nat)" % v.intval

    def as_scalar(self, binds, v, what):
        """a number of K (ints are converted as Python does in mixed arithmetic)"""
        if v.kind == "I":
            return Val("S", "Rt.ofInt %s" % atom(v.code))
        if v.kind == "N":
            return Val("S", "((%s : Nat) : K)" % v.code)
        return self.need(binds, v, "S", what)

    def need(self, binds, v, kind, what):
        """convert v to `kind` (unwrapping a maybe-None value raises)"""
        if v.kind == kind:
            return v
        if kind == "S" and v.kind in ("I", "N"):
            return self.as_scalar(binds, v, what)
        if kind == "I" and self.is_int(v):
            return Val("I", self.as_int(v))
        if kind == "N" and self.natlike(v):
            return Val("N", self.as_nat(v))
        if kind == "X" and v.kind == "S":
            return Val("X", "Rt.Ext.fin %s" % atom(v.code))
        if kind == "P" and v.kind in ("V", "C"):
            t = self.tmp()
            binds.append(("bind", t, "Rt.asPt %s" % atom(v.code)))
            return Val("P", t)
        if is_list(kind) and is_list(v.kind) and v.kind[1] is None:
            return Val(kind, "(%s : %s)" % (v.code, lty(kind)))
        if is_opt(v.kind) and v.kind[1] == kind:
            if v.kind[2] != "none":
                raise Problem("a maybe-NaN value is used as a number (%s)" % what)
            t = self.tmp()
            binds.append(("bind", t, "Rt.unwrap %s" % atom(v.code)))
            return Val(kind, t)
        raise Problem("%s: kind %r where %r is required" % (what, v.kind, kind))

    def tx(self, node, env):
        where = "line %d" % getattr(node, "lineno", 0)
        if not (isinstance(node, ast.Name) and node.id in env):
            c = self.const_eval(node)
            if c is not None:
                return [], Val("S", lit(c), intval=self.const_int(node))
        if isinstance(node, ast.Constant):
            if node.value is None:
                return [], Val("none", "none")
            if isinstance(node.value, bool):
                return [], Val("B", "true" if node.value else "false")
            raise Problem("constant %r (%s)" % (node.value, where))
        if isinstance(node, ast.Name) and node.id not in env and node.id not in self.locals_ and node.id in self.mod.consts \
                and isinstance(self.mod.consts[node.id], ast.Attribute) and isinstance(self.mod.consts[node.id].value, ast.Attribute) \
                and isinstance(self.mod.consts[node.id].value.value, ast.Name):
            # phase 4 (pyalgebraic): `_DISJOINT = geometric_intersection.BoxIntersectionType.DISJOINT`
            e = self.mod.consts[node.id]
            al = self.mod.aliases.get(e.value.value.id)
            if al is not None and al not in ("numpy", "bisect"):
                other = self.tr.module(al)
                cls, attr = e.value.attr, e.attr
                if cls in other.classes and attr in other.classes[cls]:
                    name = "%s.%s" % (cls, attr)
                    if self.tr.enums.get(name, other.classes[cls][attr]) != other.classes[cls][attr]:
                        raise Problem("two enum classes named %s (%s)" % (cls, where))
                    self.tr.enums[name] = other.classes[cls][attr]
                    return [], Val("E", name)
        if isinstance(node, ast.Name) and node.id not in env and self.const_array(node) is not None:
            return [], Val("V", "(%s : List K)" % self.const_array(node)[0])       # phase 4 (pyalgebraic)
        if isinstance(node, ast.ListComp):                                          # phase 4 (pyalgebraic)
            if len(node.generators) != 1 or node.generators[0].ifs or node.generators[0].is_async \
                    or not isinstance(node.generators[0].target, ast.Name):
                raise Problem("list comprehension of this form (%s)" % where)
            gen = node.generators[0]
            ca = None if (isinstance(gen.iter, ast.Name) and gen.iter.id in env) else self.const_array(gen.iter)
            if ca is None or gen.target.id in env or gen.target.id == "_":
                raise Problem("list comprehension over something else than a module constant array (%s)" % where)
            binds, cs = [], []
            for c in ca[1]:                      # unrolled, in order
                env2 = dict(env)
                env2[gen.target.id] = Val("S", lit(c))
                b, v = self.tx(node.elt, env2)
                binds += b
                cs.append(self.as_scalar(binds, v, "entry of a list of numbers (%s)" % where).code)
            return binds, Val("V", "[" + ", ".join(cs) + "]")
        if isinstance(node, ast.Name):
            if node.id in env:
                return [], env[node.id]
            raise Problem("name %s is not a parameter, a (definitely assigned) local or a numeric module constant (%s)"
                          % (node.id, where))
        if isinstance(node, ast.List):
            if not node.elts:
                return [], Val(("list", None), "[]")
            binds, cs = [], []
            for e in node.elts:
                b, v = self.tx(e, env)
                binds += b
                cs.append(self.as_scalar(binds, v, "entry of a list of numbers (%s)" % where).code)
            return binds, Val("V", "[" + ", ".join(cs) + "]")
        if isinstance(node, ast.Attribute) and isinstance(node.value, ast.Name) and node.value.id == "self" \
                and self.fields is not None and "self" not in env:
            if node.attr in self.fields and node.attr in env:
                return [], env[node.attr]
            raise Problem("attribute %s (%s)" % (ast.unparse(node), where))
        if isinstance(node, ast.Attribute):
            if not (isinstance(node.value, ast.Name) and node.value.id not in env):
                return self.attribute(node, env, where)
            if isinstance(node.value, ast.Name) and node.value.id not in env:
                base = node.value.id
                if self.mod.aliases.get(base) == "numpy" and node.attr == "inf":
                    return [], Val("X", "(Rt.Ext.pinf : Rt.Ext K)")
                if self.mod.aliases.get(base) == "numpy" and node.attr == "nan":
                    return [], Val("nan", "none")
                if base in self.mod.classes and node.attr in self.mod.classes[base]:
                    name = "%s.%s" % (base, node.attr)
                    self.tr.enums[name] = self.mod.classes[base][node.attr]
                    return [], Val("E", name)
            raise Problem("attribute %s (%s)" % (ast.unparse(node), where))
        if isinstance(node, ast.Tuple):
            binds, comps = [], []
            for e in node.elts:
                b, v = self.tx(e, env)
                binds += b
                if v.inplace or is_list(v.kind):
                    raise Problem("a list / an array overwritten in place inside a tuple (%s)" % where)
                comps.append(v)
            return binds, Val(("tuple", tuple(c.kind for c in comps)),
                              "(" + ", ".join(c.code for c in comps) + ")", comps=comps)
        if isinstance(node, ast.UnaryOp):
            binds, v = self.tx(node.operand, env)
            if isinstance(node.op, ast.USub):
                if v.kind == "X":
                    return binds, Val("X", "Rt.Ext.neg %s" % atom(v.code))
                if v.kind in ("I", "N"):
                    return binds, Val("I", "-%s" % atom(self.as_int(v)))
                if v.kind == "C":
                    return binds, Val("C", "List.map (fun x => -x) %s" % atom(v.code))
                if v.kind == "V":                # phase 4 (pyalgebraic)
                    return binds, Val("V", "List.map (fun x => -x) %s" % atom(v.code))
                v = self.need(binds, v, "S", "operand of unary - (%s)" % where)
                return binds, Val("S", "-%s" % atom(v.code))
            if isinstance(node.op, ast.Not):
                if is_list(v.kind):
                    return binds, Val("B", "List.isEmpty %s" % atom(v.code))
                if v.kind != "B":
                    raise Problem("`not` of kind %r (%s)" % (v.kind, where))
                return binds, Val("B", "!%s" % atom(v.code), prop=("¬ %s" % atom(v.prop)) if v.prop else None)
            raise Problem("unary operator (%s)" % where)
        if isinstance(node, ast.BinOp) and (isinstance(node.left, ast.List) or isinstance(node.right, ast.List)):
            # phase 4 (pyalgebraic): a Python list literal in arithmetic: only `[c] * n` (repetition), as a 1-D array
            if not (isinstance(node.op, ast.Mult) and isinstance(node.left, ast.List) and len(node.left.elts) == 1):
                raise Problem("arithmetic with a list literal (%s)" % where)
            binds, c = self.tx(node.left.elts[0], env)
            c = self.as_scalar(binds, c, "entry of a list of numbers (%s)" % where)
            b2, n = self.tx(node.right, env)
            binds += b2
            if not self.is_int(n):
                raise Problem("list repeated a number of times of kind %r (%s)" % (n.kind, where))
            return binds, Val("V", "List.replicate %s %s" % (atom(self.dim_nat(n)), atom(c.code)))
        if isinstance(node, ast.BinOp):
            binds, a = self.tx(node.left, env)
            b2, b = self.tx(node.right, env)
            binds += b2
            if isinstance(node.op, ast.BitAnd) and a.kind == "VB" and b.kind == "VB":      # phase 4 (pyalgebraic)
                t = self.tmp()
                binds.append(("bind", t, "Rt.band %s %s" % (atom(a.code), atom(b.code))))
                return binds, Val("VB", t)
            ops = {ast.Add: "+", ast.Sub: "-", ast.Mult: "*", ast.Div: "/"}
            op = ops.get(type(node.op))
            if op is None:
                raise Problem("operator %s (%s)" % (type(node.op).__name__, where))
            if a.kind == "P" and b.kind == "P" and op == "-":
                return binds, Val("P", "Model.psub %s %s" % (atom(a.code), atom(b.code)))
            if a.kind == "V" and b.kind == "V" and op == "-":
                t = self.tmp()
                binds.append(("bind", t, "Rt.vzip (fun x y => x - y) %s %s" % (atom(a.code), atom(b.code))))
                return binds, Val("V", t)
            if a.kind == "C" and b.kind == "C" and op in "+-":
                t = self.tmp()
                binds.append(("bind", t, "Rt.vzip (fun x y => x %s y) %s %s" % (op, atom(a.code), atom(b.code))))
                return binds, Val("C", t)
            if op == "*" and b.kind == "C" and a.kind in ("S", "I", "N"):
                a = self.as_scalar(binds, a, "factor of an array (%s)" % where)
                return binds, Val("C", "List.map (fun x => %s * x) %s" % (atom(a.code), atom(b.code)))
            if op in "*/" and a.kind == "C" and b.kind in ("S", "I", "N"):
                b = self.as_scalar(binds, b, "factor of an array (%s)" % where)
                return binds, Val("C", "List.map (fun x => x %s %s) %s" % (op, atom(b.code), atom(a.code)))
            if a.kind == "MN" and b.kind == "MN" and op in "+-*":
                t = self.tmp()
                binds.append(("bind", t, "Rt.mzip (fun x y => x %s y) %s %s" % (op, atom(a.code), atom(b.code))))
                r = Val("MN", t)
                r.wide = a.wide and b.wide
                return binds, r
            if op == "*" and b.kind == "MN" and a.kind in ("S", "I", "N"):
                a = self.as_scalar(binds, a, "factor of an array (%s)" % where)
                return binds, Val("MN", "Rt.mmap (fun x => %s * x) %s" % (atom(a.code), atom(b.code)))
            if op in "+-" and a.kind == "MN" and not a.wide and b.kind in ("S", "I", "N") and not b.unit:    # phase 4 (pyalgebraic)
                b = self.as_scalar(binds, b, "right operand of %s (%s)" % (op, where))
                return binds, Val("MN", "Rt.mmap (fun x => x %s %s) %s" % (op, atom(b.code), atom(a.code)))
            if op in "*/" and a.kind == "MN" and b.kind in ("S", "I", "N"):
                b = self.as_scalar(binds, b, "factor of an array (%s)" % where)
                return binds, Val("MN", "Rt.mmap (fun x => x %s %s) %s" % (op, atom(b.code), atom(a.code)))
            if a.kind == "VC" and b.kind in ("S", "I", "N") and not b.unit and op in "+-":      # phase 4 (pyalgebraic)
                b = self.as_scalar(binds, b, "right operand of %s (%s)" % (op, where))
                return binds, Val("VC", "List.map (fun z => (z.1 %s %s, z.2)) %s" % (op, atom(b.code), atom(a.code)))
            if b.kind == "VC" and a.kind in ("S", "I", "N") and not a.unit and op == "+":         # phase 4 (pyalgebraic)
                a = self.as_scalar(binds, a, "left operand of %s (%s)" % (op, where))
                return binds, Val("VC", "List.map (fun z => (%s + z.1, z.2)) %s" % (atom(a.code), atom(b.code)))
            if a.kind == "VC" and b.kind == "VC" and op == "/":                                   # phase 4 (pyalgebraic)
                t = self.tmp()
                binds.append(("bind", t, "Rt.czip Rt.cdiv %s %s" % (atom(a.code), atom(b.code))))
                return binds, Val("VC", t)
            if a.kind == "V" and b.kind in ("S", "I", "N") and not b.unit:        # phase 4 (pyalgebraic)
                b = self.as_scalar(binds, b, "right operand of %s (%s)" % (op, where))
                r = Val("V", "List.map (fun x => x %s %s) %s" % (op, atom(b.code), atom(a.code)))
                r.owned = True                   # a fresh array
                return binds, r
            if b.kind == "V" and a.kind in ("S", "I", "N") and not a.unit:        # phase 4 (pyalgebraic)
                a = self.as_scalar(binds, a, "left operand of %s (%s)" % (op, where))
                return binds, Val("V", "List.map (fun x => %s %s x) %s" % (atom(a.code), op, atom(b.code)))
            if a.kind == "M2N" and a.rows is not None and b.kind == "C" and b.comps is not None and len(b.comps) == 2 \
                    and op in "+-":                                                # phase 4 (pyalgebraic)
                self.struct_used |= set(a.rows)
                r = Val("MN", "[List.map (fun x => x %s %s) %s, List.map (fun x => x %s %s) %s]"
                        % (op, atom(b.comps[0]), a.rows[0], op, atom(b.comps[1]), a.rows[1]))
                r.owned = True                   # a fresh array
                return binds, r
            if self.is_int(a) and self.is_int(b) and op != "/":
                if op in "+*" and self.natlike(a) and self.natlike(b):
                    return binds, Val("N", "%s %s %s" % (atom(self.as_nat(a)), op, atom(self.as_nat(b))))
                return binds, Val("I", "%s %s %s" % (atom(self.as_int(a)), op, atom(self.as_int(b))))
            unit = a.unit or b.unit            # scalar (op) one-entry array = one-entry array
            a = self.as_scalar(binds, a, "left operand of %s (%s)" % (op, where))
            b = self.as_scalar(binds, b, "right operand of %s (%s)" % (op, where))
            r = Val("S", "%s %s %s" % (atom(a.code), op, atom(b.code)))
            r.unit = unit
            return binds, r
        if isinstance(node, ast.Compare):
            return self.compare(node, env, where)
        if isinstance(node, ast.BoolOp):
            return self.boolop(node, env, where)
        if isinstance(node, ast.Subscript):
            return self.subscript(node, env, where)
        if isinstance(node, ast.Call):
            return self.call(node, env, where)
        raise Problem("expression %s (%s)" % (type(node).__name__, where))

    SUB_FIELDS = {"start": ("S", "start"), "end": ("S", "stop"), "nodes": ("MN", "nodes")}

    def shape_of(self, binds, v, where):
        """`.shape` / `np.shape(.)`: a tuple of natural numbers (the rows of a 2-D array must have equal lengths)"""
        if v.kind == "M2N" and v.rows is not None:
            self.struct_used |= set(v.rows)
            t = self.tmp()
            binds.append(("bind", t, "Rt.shape2 %s %s" % (v.rows[0], v.rows[1])))
            comps = [Val("N", "(2 : Nat)"), Val("N", t)]
        elif v.kind == "MN":
            t = self.tmp()
            binds.append(("bind", t, "Rt.shape %s" % atom(v.code)))
            comps = [Val("N", "%s.1" % t), Val("N", "%s.2" % t)]
        elif v.kind == "S" and v.unit:
            comps = [Val("S", lit(1), intval=1)]
        elif v.kind == "V":
            comps = [Val("N", "List.length %s" % atom(v.code))]
        else:
            raise Problem("shape of a value of kind %r (%s)" % (v.kind, where))
        return Val(("tuple", tuple(c.kind for c in comps)), "(" + ", ".join(c.code for c in comps) + ")", comps=comps)

    def attribute(self, node, env, where):
        binds, base = self.tx(node.value, env)
        if node.attr == "shape":
            return binds, self.shape_of(binds, base, where)
        if base.kind == "V" and node.attr == "size":                       # phase 4 (pyalgebraic)
            return binds, Val("N", "List.length %s" % atom(base.code))
        if base.kind == "VC" and node.attr in ("real", "imag"):            # phase 4 (pyalgebraic)
            return binds, Val("V", "List.map (fun z => z.%d) %s" % (1 if node.attr == "real" else 2, atom(base.code)))
        if base.kind == "MN" and node.attr == "T":
            return binds, Val("MN", "Model.transpose %s" % atom(base.code))
        if base.kind == "SUB" and node.attr in self.SUB_FIELDS:
            kd, field = self.SUB_FIELDS[node.attr]
            return binds, Val(kd, "%s.%s" % (atom(base.code), field))
        raise Problem("attribute %s of a value of kind %r (%s)" % (node.attr, base.kind, where))

    def np_empty_kind(self, node, env=None):
        """`np.empty((2,), order="F")` -> "P" (the kind of the array once it is filled);
        `np.empty((d, 1, k), order="F")` -> ("W", d, k)"""
        if not (isinstance(node, ast.Call) and isinstance(node.func, ast.Attribute) and node.func.attr == "empty"
                and isinstance(node.func.value, ast.Name) and self.mod.aliases.get(node.func.value.id) == "numpy"):
            return None
        kw = {k.arg: k.value for k in node.keywords}
        if len(node.args) == 1 and set(kw) <= {"order"} and isinstance(node.args[0], ast.Tuple) and node.args[0].elts \
                and self.const_int(node.args[0].elts[-1]) == 0 and len(node.args[0].elts) <= 2:
            return None                         # phase 4 (pyalgebraic): an array without entries is a value (see prim_call)
        if len(node.args) == 1 and set(kw) <= {"order"} and isinstance(node.args[0], ast.Tuple) \
                and len(node.args[0].elts) == 1 and self.const_int(node.args[0].elts[0]) == 2:
            return "P"
        if len(node.args) == 1 and set(kw) <= {"order"} and isinstance(node.args[0], ast.Tuple) \
                and [self.const_int(e) for e in node.args[0].elts] == [2, 2]:
            return "J22"
        if len(node.args) == 1 and set(kw) <= {"order"} and isinstance(node.args[0], ast.Tuple) \
                and len(node.args[0].elts) == 3 and env is not None:
            vals = []
            for e in node.args[0].elts:
                b, v = self.tx(e, env)
                if b or not self.is_int(v):
                    raise Problem("np.empty with this shape (line %d)" % node.lineno)
                vals.append(v)
            if vals[1].kind == "S" and vals[1].intval == 1:
                return ("W", vals[0], vals[2])
        raise Problem("np.empty with this shape (line %d)" % node.lineno)

    def compare(self, node, env, where):
        binds = []
        vals = []
        for i, e in enumerate([node.left] + node.comparators):
            b, v = self.tx(e, env)
            if b and i >= 2:
                raise Problem("a later operand of a chained comparison can raise (it is evaluated lazily) (%s)" % where)
            binds += b
            vals.append(v)
        if len(vals) == 2 and vals[0].kind == "V" and vals[1].kind == "V":
            if not isinstance(node.ops[0], ast.LtE):
                raise Problem("array comparison other than <= (%s)" % where)
            t = self.tmp()
            binds.append(("bind", t, "Rt.vzip (fun x y => decide (x ≤ y)) %s %s" % (atom(vals[0].code), atom(vals[1].code))))
            return binds, Val("VB", t)
        if len(vals) == 2 and {vals[0].kind, vals[1].kind} == {"V", "S"} and not (vals[0].unit or vals[1].unit) \
                and isinstance(node.ops[0], (ast.Lt, ast.Gt, ast.LtE, ast.GtE)):
            # phase 4 (pyalgebraic): a 1-D array compared with a number, entry by entry
            op = node.ops[0]
            vfirst = vals[0].kind == "V"
            arr, num = (vals[0], vals[1]) if vfirst else (vals[1], vals[0])
            l, r = ("x", atom(num.code)) if vfirst else (atom(num.code), "x")
            if isinstance(op, (ast.Gt, ast.GtE)):
                l, r = r, l                       # a > b  is  b < a
            rel = "<" if isinstance(op, (ast.Lt, ast.Gt)) else "≤"
            return binds, Val("VB", "List.map (fun x => decide (%s %s %s)) %s" % (l, rel, r, atom(arr.code)))
        if len(vals) == 2 and vals[0].kind in ("C", "V") and isinstance(node.ops[0], ast.Eq) \
                and vals[1].kind == "S":
            return binds, Val("VB", "List.map (fun x => decide (x = %s)) %s" % (atom(vals[1].code), atom(vals[0].code)))
        if any(v.kind == "X" for v in vals):
            codes = []
            for op, a, b in zip(node.ops, vals, vals[1:]):
                x = atom(self.need(binds, a, "X", "operand of a comparison (%s)" % where).code)
                y = atom(self.need(binds, b, "X", "operand of a comparison (%s)" % where).code)
                if isinstance(op, ast.Lt):
                    codes.append("Rt.Ext.lt %s %s" % (x, y))
                elif isinstance(op, ast.Gt):
                    codes.append("Rt.Ext.lt %s %s" % (y, x))
                else:
                    raise Problem("comparison other than < / > with a possibly infinite operand (%s)" % where)
            return binds, Val("B", " && ".join(atom(c) if len(codes) > 1 else c for c in codes))
        if len(vals) == 2 and vals[0].kind == "E" and vals[1].kind == "E" and isinstance(node.ops[0], (ast.Eq, ast.NotEq)):
            vals = [Val("N", v.code) for v in vals]          # phase 4 (pyalgebraic): enum members are their integers
        if all(self.is_int(v) for v in vals):
            if all(self.natlike(v) for v in vals):
                vals = [Val("N", self.as_nat(v)) for v in vals]
            else:
                vals = [Val("I", self.as_int(v)) for v in vals]
        else:
            vals = [self.as_scalar(binds, v, "operand of a comparison (%s)" % where) for v in vals]
        props = []
        for op, a, b in zip(node.ops, vals, vals[1:]):
            x, y = atom(a.code), atom(b.code)
            if isinstance(op, ast.Lt):
                props.append("%s < %s" % (x, y))
            elif isinstance(op, ast.LtE):
                props.append("%s ≤ %s" % (x, y))
            elif isinstance(op, ast.Gt):
                props.append("%s < %s" % (y, x))          # a > b  is  b < a
            elif isinstance(op, ast.GtE):
                props.append("%s ≤ %s" % (y, x))
            elif isinstance(op, ast.Eq):
                props.append("%s = %s" % (x, y))
            elif isinstance(op, ast.NotEq):
                props.append("%s ≠ %s" % (x, y))
            else:
                raise Problem("comparison operator %s (%s)" % (type(op).__name__, where))
        code = " && ".join("decide (%s)" % p for p in props)
        prop = " ∧ ".join(props)
        return binds, Val("B", code, prop=prop)

    def boolop(self, node, env, where):
        is_and = isinstance(node.op, ast.And)
        parts = []
        for e in node.values:
            b, v = self.tx(e, env)
            if v.kind != "B":
                raise Problem("operand of and/or of kind %r (%s)" % (v.kind, where))
            parts.append((b, v))
        # fold from the right; an operand that can raise is only evaluated when reached
        b_acc, v_acc = parts[-1]
        for b, v in reversed(parts[:-1]):
            if not b_acc:
                code = "%s %s %s" % (atom(v.code), "&&" if is_and else "||", atom(v_acc.code))
                prop = None
                if v.prop is not None and v_acc.prop is not None:
                    prop = "%s %s %s" % (atom(v.prop), "∧" if is_and else "∨", atom(v_acc.prop))
                b_acc, v_acc = b, Val("B", code, prop=prop)
            else:
                inner = wrap(b_acc, Yield(v_acc.code))
                cond = v.prop if v.prop is not None else v.code
                if is_and:
                    code = MIf(cond, inner, Yield("false"), "Bool")
                else:
                    code = MIf(cond, Yield("true"), inner, "Bool")
                t = self.tmp()
                b_acc, v_acc = b + [("bind", t, code)], Val("B", t)
        return b_acc, v_acc

    def const_index(self, node, where):
        if isinstance(node, ast.Constant) and isinstance(node.value, int) and not isinstance(node.value, bool):
            return node.value
        if isinstance(node, ast.UnaryOp) and isinstance(node.op, ast.USub) and isinstance(node.operand, ast.Constant) \
                and isinstance(node.operand.value, int):
            return -node.operand.value
        raise Problem("non-constant index (%s)" % where)

    def const_index_opt(self, node):
        try:
            return self.const_index(node, "")
        except Problem:
            return None

    def row_read(self, binds, row, j, where):
        t = self.tmp()
        if j >= 0:
            binds.append(("bind", t, "Rt.idx %s %d" % (row, j)))
        elif j == -1:
            binds.append(("bind", t, "Rt.idxLast %s" % row))
        else:
            raise Problem("negative index %d (%s)" % (j, where))
        return t

    def subscript(self, node, env, where):
        binds, base = self.tx(node.value, env)
        sl = node.slice
        if is_opt(base.kind) and base.kind[2] == "none" and base.kind[1] in ("V", "MN"):
            # phase 4 (pyalgebraic): subscript of a maybe-None array (`TypeError` on None)
            base = self.need(binds, base, base.kind[1], "subscripted value (%s)" % where)
        if base.kind == "MN" and not base.wide and isinstance(sl, ast.Tuple) and len(sl.elts) == 2 \
                and isinstance(sl.elts[1], ast.Slice) and sl.elts[1].lower is None and sl.elts[1].upper is None \
                and sl.elts[1].step is None and self.const_index_opt(sl.elts[0]) is not None \
                and self.const_index_opt(sl.elts[0]) >= 0:
            # phase 4 (pyalgebraic): `m[i, :]` = row i of a 2-D array (`IndexError`: `badInput`)
            t = self.tmp()
            binds.append(("bind", t, "Rt.lidx %s %d" % (atom(base.code), self.const_index_opt(sl.elts[0]))))
            return binds, Val("V", t)
        if base.kind == "P":
            i = self.const_index(sl, where)
            if i not in (0, 1):
                raise Problem("index %d into a 2-entry array (%s)" % (i, where))
            if base.comps is not None:
                return binds, Val("S", base.comps[i])
            return binds, Val("S", "%s.%d" % (atom(base.code), i + 1))
        if base.kind == "MN" and base.wide:
            if not (isinstance(sl, ast.Tuple) and len(sl.elts) == 3 and all(
                    isinstance(x, ast.Slice) and x.lower is None and x.upper is None and x.step is None for x in sl.elts[:2])):
                raise Problem("subscript %s of a 3-D array (%s)" % (ast.unparse(node), where))
            last = sl.elts[2]
            if isinstance(last, ast.Slice):
                lo, hi = self.slice_bounds(binds, last, env, where)
                r = Val("MN", "Rt.cols %s %s %s" % (atom(base.code), lo, hi))
                r.wide = True
                return binds, r
            j = self.const_index(last, where)
            if j < 0:
                raise Problem("negative index %d (%s)" % (j, where))
            t = self.tmp()
            binds.append(("bind", t, "List.mapM (fun r => Rt.idx r %d) %s" % (j, atom(base.code))))
            return binds, Val("C", t)
        if base.kind == "S" and base.unit and not isinstance(sl, ast.Tuple):
            b2, iv = self.tx(sl, env)
            if not b2 and iv.kind == "S" and iv.intval == 0:
                return binds, base                   # the only entry
            raise Problem("subscript %s of a one-entry array (%s)" % (ast.unparse(node), where))
        if base.kind == "S" and base.unit:
            # a one-entry array: `x[np.newaxis, :]` is again a one-entry array
            if isinstance(sl, ast.Tuple) and len(sl.elts) == 2 and isinstance(sl.elts[1], ast.Slice) \
                    and sl.elts[1].lower is None and sl.elts[1].upper is None and sl.elts[1].step is None \
                    and isinstance(sl.elts[0], ast.Attribute) and sl.elts[0].attr == "newaxis" \
                    and isinstance(sl.elts[0].value, ast.Name) and self.mod.aliases.get(sl.elts[0].value.id) == "numpy":
                return binds, base
            raise Problem("subscript %s of a one-entry array (%s)" % (ast.unparse(node), where))
        if base.kind == "C" and isinstance(sl, ast.Tuple) and len(sl.elts) == 2:
            first, second = sl.elts
            if isinstance(first, ast.Slice) and first.lower is None and first.upper is None and first.step is None \
                    and self.const_index_opt(second) == 0:
                return binds, Val("V", base.code)
            raise Problem("subscript %s of a d x 1 array (%s)" % (ast.unparse(node), where))
        if base.kind == "MN" and isinstance(sl, ast.Tuple) and len(sl.elts) == 2 and isinstance(sl.elts[1], ast.List) \
                and len(sl.elts[1].elts) == 1:
            first = sl.elts[0]
            if not (isinstance(first, ast.Slice) and first.lower is None and first.upper is None and first.step is None):
                raise Problem("subscript %s (%s)" % (ast.unparse(node), where))
            b2, jv = self.tx(sl.elts[1].elts[0], env)
            binds += b2
            if not self.is_int(jv):
                raise Problem("column index of kind %r (%s)" % (jv.kind, where))
            t = self.tmp()
            if self.natlike(jv):
                binds.append(("bind", t, "List.mapM (fun r => Rt.idx r %s) %s" % (atom(self.as_nat(jv)), atom(base.code))))
            else:
                binds.append(("bind", t, "List.mapM (fun r => Rt.idxI r %s) %s" % (atom(self.as_int(jv)), atom(base.code))))
            return binds, Val("C", t)
        if is_tuple(base.kind):
            i = self.const_index(sl, where)
            n = len(base.kind[1])
            if not 0 <= i < n:
                raise Problem("index %d into a tuple of %d (%s)" % (i, n, where))
            if base.comps is not None:
                return binds, base.comps[i]
            proj = ".2" * i + (".1" if i < n - 1 else "")
            return binds, Val(base.kind[1][i], atom(base.code) + proj)
        if is_list(base.kind) and base.kind[1] is not None:
            b2, iv = self.tx(sl, env)
            binds += b2
            if not self.natlike(iv):
                raise Problem("index of kind %r into a list (%s)" % (iv.kind, where))
            t = self.tmp()
            binds.append(("bind", t, "Rt.lidx %s %s" % (atom(base.code), atom(self.as_nat(iv)))))
            return binds, Val(base.kind[1], t)
        if base.kind == "MN" and isinstance(sl, ast.Tuple) and len(sl.elts) == 2 and isinstance(sl.elts[1], ast.Slice):
            first, second = sl.elts
            if isinstance(first, ast.Slice) and first.lower is None and first.upper is None and first.step is None \
                    and second.lower is None and second.upper is None and self.const_int(second.step) == -1:
                return binds, Val("MN", "Rt.mrev %s" % atom(base.code))          # nodes[:, ::-1]
            if not (isinstance(first, ast.Slice) and first.lower is None and first.upper is None and first.step is None) \
                    or second.step is not None:
                raise Problem("subscript %s (%s)" % (ast.unparse(node), where))
            bounds = []
            for bnd in (second.lower, second.upper):
                if bnd is None:
                    bounds.append("none")
                else:
                    b2, bv = self.tx(bnd, env)
                    binds += b2
                    if not self.is_int(bv):
                        raise Problem("slice bound of kind %r (%s)" % (bv.kind, where))
                    bounds.append("(some %s)" % atom(self.as_int(bv)))
            return binds, Val("MN", "Rt.cols %s %s %s" % (atom(base.code), bounds[0], bounds[1]))
        if base.kind == "MN" and isinstance(sl, ast.Tuple) and len(sl.elts) == 2:
            first, second = sl.elts
            full = isinstance(first, ast.Slice) and first.lower is None and first.upper is None and first.step is None
            if full and not isinstance(second, ast.Slice):
                j = self.const_index(second, where)
                t = self.tmp()
                if j >= 0:
                    binds.append(("bind", t, "List.mapM (fun r => Rt.idx r %d) %s" % (j, atom(base.code))))
                elif j == -1:
                    binds.append(("bind", t, "List.mapM Rt.idxLast %s" % atom(base.code)))
                else:
                    raise Problem("negative index %d (%s)" % (j, where))
                return binds, Val("V", t)
        if base.kind == "M2N" and isinstance(sl, ast.Tuple) and len(sl.elts) == 2 and base.rows is not None \
                and isinstance(sl.elts[0], ast.Slice) and self.const_index_opt(sl.elts[1]) is None \
                and not isinstance(sl.elts[1], ast.Slice):
            first, second = sl.elts
            if not (first.lower is None and first.upper is None and first.step is None):
                raise Problem("subscript %s (%s)" % (ast.unparse(node), where))
            b2, jv = self.tx(second, env)
            binds += b2
            if not self.is_int(jv):
                raise Problem("column index of kind %r (%s)" % (jv.kind, where))
            self.struct_used |= set(base.rows)
            a, b = self.tmp(), self.tmp()
            prim = ("Rt.idx %s " + atom(jv.code)) if jv.kind == "N" else ("Rt.idxI %s " + atom(self.as_int(jv)))
            binds += [("bind", a, prim % base.rows[0]), ("bind", b, prim % base.rows[1])]
            return binds, Val("P", "(%s, %s)" % (a, b), comps=[a, b])
        if base.kind == "M2N" and base.rows is not None and isinstance(sl, ast.Tuple) and len(sl.elts) == 2 \
                and isinstance(sl.elts[1], ast.Slice) and sl.elts[1].lower is None and sl.elts[1].upper is None \
                and sl.elts[1].step is None and isinstance(sl.elts[0], ast.List) and len(sl.elts[0].elts) == 1 \
                and self.const_index_opt(sl.elts[0].elts[0]) in (0, 1):
            # phase 4 (pyalgebraic): `nodes[[i], :]` = the one-row array holding row i
            self.struct_used |= set(base.rows)
            return binds, Val("MN", "[%s]" % base.rows[self.const_index_opt(sl.elts[0].elts[0])])
        if base.kind == "M2N" and base.rows is not None and isinstance(sl, ast.Tuple) and len(sl.elts) == 2 \
                and isinstance(sl.elts[1], ast.Slice) and sl.elts[1].lower is None and sl.elts[1].upper is None \
                and sl.elts[1].step is None and self.const_index_opt(sl.elts[0]) in (0, 1, -1, -2):
            # phase 4 (pyalgebraic): `nodes[i, :]` = row i
            self.struct_used |= set(base.rows)
            return binds, Val("V", base.rows[self.const_index_opt(sl.elts[0]) % 2])
        if base.kind == "MN" and not base.wide and isinstance(sl, ast.Tuple) and len(sl.elts) == 2 \
                and not any(isinstance(x, (ast.Slice, ast.List)) for x in sl.elts):
            # phase 4 (pyalgebraic): `x[i, j]` of a 2-D array
            b2, iv = self.tx(sl.elts[0], env)
            b3, jv = self.tx(sl.elts[1], env)
            binds += b2 + b3
            if not (self.is_int(iv) and self.is_int(jv)):
                raise Problem("cell of a 2-D array with indices of kinds %r, %r (%s)" % (iv.kind, jv.kind, where))
            t = self.tmp()
            binds.append(("bind", t, "Rt.getCell %s %s %s" % (atom(base.code), atom(self.as_int(iv)), atom(self.as_int(jv)))))
            return binds, Val("S", t)
        if base.kind == "VC" and not isinstance(sl, (ast.Tuple, ast.Slice)):
            # phase 4 (pyalgebraic): `z[mask]` of a 1-D complex array
            b2, iv = self.tx(sl, env)
            binds += b2
            if iv.kind != "VB":
                raise Problem("index of kind %r into a complex array (%s)" % (iv.kind, where))
            t = self.tmp()
            binds.append(("bind", t, "Rt.mask %s %s" % (atom(base.code), atom(iv.code))))
            return binds, Val("VC", t)
        if base.kind == "V" and isinstance(sl, ast.Slice):
            # phase 4 (pyalgebraic): `v[lo:hi]`, `v[::-1]` of a 1-D array
            if sl.lower is None and sl.upper is None and self.const_int(sl.step) == -1:
                return binds, Val("V", "List.reverse %s" % atom(base.code))
            lo, hi = self.slice_bounds(binds, sl, env, where)
            return binds, Val("V", "Rt.slice %s %s %s" % (atom(base.code), lo, hi))
        if base.kind == "V" and not isinstance(sl, (ast.Tuple, ast.Slice)):
            # phase 4 (pyalgebraic): `v[i]` of a 1-D array
            b2, iv = self.tx(sl, env)
            binds += b2
            if iv.kind == "VB":                  # `v[mask]`
                t = self.tmp()
                binds.append(("bind", t, "Rt.mask %s %s" % (atom(base.code), atom(iv.code))))
                return binds, Val("V", t)
            if not self.is_int(iv):
                raise Problem("index of kind %r into a 1-D array (%s)" % (iv.kind, where))
            t = self.tmp()
            if self.natlike(iv):
                binds.append(("bind", t, "Rt.idx %s %s" % (atom(base.code), atom(self.as_nat(iv)))))
            else:
                binds.append(("bind", t, "Rt.idxI %s %s" % (atom(base.code), atom(self.as_int(iv)))))
            return binds, Val("S", t)
        if base.kind in ("M22", "M2N") and isinstance(sl, ast.Tuple) and len(sl.elts) == 2:
            first, second = sl.elts
            full = isinstance(first, ast.Slice) and first.lower is None and first.upper is None and first.step is None
            j = self.const_index(second, where)
            if base.kind == "M22":
                if base.cells is None:
                    raise Problem("index into a 2x2 array that is not a parameter / literal (%s)" % where)
                if j not in (0, 1, -1, -2):
                    raise Problem("column %d of a 2x2 array (%s)" % (j, where))
                j %= 2
                self.struct_used |= set(base.cells[0] + base.cells[1])
                if full:
                    return binds, Val("P", "(%s, %s)" % (base.cells[0][j], base.cells[1][j]),
                                      comps=[base.cells[0][j], base.cells[1][j]])
                i = self.const_index(first, where)
                if i not in (0, 1, -1, -2):
                    raise Problem("row %d of a 2x2 array (%s)" % (i, where))
                return binds, Val("S", base.cells[i % 2][j])
            if base.rows is None:
                raise Problem("index into a 2xN array that is not a parameter (%s)" % where)
            self.struct_used |= set(base.rows)
            if full:
                a = self.row_read(binds, base.rows[0], j, where)
                b = self.row_read(binds, base.rows[1], j, where)
                return binds, Val("P", "(%s, %s)" % (a, b), comps=[a, b])
            i = self.const_index(first, where)
            if i not in (0, 1, -1, -2):
                raise Problem("row %d of a 2xN array (%s)" % (i, where))
            return binds, Val("S", self.row_read(binds, base.rows[i % 2], j, where))
        raise Problem("subscript %s of a value of kind %r (%s)" % (ast.unparse(node), base.kind, where))

    # -------------------------------------------------------------- calls
    def call(self, node, env, where, stmt=False):
        f = node.func
        target = None          # ("fn", module, name) | ("np", dotted) | ("builtin", name)
        if isinstance(f, ast.Name) and f.id not in env and f.id in getattr(self, "fn_alias", {}):
            if stmt:                                 # phase 4 (pyalgebraic): call through a local name of an external function
                raise Problem("call whose result is discarded (%s)" % where)
            return self.abstract_call(node, self.fn_alias[f.id][0], self.fn_alias[f.id][1], env, where)
        if isinstance(f, ast.Name) and f.id not in env:
            if f.id in self.mod.funcs or (self.modname, f.id) in ABSTRACT:
                target = ("fn", self.modname, f.id)
            elif f.id in ("abs", "min", "max", "len", "float"):
                target = ("builtin", f.id)
        elif isinstance(f, ast.Attribute):
            chain = []
            cur = f
            while isinstance(cur, ast.Attribute):
                chain.append(cur.attr)
                cur = cur.value
            if isinstance(cur, ast.Name) and cur.id not in env:
                chain.reverse()
                al = self.mod.aliases.get(cur.id)
                if al == "numpy":
                    target = ("np", ".".join(chain))
                elif al == "bisect":
                    target = ("bisect", ".".join(chain))
                elif al is not None and len(chain) == 1:
                    target = ("fn", al, chain[0])
        if target is None:
            raise Problem("call of %s (%s)" % (ast.unparse(f), where))
        if target[0] == "fn":
            return self.fn_call(node, target[1], target[2], env, where, stmt)
        if stmt:
            raise Problem("call whose result is discarded (%s)" % where)
        return self.prim_call(node, target, env, where)

    def use_extra(self, x):
        if x not in self.extra:
            self.extra.append(x)
            self.extra.sort(key=lambda y: (y != "sqrt", y))

    def abstract_call(self, node, mod, fn, env, where):
        kinds, ret, can_raise = ABSTRACT[(mod, fn)]
        if node.keywords or len(node.args) != len(kinds):
            raise Problem("call of %s with this argument list (%s)" % (fn, where))
        binds, args = [], []
        for a, kd in zip(node.args, kinds):
            b, v = self.tx(a, env)
            binds += b
            want = "S" if kd == "S1" else kd
            if kd == "S1" and not v.unit:
                raise Problem("argument of %s must be a one-entry array (%s)" % (fn, where))
            if want == "S":
                v = self.as_scalar(binds, v, "argument of %s (%s)" % (fn, where))
            if want == "N" and self.natlike(v):                  # phase 4 (pyalgebraic)
                v = Val("N", self.as_nat(v))
            if want == "MN" and v.kind == "M2N":                 # phase 4 (pyalgebraic): a 2 x N array is a 2-D array
                v = Val("MN", v.code)
            if v.kind != want:
                raise Problem("argument of %s: kind %r where %r is required (%s)" % (fn, v.kind, kd, where))
            args.append(atom(v.code))
        self.use_extra((mod, fn))
        if not can_raise:
            return binds, Val(ret, "%s %s" % (fn, " ".join(args)))
        t = self.tmp()
        binds.append(("bind", t, "%s %s" % (fn, " ".join(args))))
        return binds, Val(ret, t)

    def fn_call(self, node, mod, fn, env, where, stmt=False):
        if (mod, fn) in ABSTRACT and not stmt:
            return self.abstract_call(node, mod, fn, env, where)
        if (mod, fn) not in self.tr.sigs:
            raise Problem("call of %s.%s, which is not in the signature table (%s)" % (mod, fn, where))
        callee = self.tr.function(mod, fn)
        if callee is None:
            raise Problem("call of %s, which could not be translated (%s)" % (fn, where))
        missing = callee.params[len(node.args):]
        if node.keywords or len(node.args) > len(callee.kinds) or any(isinstance(a, ast.Starred) for a in node.args) \
                or any(p not in callee.defaults for p in missing):
            raise Problem("call of %s with keyword / starred / missing arguments (%s)" % (fn, where))
        if callee.mut and not stmt:
            raise Problem("call of %s, which updates a list argument in place, inside an expression (%s)" % (fn, where))
        if stmt and not (callee.mut and callee.ret_none):
            raise Problem("call of %s whose result is discarded (%s)" % (fn, where))
        binds, args, muts = [], [], []
        for i, (a, kd, pn) in enumerate(zip(node.args, callee.kinds, callee.params)):
            b, v = self.tx(a, env)
            binds += b
            if i in callee.mut:
                if not (isinstance(a, ast.Name) and is_list(v.kind)) or a.id in self.ro_lists or \
                        any(n == a.id for n, _ in muts):
                    raise Problem("argument %s of %s is updated in place: it must be a list variable that this function "
                                  "may change (%s)" % (pn, fn, where))
                muts.append((a.id, ("list", kd[1])))
                v = self.need(binds, v, ("list", kd[1]), "argument %s of %s (%s)" % (pn, fn, where))
            elif kd == "S1":
                if not (v.kind == "S" and v.unit):
                    raise Problem("argument %s of %s must be a one-entry array (%s)" % (pn, fn, where))
            elif kd == "VW":                                     # phase 4 (pyalgebraic)
                if isinstance(a, ast.Name) or v.kind != "V":
                    raise Problem("argument %s of %s is overwritten in place: it must be a fresh 1-D array, not a variable "
                                  "(%s)" % (pn, fn, where))
            elif kd in ("M22", "M2N", "MN", "SUB", "C"):
                if v.kind != kd:
                    raise Problem("argument %s of %s: kind %r where %r is required (%s)" % (pn, fn, v.kind, kd, where))
            else:
                v = self.need(binds, v, kd, "argument %s of %s (%s)" % (pn, fn, where))
            args.append(atom(v.code))
        for pn in missing:
            args.append(lit(callee.defaults[pn]))
        for x in callee.uses_sqrt:
            self.use_extra(x)
        args = [x if x == "sqrt" else x[1] for x in callee.uses_sqrt] + args
        code = "%s %s" % (lean_fn_name(mod, fn), " ".join(args))
        if callee.monadic:
            t = self.tmp()
            binds.append(("bind", t, code))
            code = t
        if stmt:
            return binds, Val(callee.ret, code), muts
        return binds, Val(callee.ret, code)

    def prim_call(self, node, target, env, where):
        name = target[1]
        kw = {k.arg: k.value for k in node.keywords}
        if None in kw:
            raise Problem("**kwargs (%s)" % where)

        def kw_is(key, value):
            return key in kw and isinstance(kw[key], ast.Constant) and kw[key].value == value and \
                type(kw[key].value) is type(value)
        if target[0] == "np" and name in ("asfortranarray", "array") and len(node.args) == 1 and not kw \
                and isinstance(node.args[0], ast.List) and len(node.args[0].elts) != 1:
            elts = node.args[0].elts
            binds = []
            if len(elts) == 2 and all(isinstance(e, ast.List) and len(e.elts) == 2 for e in elts):
                cells = []
                for r in elts:
                    row = []
                    for e in r.elts:
                        b, v = self.tx(e, env)
                        binds += b
                        row.append(atom(self.need(binds, v, "S", "array entry (%s)" % where).code))
                    cells.append(row)
                return binds, Val("M22", "[[%s, %s], [%s, %s]]" % (cells[0][0], cells[0][1], cells[1][0], cells[1][1]),
                                  cells=cells)
            if len(elts) == 2 and not any(isinstance(e, (ast.List, ast.Tuple, ast.Starred)) for e in elts):
                comps = []
                for e in elts:
                    b, v = self.tx(e, env)
                    binds += b
                    comps.append(atom(self.need(binds, v, "S", "array entry (%s)" % where).code))
                return binds, Val("P", "(%s, %s)" % (comps[0], comps[1]), comps=comps)
            if len(elts) == 2 and all(isinstance(e, ast.List) and len(e.elts) == 1 and not isinstance(
                    e.elts[0], (ast.List, ast.Tuple, ast.Starred)) for e in elts):
                # phase 4 (pyalgebraic): `[[a], [b]]`, a 2 x 1 column
                comps = []
                for e in elts:
                    b, v = self.tx(e.elts[0], env)
                    binds += b
                    comps.append(atom(self.need(binds, v, "S", "array entry (%s)" % where).code))
                return binds, Val("C", "[%s, %s]" % (comps[0], comps[1]), comps=comps)
            if len(elts) >= 3 and not any(isinstance(e, (ast.List, ast.Tuple, ast.Starred)) for e in elts):
                # phase 4 (pyalgebraic): a 1-D array literal with three or more entries
                cs = []
                for e in elts:
                    b, v = self.tx(e, env)
                    binds += b
                    cs.append(self.as_scalar(binds, v, "array entry (%s)" % where).code)
                return binds, Val("V", "[" + ", ".join(cs) + "]")
            raise Problem("array literal of unsupported shape (%s)" % where)
        if target[0] == "np" and name in ("min", "max") and len(node.args) == 1 and set(kw) == {"axis"} and kw_is("axis", 1):
            binds, v = self.tx(node.args[0], env)
            prim = "Rt.npMin" if name == "min" else "Rt.npMax"
            if v.kind == "M2N" and v.rows is not None:
                self.struct_used |= set(v.rows)
                a, b = self.tmp(), self.tmp()
                binds += [("bind", a, "%s %s" % (prim, v.rows[0])), ("bind", b, "%s %s" % (prim, v.rows[1]))]
                return binds, Val("P", "(%s, %s)" % (a, b), comps=[a, b])
            if v.kind == "MN":
                t = self.tmp()
                binds.append(("bind", t, "List.mapM %s %s" % (prim, atom(v.code))))
                return binds, Val("V", t)
            raise Problem("np.%s(axis=1) of a value of kind %r (%s)" % (name, v.kind, where))
        if target[0] == "np" and name in ("asfortranarray", "array") and len(node.args) == 1 and not kw \
                and isinstance(node.args[0], ast.List) and len(node.args[0].elts) == 1 \
                and not isinstance(node.args[0].elts[0], (ast.List, ast.Tuple, ast.Starred)):
            binds, v = self.tx(node.args[0].elts[0], env)
            v = self.as_scalar(binds, v, "array entry (%s)" % where)
            r = Val("S", v.code)
            r.unit = True
            return binds, r
        if target[0] == "np" and name == "zeros" and len(node.args) == 1 and set(kw) <= {"order"} \
                and isinstance(node.args[0], ast.Attribute) and node.args[0].attr == "shape":
            # phase 4 (pyalgebraic): `np.zeros(v.shape)` for a 1-D array v
            binds, v = self.tx(node.args[0].value, env)
            if v.kind != "V":
                raise Problem("np.zeros(x.shape) of a value of kind %r (%s)" % (v.kind, where))
            return binds, Val("V", "List.replicate (List.length %s) (0 : K)" % atom(v.code))
        if target[0] == "np" and name == "empty" and len(node.args) == 1 and set(kw) <= {"order"} \
                and isinstance(node.args[0], ast.Tuple) and [self.const_int(e) for e in node.args[0].elts] == [0, 0]:
            # phase 4 (pyalgebraic): the array without entries
            return [], Val("MN", "([] : List (List K))")
        if target[0] == "np" and name == "empty" and len(node.args) == 1 and set(kw) <= {"order"} \
                and isinstance(node.args[0], ast.Tuple) and len(node.args[0].elts) == 2 \
                and self.const_int(node.args[0].elts[0]) is not None and 0 <= self.const_int(node.args[0].elts[0]) <= 4 \
                and self.const_int(node.args[0].elts[1]) == 0:
            # phase 4 (pyalgebraic): `np.empty((d, 0))`: d rows without entries
            return [], Val("MN", "([%s] : List (List K))" % ", ".join(["[]"] * self.const_int(node.args[0].elts[0])))
        if target[0] == "np" and name == "empty" and len(node.args) == 1 and set(kw) <= {"order"} \
                and isinstance(node.args[0], ast.Tuple) and [self.const_int(e) for e in node.args[0].elts] == [0]:
            # phase 4 (pyalgebraic): the 1-D array without entries
            return [], Val("V", "([] : List K)")
        if target[0] == "np" and name == "hstack" and len(node.args) == 1 and not kw and isinstance(node.args[0], ast.List) \
                and len(node.args[0].elts) == 2:
            # phase 4 (pyalgebraic): concatenation of two 1-D arrays (a real one next to a complex one is converted)
            binds, a = self.tx(node.args[0].elts[0], env)
            b2, b = self.tx(node.args[0].elts[1], env)
            binds += b2
            if a.kind not in ("V", "VC") or b.kind not in ("V", "VC"):
                raise Problem("np.hstack of kinds %r, %r (%s)" % (a.kind, b.kind, where))
            kd = unify(a.kind, b.kind)
            return binds, Val(kd, "%s ++ %s" % (atom(self.coerce(a, kd)), atom(self.coerce(b, kd))))
        if target[0] == "np" and name == "linalg.eigvals" and len(node.args) == 1 and not kw:
            # phase 4 (pyalgebraic): external, an explicit parameter of the generated definition
            binds, v = self.tx(node.args[0], env)
            if v.kind != "MN" or v.wide:
                raise Problem("np.linalg.eigvals of a value of kind %r (%s)" % (v.kind, where))
            self.use_extra(("numpy", "np_linalg_eigvals"))
            return binds, Val("VC", "np_linalg_eigvals %s" % atom(v.code))
        if target[0] == "np" and name == "eye" and len(node.args) == 1 and set(kw) <= {"order"}:
            # phase 4 (pyalgebraic): the identity matrix
            binds, v = self.tx(node.args[0], env)
            if not self.natlike(v):
                raise Problem("np.eye of a value of kind %r (%s)" % (v.kind, where))
            return binds, Val("MN", "Model.identity %s" % atom(self.as_nat(v)))
        if target[0] == "np" and name == "linalg.matrix_rank" and len(node.args) == 1 and not kw:
            # phase 4 (pyalgebraic): external, an explicit parameter of the generated definition
            binds, v = self.tx(node.args[0], env)
            if v.kind != "MN" or v.wide:
                raise Problem("np.linalg.matrix_rank of a value of kind %r (%s)" % (v.kind, where))
            self.use_extra(("numpy", "np_linalg_matrix_rank"))
            return binds, Val("N", "np_linalg_matrix_rank %s" % atom(v.code))
        if target[0] == "np" and name == "argmin" and len(node.args) == 1 and not kw:
            # phase 4 (pyalgebraic)
            binds, v = self.tx(node.args[0], env)
            if v.kind != "V":
                raise Problem("np.argmin of a value of kind %r (%s)" % (v.kind, where))
            t = self.tmp()
            binds.append(("bind", t, "Rt.argmin %s" % atom(v.code)))
            return binds, Val("N", t)
        if target[0] == "np" and name == "sqrt" and len(node.args) == 1 and not kw:
            # phase 4 (pyalgebraic): the abstract `sqrt`
            binds, v = self.tx(node.args[0], env)
            v = self.as_scalar(binds, v, "argument of np.sqrt (%s)" % where)
            self.use_extra("sqrt")
            return binds, Val("S", "sqrt %s" % atom(v.code))
        if target[0] == "np" and name == "linalg.det" and len(node.args) == 1 and not kw:
            # phase 4 (pyalgebraic): external, an explicit parameter of the generated definition
            binds, v = self.tx(node.args[0], env)
            if v.kind != "MN" or v.wide:
                raise Problem("np.linalg.det of a value of kind %r (%s)" % (v.kind, where))
            self.use_extra(("numpy", "np_linalg_det"))
            return binds, Val("S", "np_linalg_det %s" % atom(v.code))
        if target[0] == "np" and name in ("zeros", "ones") and len(node.args) == 1 and set(kw) <= {"order"} \
                and isinstance(node.args[0], ast.Tuple) and len(node.args[0].elts) == 2:
            binds, d0 = self.tx(node.args[0].elts[0], env)
            b2, d1 = self.tx(node.args[0].elts[1], env)
            binds += b2
            if name == "zeros" and self.natlike(d0) and self.natlike(d1) and not (d1.kind == "S" and d1.intval == 1):
                # phase 4 (pyalgebraic): the a x b zero array, created here (may be overwritten in place)
                r = Val("MN", "Rt.mfill %s %s (0 : K)" % (atom(self.as_nat(d0)), atom(self.as_nat(d1))))
                r.owned = True
                return binds, r
            if d1.kind == "S" and d1.intval == 1 and name == "zeros" and self.natlike(d0):
                r = Val("C", "List.replicate %s (0 : K)" % atom(self.as_nat(d0)))
                r.owned = True
                return binds, r
            if d1.kind == "S" and d1.intval == 1 and d0.kind == "S" and d0.intval == 1 and name == "ones":
                r = Val("S", "(1 : K)")
                r.unit = True
                return binds, r
            raise Problem("np.%s with this shape (%s)" % (name, where))
        if target[0] == "np" and name in ("asfortranarray", "array") and len(node.args) == 1 and not kw \
                and not isinstance(node.args[0], ast.List):
            binds, v = self.tx(node.args[0], env)
            if v.kind != "MN" or isinstance(node.args[0], ast.Name):
                raise Problem("np.%s of a value of kind %r / of a variable (a possible alias) (%s)" % (name, v.kind, where))
            return binds, v
        if ((target[0] == "np" and name in ("abs", "absolute")) or target == ("builtin", "abs")) and len(node.args) == 1 and not kw:
            binds, v = self.tx(node.args[0], env)
            if v.kind == "MN" and target[0] == "np":
                return binds, Val("MN", "Rt.mmap Model.absK %s" % atom(v.code))
            if v.kind == "V" and target[0] == "np":          # phase 4 (pyalgebraic)
                return binds, Val("V", "List.map Model.absK %s" % atom(v.code))
            if v.kind == "VC" and target[0] == "np":         # phase 4 (pyalgebraic): modulus through the abstract sqrt
                self.use_extra("sqrt")
                return binds, Val("V", "List.map (fun z => sqrt (z.1 * z.1 + z.2 * z.2)) %s" % atom(v.code))
            v = self.need(binds, v, "S", "argument of abs (%s)" % where)
            return binds, Val("S", "Model.absK %s" % atom(v.code))
        if target == ("bisect", "bisect_left") and len(node.args) == 2 and not kw:
            # the standard-library routine, as transcribed in Model.bisectLeft (lo = 0, hi = len, fuel = len + 1)
            binds, a = self.tx(node.args[0], env)
            b2, b = self.tx(node.args[1], env)
            binds += b2
            if a.kind != ("list", "N") or not self.natlike(b):
                raise Problem("bisect_left of kinds %r, %r (%s)" % (a.kind, b.kind, where))
            la = atom(a.code)
            return binds, Val("N", "Model.bisectLeft %s %s (List.length %s + 1) 0 (List.length %s)"
                              % (la, atom(self.as_nat(b)), la, la))
        if target == ("builtin", "len") and len(node.args) == 1 and not kw:
            binds, v = self.tx(node.args[0], env)
            if not (is_list(v.kind) or v.kind == "V"):
                raise Problem("len of a value of kind %r (%s)" % (v.kind, where))
            return binds, Val("N", "List.length %s" % atom(v.code))
        if target == ("builtin", "float") and len(node.args) == 1 and not kw:
            binds, v = self.tx(node.args[0], env)
            return binds, self.as_scalar(binds, v, "argument of float (%s)" % where)
        if target == ("np", "shape") and len(node.args) == 1 and not kw:
            binds, v = self.tx(node.args[0], env)
            return binds, self.shape_of(binds, v, where)
        if target[0] == "builtin" and name in ("min", "max") and len(node.args) == 2 and not kw:
            binds, a = self.tx(node.args[0], env)
            b2, b = self.tx(node.args[1], env)
            binds += b2
            if a.kind == "X" or b.kind == "X":
                a = self.need(binds, a, "X", "argument of %s (%s)" % (name, where))
                b = self.need(binds, b, "X", "argument of %s (%s)" % (name, where))
                return binds, Val("X", "Rt.Ext.%s %s %s" % (name, atom(a.code), atom(b.code)))
            a = self.need(binds, a, "S", "argument of %s (%s)" % (name, where))
            b = self.need(binds, b, "S", "argument of %s (%s)" % (name, where))
            return binds, Val("S", "Model.%sK %s %s" % (name, atom(a.code), atom(b.code)))
        if target[0] == "np" and name == "vdot" and len(node.args) == 2 and not kw:
            binds, a = self.tx(node.args[0], env)
            b2, b = self.tx(node.args[1], env)
            binds += b2
            if a.kind == "V" and b.kind == "V":
                return binds, Val("S", "Model.dot %s %s" % (atom(a.code), atom(b.code)))
            if a.kind != "P" or b.kind != "P":
                raise Problem("np.vdot of kinds %r, %r (%s)" % (a.kind, b.kind, where))
            return binds, Val("S", "Model.dot2 %s %s" % (atom(a.code), atom(b.code)))
        if target[0] == "np" and name == "dot" and len(node.args) == 2 and not kw:
            binds, a = self.tx(node.args[0], env)
            b2, b = self.tx(node.args[1], env)
            binds += b2
            if a.kind != "MN" or b.kind != "MN":
                raise Problem("np.dot of kinds %r, %r (%s)" % (a.kind, b.kind, where))
            t = self.tmp()
            binds.append(("bind", t, "Rt.npDot %s %s" % (atom(a.code), atom(b.code))))
            return binds, Val("MN", t)
        if target[0] == "np" and name == "all" and len(node.args) == 1 and not kw:
            binds, v = self.tx(node.args[0], env)
            if v.kind != "VB":
                raise Problem("np.all of kind %r (%s)" % (v.kind, where))
            return binds, Val("B", "List.all %s id" % atom(v.code))
        if target[0] == "np" and name == "linalg.norm" and len(node.args) == 1 and set(kw) == {"ord"} and kw_is("ord", 2):
            binds, v = self.tx(node.args[0], env)
            if v.kind != "V":
                raise Problem("np.linalg.norm of kind %r (%s)" % (v.kind, where))
            self.use_extra("sqrt")
            return binds, Val("S", "sqrt (Model.normSq %s)" % atom(v.code))
        raise Problem("call of %s%s with this argument list is not a supported primitive (%s)"
                      % ("np." if target[0] == "np" else "bisect." if target[0] == "bisect" else "", name, where))


HEADER = """\
/- GENERATED by harness/translate_py.py from the pure-Python sources of /repo's working tree on every
   run; do not edit.  One definition per translated function; the equalities with the hand-written
   model are proved in Tables/SrcPy.lean, Tables/SrcPyReal.lean and Tables/SrcPyKernels.lean. -/
import BezierVerif.Model.Basic
import BezierVerif.Model.Curve
import BezierVerif.Model.Solve2x2
import BezierVerif.Model.Helpers
import BezierVerif.Model.Geometric
import BezierVerif.Model.Newton

set_option linter.unusedVariables false

namespace BezierVerif.Src.Py

open BezierVerif
open BezierVerif.Model (Err Pt)

variable {K : Type} [Add K] [Sub K] [Mul K] [Div K] [Neg K] [OfNat K 0] [OfNat K 1] [NatCast K]
  [LT K] [DecidableLT K] [LE K] [DecidableLE K] [DecidableEq K]

"""


def main():
    out = OUT
    argv = sys.argv[1:]
    if len(argv) == 2 and argv[0] == "--out":
        out = argv[1]
    elif argv:
        print("usage: translate_py.py [--out FILE]")
        sys.exit(2)
    tr = Translator()
    for mod, fn, _ in SIGS:
        tr.function(mod, fn)
    parts = []
    n_ok = 0
    for key in tr.order:
        t = tr.done[key]
        if t is None:
            parts.append("-- NOT TRANSLATED: %s.%s (see the EXTRACT-PROBLEM line of this run)\n" % key)
        else:
            parts.append(t.text)
            n_ok += 1
    enums = "".join("def %s : Nat := %d\n" % (n, v) for n, v in sorted(tr.enums.items()))
    if enums:
        enums = "/-! ## integer attributes of plain classes (enum values) -/\n" + enums + "\n"
    for lean, ((cmod, cname), vals) in sorted(getattr(tr, "const_arrays", {}).items()):      # phase 4 (pyalgebraic)
        enums += "/-- module constant `%s` of hazmat/%s.py (exact binary64 values) -/\ndef %s : List K :=\n  [%s]\n\n" % (
            cname, cmod, lean, ",\n   ".join(lit(v) for v in vals))
    text = HEADER + RUNTIME + "\n" + enums + "/-! ## translated functions -/\n\n" + "\n".join(parts) + "\nend BezierVerif.Src.Py\n"
    old = None
    if os.path.exists(out):
        with open(out) as fh:
            old = fh.read()
    if old != text:
        os.makedirs(os.path.dirname(out), exist_ok=True)
        with open(out + ".tmp", "w") as fh:
            fh.write(text)
        os.replace(out + ".tmp", out)
    for p in tr.problems:
        print("EXTRACT-PROBLEM srcpy: " + p)
    print("translated %d of %d functions (%s)" % (n_ok, len(SIGS), "changed" if old != text else "unchanged"))


if __name__ == "__main__":
    main()
