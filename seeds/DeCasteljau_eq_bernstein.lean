import Mathlib.Data.Nat.Choose.Sum
import Mathlib.Algebra.BigOperators.Ring.Finset
import Mathlib.Algebra.BigOperators.Intervals
import Mathlib.Tactic.Ring
import Mathlib.Tactic.Linarith
import Mathlib.Tactic.FieldSimp

open Finset

variable {K : Type*} [Field K]

def bern (n : ℕ) (a b : K) (v : ℕ → K) : K :=
  ∑ j ∈ range (n+1), (n.choose j : K) * a^(n-j) * b^j * v j

def dc (a b : K) : ℕ → (ℕ → K) → K
  | 0, v => v 0
  | n+1, v => dc a b n (fun j => a * v j + b * v (j+1))

theorem bern_succ (a b : K) (n : ℕ) (v : ℕ → K) :
    bern (n+1) a b v = a * bern n a b v + b * bern n a b (fun j => v (j+1)) := by
  unfold bern
  rw [Finset.sum_range_succ' _ (n+1)]
  -- LHS: sum_{j<n+1} C(n+1,j+1) a^(n+1-(j+1)) b^(j+1) v(j+1) + C(n+1,0) a^(n+1) v 0
  simp only [Nat.choose_succ_succ', Nat.cast_add, Nat.choose_zero_right, Nat.cast_one, pow_zero,
    mul_one, one_mul, Nat.sub_zero, Nat.add_sub_add_right]
  rw [Finset.mul_sum, Finset.mul_sum]
  -- a * sum_{j<=n} C(n,j) a^(n-j) b^j v j : split off j=0 and shift
  rw [Finset.sum_range_succ' (fun j => a * ((n.choose j : K) * a^(n-j) * b^j * v j)) n]
  simp only [Nat.choose_zero_right, Nat.cast_one, pow_zero, mul_one, one_mul, Nat.sub_zero]
  rw [Finset.sum_range_succ (fun j => ((n.choose j : K) + (n.choose (j+1) : K)) * a^(n-j) * b^(j+1) * v (j+1)) n]
  rw [Finset.sum_range_succ (fun j => b * ((n.choose j : K) * a^(n-j) * b^j * v (j+1))) n]
  simp only [Nat.choose_succ_self, Nat.cast_zero, add_zero, Nat.sub_self, pow_zero, mul_one, Nat.choose_self, Nat.cast_one, one_mul]
  have h : ∀ j ∈ range n, ((n.choose j : K) + (n.choose (j+1) : K)) * a^(n-j) * b^(j+1) * v (j+1)
      = a * ((n.choose (j+1) : K) * a^(n-(j+1)) * b^(j+1) * v (j+1)) + b * ((n.choose j : K) * a^(n-j) * b^j * v (j+1)) := by
    intro j hj
    have : n - j = (n - (j+1)) + 1 := by have := mem_range.mp hj; omega
    rw [this]; ring_nf
  rw [Finset.sum_congr rfl h, Finset.sum_add_distrib]
  ring

theorem dc_eq_bern (a b : K) : ∀ (n : ℕ) (v : ℕ → K), dc a b n v = bern n a b v := by
  intro n
  induction n with
  | zero => intro v; simp [dc, bern]
  | succ n ih =>
    intro v
    rw [dc, ih, bern_succ]
    unfold bern
    rw [Finset.mul_sum, Finset.mul_sum, ← Finset.sum_add_distrib]
    apply Finset.sum_congr rfl
    intro j _; ring
#print axioms dc_eq_bern
