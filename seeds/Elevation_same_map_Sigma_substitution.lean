import Mathlib.Data.Nat.Choose.Sum
import Mathlib.Algebra.BigOperators.Ring.Finset
import Mathlib.Algebra.BigOperators.Intervals
import Mathlib.Algebra.Order.Field.Basic
import Mathlib.Tactic.Ring
import Mathlib.Tactic.Linarith
import Mathlib.Tactic.FieldSimp
import Mathlib.Tactic.LinearCombination
import Mathlib.Algebra.CharZero.Defs
import Mathlib.Data.Nat.Cast.Field

/-! Seeds for C08 (degree elevation is the same map, all degrees) and
    C19 (the σ = s/(1-s) substitution behind `bernstein_companion`). -/
open Finset
set_option linter.unusedSectionVars false
variable {K : Type*} [Field K] [CharZero K]

def bern (n : ℕ) (a b : K) (v : ℕ → K) : K :=
  ∑ j ∈ range (n+1), (n.choose j : K) * a^(n-j) * b^j * v j

theorem bern_succ (a b : K) (n : ℕ) (v : ℕ → K) :
    bern (n+1) a b v = a * bern n a b v + b * bern n a b (fun j => v (j+1)) := by
  unfold bern
  rw [Finset.sum_range_succ' _ (n+1)]
  simp only [Nat.choose_succ_succ', Nat.cast_add, Nat.choose_zero_right, Nat.cast_one, pow_zero,
    mul_one, one_mul, Nat.sub_zero, Nat.add_sub_add_right]
  rw [Finset.mul_sum, Finset.mul_sum]
  rw [Finset.sum_range_succ' (fun j => a * ((n.choose j : K) * a^(n-j) * b^j * v j)) n]
  simp only [Nat.choose_zero_right, Nat.cast_one, pow_zero, mul_one, one_mul, Nat.sub_zero]
  rw [Finset.sum_range_succ (fun j => ((n.choose j : K) + (n.choose (j+1) : K)) * a^(n-j) * b^(j+1) * v (j+1)) n]
  rw [Finset.sum_range_succ (fun j => b * ((n.choose j : K) * a^(n-j) * b^j * v (j+1))) n]
  simp only [Nat.choose_succ_self, Nat.cast_zero, add_zero, Nat.sub_self, pow_zero, mul_one, Nat.choose_self, Nat.cast_one, one_mul]
  have h : ∀ j ∈ range n, ((n.choose j : K) + (n.choose (j+1) : K)) * a^(n-j) * b^(j+1) * v (j+1)
      = a * ((n.choose (j+1) : K) * a^(n-(j+1)) * b^(j+1) * v (j+1)) + b * ((n.choose j : K) * a^(n-j) * b^j * v (j+1)) := by
    intro j hj
    have : n - j = (n - (j+1)) + 1 := by have := mem_range.mp hj; omega
    rw [this]; ring_nf
  rw [Finset.sum_congr rfl h, Finset.sum_add_distrib]
  ring

/-- the library's elevation formula  w_j = (j v_{j-1} + (n+1-j) v_j)/(n+1)  (with w_0 = v_0, w_{n+1} = v_n) -/
def elevate (n : ℕ) (v : ℕ → K) : ℕ → K := fun j =>
  ((j : K) * v (j-1) + ((n+1-j : ℕ) : K) * v j) / ((n+1 : ℕ) : K)

/-- key coefficient identity: C(n+1,j) w_j = C(n,j-1) v_{j-1} + C(n,j) v_j -/
theorem choose_elevate (n j : ℕ) (hj : j ≤ n+1) (v : ℕ → K) :
    ((n+1).choose j : K) * elevate n v j
      = (if j = 0 then 0 else (n.choose (j-1) : K) * v (j-1)) + (n.choose j : K) * v j := by
  unfold elevate
  have hn : ((n+1 : ℕ) : K) ≠ 0 := Nat.cast_ne_zero.mpr (Nat.succ_ne_zero n)
  rcases Nat.eq_zero_or_pos j with rfl | hpos
  · simp; field_simp
  · obtain ⟨i, rfl⟩ : ∃ i, j = i + 1 := ⟨j - 1, by omega⟩
    simp only [Nat.add_sub_cancel, Nat.succ_ne_zero, if_false]
    -- C(n+1,i+1)(i+1) = (n+1) C(n,i) ;  C(n+1,i+1)(n-i) = (n+1) C(n,i+1)
    have h1 : ((n+1).choose (i+1) : K) * ((i+1 : ℕ) : K) = ((n+1 : ℕ) : K) * (n.choose i : K) := by
      exact_mod_cast (Nat.add_one_mul_choose_eq n i).symm
    have h2 : ((n+1).choose (i+1) : K) * ((n + 1 - (i+1) : ℕ) : K) = ((n+1 : ℕ) : K) * (n.choose (i+1) : K) := by
      have e : n + 1 - (i+1) = n - i := by omega
      rw [e]
      have := Nat.choose_succ_right_eq n i   -- C(n,i+1)(i+1) = C(n,i)(n-i)
      have h3 : (n+1).choose (i+1) = n.choose i + n.choose (i+1) := Nat.choose_succ_succ' n i
      have key : (n+1).choose (i+1) * (n - i) = (n+1) * n.choose (i+1) := by
        rw [h3, add_mul, ← this]
        have hi : i ≤ n := by omega
        have : n.choose (i+1) * (i+1) + n.choose (i+1) * (n-i) = n.choose (i+1) * (n+1) := by
          rw [← mul_add]; congr 1; omega
        linarith [this, Nat.mul_comm (n+1) (n.choose (i+1))]
      exact_mod_cast key
    field_simp
    linear_combination (v i) * h1 + (v (i+1)) * h2

/-- C08: the elevated control sequence defines (a+b)·(the same map); with a+b=1 the same map. -/
theorem elevate_same_map (n : ℕ) (a b : K) (v : ℕ → K) :
    bern (n+1) a b (elevate n v) = (a + b) * bern n a b v := by
  -- expand LHS with choose_elevate, RHS with bern_succ-style splitting
  unfold bern
  have step : ∀ j ∈ range (n+1+1),
      ((n+1).choose j : K) * a^(n+1-j) * b^j * elevate n v j
        = a^(n+1-j) * b^j * ((if j = 0 then 0 else (n.choose (j-1) : K) * v (j-1)) + (n.choose j : K) * v j) := by
    intro j hj
    have hj' : j ≤ n+1 := by have := mem_range.mp hj; omega
    rw [← choose_elevate n j hj' v]; ring
  rw [Finset.sum_congr rfl step]
  simp only [mul_add, Finset.sum_add_distrib]
  -- first sum: shift index; second sum: top term vanishes
  rw [Finset.sum_range_succ' (fun j => a^(n+1-j) * b^j * (if j = 0 then 0 else (n.choose (j-1) : K) * v (j-1))) (n+1)]
  rw [Finset.sum_range_succ (fun j => a^(n+1-j) * b^j * ((n.choose j : K) * v j)) (n+1)]
  simp only [Nat.choose_succ_self, Nat.cast_zero, zero_mul, mul_zero, add_zero, if_true,
    Nat.succ_ne_zero, if_false, Nat.add_sub_cancel, Nat.add_sub_add_right]
  rw [add_mul, Finset.mul_sum, Finset.mul_sum, add_comm]
  congr 1
  · apply Finset.sum_congr rfl
    intro j hj
    have : n + 1 - j = (n - j) + 1 := by have := mem_range.mp hj; omega
    rw [this]; ring
  · apply Finset.sum_congr rfl
    intro j _
    ring

/-- C19: the σ-substitution.  For s ≠ 1 and σ = s/(1-s):  bern n (1-s) s c = (1-s)^n · Σ C(n,j) σ^j c_j -/
theorem sigma_substitution (n : ℕ) (s : K) (hs : 1 - s ≠ 0) (c : ℕ → K) :
    bern n (1-s) s c = (1-s)^n * ∑ j ∈ range (n+1), (n.choose j : K) * (s/(1-s))^j * c j := by
  unfold bern
  rw [Finset.mul_sum]
  apply Finset.sum_congr rfl
  intro j hj
  have hj' : j ≤ n := by have := mem_range.mp hj; omega
  have e : (1-s)^n = (1-s)^(n-j) * (1-s)^j := by rw [← pow_add]; congr 1; omega
  rw [e, div_pow]
  field_simp
#print axioms elevate_same_map
#print axioms sigma_substitution
