import Mathlib.RingTheory.Polynomial.Bernstein
import Mathlib.Tactic.Ring
import Mathlib.Tactic.Linarith

/-! C11 seed: the library's hodograph (n · Bernstein form of the forward differences) is the
    derivative of the curve *as a polynomial* (Mathlib `Polynomial.derivative`). -/
open Polynomial Finset
variable {K : Type*} [Field K]

/-- the curve as a polynomial in X -/
noncomputable def bernPoly (n : ℕ) (v : ℕ → K) : K[X] :=
  ∑ j ∈ range (n+1), C (v j) * bernsteinPolynomial K n j

def bern (n : ℕ) (a b : K) (v : ℕ → K) : K :=
  ∑ j ∈ range (n+1), (n.choose j : K) * a^(n-j) * b^j * v j

theorem eval_bernPoly (n : ℕ) (v : ℕ → K) (s : K) : (bernPoly n v).eval s = bern n (1-s) s v := by
  unfold bernPoly bern
  rw [eval_finsetSum]
  apply Finset.sum_congr rfl
  intro j _
  simp [bernsteinPolynomial]
  ring

/-- d/dX of the degree-(n+1) curve = (n+1) · curve of degree n on the forward differences -/
theorem derivative_bernPoly (n : ℕ) (v : ℕ → K) :
    derivative (bernPoly (n+1) v) = ((n+1 : ℕ) : K[X]) * bernPoly n (fun j => v (j+1) - v j) := by
  unfold bernPoly
  rw [derivative_sum]
  -- split off j = 0 on the left
  rw [Finset.sum_range_succ' _ (n+1)]
  simp only [derivative_mul, derivative_C, zero_mul, zero_add,
    bernsteinPolynomial.derivative_succ, bernsteinPolynomial.derivative_zero, Nat.add_sub_cancel]
  -- right side: expand
  rw [Finset.mul_sum]
  -- Σ_{j<n+1} C v_{j+1} * ((n+1) * (b_j - b_{j+1})) + C v_0 * (-(n+1) * b_0)
  have hz : bernsteinPolynomial K n (n+1) = 0 := bernsteinPolynomial.eq_zero_of_lt K (by omega)
  have L : ∑ j ∈ range (n+1), C (v (j+1)) * (((n+1 : ℕ) : K[X]) * (bernsteinPolynomial K n j - bernsteinPolynomial K n (j+1)))
      = ((n+1 : ℕ) : K[X]) * (∑ j ∈ range (n+1), C (v (j+1)) * bernsteinPolynomial K n j)
        - ((n+1 : ℕ) : K[X]) * (∑ j ∈ range (n+1), C (v (j+1)) * bernsteinPolynomial K n (j+1)) := by
    rw [Finset.mul_sum, Finset.mul_sum, ← Finset.sum_sub_distrib]
    apply Finset.sum_congr rfl; intro j _; ring
  -- shift the second sum: Σ_{j<n+1} C v_{j+1} b_{j+1} = Σ_{j<n+2} C v_j b_j - C v_0 b_0, and the top term vanishes
  have Sft : ∑ j ∈ range (n+1), C (v (j+1)) * bernsteinPolynomial K n (j+1)
      = (∑ j ∈ range (n+1), C (v j) * bernsteinPolynomial K n j) - C (v 0) * bernsteinPolynomial K n 0 := by
    have := Finset.sum_range_succ' (fun j => C (v j) * bernsteinPolynomial K n j) (n+1)
    rw [Finset.sum_range_succ (fun j => C (v j) * bernsteinPolynomial K n j) (n+1), hz, mul_zero, add_zero] at this
    rw [this]; ring
  push_cast at L ⊢
  rw [L, Sft]
  have R : ∑ j ∈ range (n+1), ((n:K[X]) + 1) * (C (v (j+1) - v j) * bernsteinPolynomial K n j)
      = ((n:K[X]) + 1) * (∑ j ∈ range (n+1), C (v (j+1)) * bernsteinPolynomial K n j)
        - ((n:K[X]) + 1) * (∑ j ∈ range (n+1), C (v j) * bernsteinPolynomial K n j) := by
    rw [Finset.mul_sum, Finset.mul_sum, ← Finset.sum_sub_distrib]
    apply Finset.sum_congr rfl; intro j _; rw [C_sub]; ring
  rw [R]; ring

/-- so: B'(s) = (n+1) · Σ C(n,j)(1-s)^(n-j) s^j (v_{j+1}-v_j), which is what `evaluate_hodograph` computes -/
theorem hodograph_is_derivative (n : ℕ) (v : ℕ → K) (s : K) :
    (derivative (bernPoly (n+1) v)).eval s = ((n+1 : ℕ) : K) * bern n (1-s) s (fun j => v (j+1) - v j) := by
  rw [derivative_bernPoly, eval_mul, eval_bernPoly]; simp
#print axioms hodograph_is_derivative
