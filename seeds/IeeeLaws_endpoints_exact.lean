/-! C01 seed: end points are returned *exactly* in any arithmetic that has only the
    laws IEEE-754 binary64 really has (no associativity, no distributivity).  Core Lean only. -/

class IeeeLaws (K : Type) [Add K] [Mul K] [Sub K] [Div K] [OfNat K 0] [OfNat K 1] : Prop where
  one_mul : ∀ x : K, 1 * x = x
  mul_one : ∀ x : K, x * 1 = x
  zero_mul : ∀ x : K, 0 * x = 0
  mul_zero : ∀ x : K, x * 0 = 0
  add_zero : ∀ x : K, x + 0 = x
  zero_add : ∀ x : K, 0 + x = x
  one_sub_zero : (1 : K) - 0 = 1
  one_sub_one : (1 : K) - 1 = 0

variable {K : Type} [Add K] [Mul K] [Sub K] [Div K] [OfNat K 0] [OfNat K 1] [NatCast K] [L : IeeeLaws K]

/-- state of the VS loop: (result, binom_val, lambda2_pow) -/
structure VS (K : Type) where
  result : K
  binom : K
  pow : K

def vsStep (degree : Nat) (l1 l2 : K) (v : Nat → K) (st : VS K) (index : Nat) : VS K :=
  let pow := st.pow * l2
  let binom := (st.binom * ((degree - index + 1 : Nat) : K)) / (index : K)
  { result := (st.result + binom * pow * v index) * l1, binom := binom, pow := pow }

def vsLoop (degree : Nat) (l1 l2 : K) (v : Nat → K) : Nat → VS K
  | 0 => { result := l1 * v 0, binom := 1, pow := 1 }
  | i+1 => vsStep degree l1 l2 v (vsLoop degree l1 l2 v i) (i+1)

def evalVS (degree : Nat) (l1 l2 : K) (v : Nat → K) : K :=
  let st := vsLoop degree l1 l2 v (degree - 1)
  st.result + l2 * st.pow * v degree

/-- `evaluate_multi`: lambda1 = 1 - s, lambda2 = s -/
def evaluate (degree : Nat) (v : Nat → K) (s : K) : K := evalVS degree (1 - s) s v

/-- at s = 0 the loop keeps result = v 0 and pow = 0 after the first step -/
theorem vsLoop_at_zero (n : Nat) (v : Nat → K) : ∀ i,
    (vsLoop n (1:K) 0 v i).result = v 0 ∧ (i ≥ 1 → (vsLoop n (1:K) 0 v i).pow = 0) := by
  intro i
  induction i with
  | zero => exact ⟨by simp [vsLoop, L.one_mul], by intro h; omega⟩
  | succ i ih =>
    obtain ⟨hr, _⟩ := ih
    have hp : (vsLoop n (1:K) 0 v (i+1)).pow = 0 := by simp [vsLoop, vsStep, L.mul_zero]
    refine ⟨?_, fun _ => hp⟩
    show ((vsLoop n (1:K) 0 v i).result + _ * ((vsLoop n (1:K) 0 v i).pow * 0) * v (i+1)) * 1 = v 0
    rw [L.mul_zero, L.mul_zero, L.zero_mul, L.add_zero, L.mul_one, hr]

theorem evaluate_at_zero (n : Nat) (v : Nat → K) : evaluate n v (0:K) = v 0 := by
  unfold evaluate evalVS
  rw [L.one_sub_zero]
  obtain ⟨hr, _⟩ := vsLoop_at_zero (L := L) n v (n-1)
  simp only [hr, L.zero_mul, L.add_zero]

/-- at s = 1 : lambda1 = 0 kills the accumulated result, pow stays 1 -/
theorem vsLoop_at_one (n : Nat) (v : Nat → K) : ∀ i,
    (vsLoop n (0:K) 1 v i).result = 0 ∧ (vsLoop n (0:K) 1 v i).pow = 1 := by
  intro i
  induction i with
  | zero => exact ⟨by simp [vsLoop, L.zero_mul], rfl⟩
  | succ i ih =>
    obtain ⟨_, hp⟩ := ih
    refine ⟨?_, by simp [vsLoop, vsStep, hp, L.mul_one]⟩
    show (_ + _) * (0:K) = 0
    exact L.mul_zero _

theorem evaluate_at_one (n : Nat) (v : Nat → K) : evaluate n v (1:K) = v n := by
  unfold evaluate evalVS
  rw [L.one_sub_one]
  obtain ⟨hr, hp⟩ := vsLoop_at_one (L := L) n v (n-1)
  simp only [hr, hp, L.mul_one, L.one_mul, L.zero_add]
#print axioms evaluate_at_one
#print axioms evaluate_at_zero
