import Mathlib.Algebra.Module.LinearMap.End
import Mathlib.Algebra.Module.Pi
import Mathlib.Algebra.BigOperators.Pi
import Mathlib.Algebra.Algebra.Basic
import Mathlib.Algebra.Ring.GeomSum
import Mathlib.Algebra.Order.Field.Basic
import Mathlib.Algebra.Order.BigOperators.Ring.Finset
import Mathlib.Tactic.Ring
import Mathlib.Tactic.Linarith
import Mathlib.Tactic.Positivity

open Finset

set_option linter.unusedSectionVars false
variable {K : Type*} [Field K] [LinearOrder K] [IsStrictOrderedRing K]

def S : Module.End K (ℕ → K) where
  toFun v := fun j => v (j+1)
  map_add' _ _ := rfl
  map_smul' _ _ := rfl
def T (a b : K) : Module.End K (ℕ → K) := a • (1 : Module.End K (ℕ → K)) + b • S
theorem T_apply (a b : K) (v : ℕ → K) (j : ℕ) : T a b v j = a * v j + b * v (j+1) := by
  simp [T, S]
/-- the curve of degree n with control sequence v -/
def curve (n : ℕ) (v : ℕ → K) (s : K) : K := (((T (1-s) s)^n) v) 0
/-- forward difference -/
def Δ (v : ℕ → K) : ℕ → K := fun j => v (j+1) - v j

theorem T_commute (a b c d : K) : Commute (T a b) (T c d) := by
  unfold T
  have c1 : ∀ (x y : K) (A B : Module.End K (ℕ → K)), Commute A B → Commute (x • A) (y • B) :=
    fun x y A B hAB => (hAB.smul_left x).smul_right y
  refine Commute.add_left ?_ ?_ <;> refine Commute.add_right ?_ ?_
  · exact c1 _ _ _ _ (Commute.one_left _)
  · exact c1 _ _ _ _ (Commute.one_left _)
  · exact c1 _ _ _ _ (Commute.one_right _)
  · exact c1 _ _ _ _ (Commute.refl _)

theorem T_sub (a b : K) (v : ℕ → K) : (T (1-a) a - T (1-b) b) v = (a - b) • Δ v := by
  ext j; simp [T_apply, Δ]; ring

/-- one round with t ∈ [0,1] keeps upper bounds (on a shrinking index range) -/
theorem T_le (t M : K) (ht0 : 0 ≤ t) (ht1 : t ≤ 1) (m : ℕ) (u : ℕ → K)
    (hu : ∀ j ≤ m+1, u j ≤ M) : ∀ j ≤ m, T (1-t) t u j ≤ M := by
  intro j hj
  rw [T_apply]
  have h1 := hu j (by omega); have h2 := hu (j+1) (by omega)
  nlinarith [mul_le_mul_of_nonneg_left h1 (sub_nonneg.mpr ht1), mul_le_mul_of_nonneg_left h2 ht0]

theorem T_ge (t M : K) (ht0 : 0 ≤ t) (ht1 : t ≤ 1) (m : ℕ) (u : ℕ → K)
    (hu : ∀ j ≤ m+1, M ≤ u j) : ∀ j ≤ m, M ≤ T (1-t) t u j := by
  intro j hj
  rw [T_apply]
  have h1 := hu j (by omega); have h2 := hu (j+1) (by omega)
  nlinarith [mul_le_mul_of_nonneg_left h1 (sub_nonneg.mpr ht1), mul_le_mul_of_nonneg_left h2 ht0]

/-- k rounds at a then l rounds at b: a blossom value; bounded by the data -/
theorem blossom_le (a b M : K) (ha0 : 0 ≤ a) (ha1 : a ≤ 1) (hb0 : 0 ≤ b) (hb1 : b ≤ 1) :
    ∀ (k l m : ℕ) (u : ℕ → K), (∀ j ≤ m + k + l, u j ≤ M) →
      ∀ j ≤ m, ((T (1-a) a)^k * (T (1-b) b)^l) u j ≤ M := by
  intro k
  induction k with
  | zero =>
    intro l
    induction l with
    | zero => intro m u hu j hj; simpa using hu j (by omega)
    | succ l ih =>
      intro m u hu j hj
      rw [pow_zero, one_mul, pow_succ, Module.End.mul_apply]
      have := ih m (T (1-b) b u) (T_le b M hb0 hb1 (m+0+l) u (by intro j hj; exact hu j (by omega)))
      simpa using this j hj
  | succ k ih =>
    intro l m u hu j hj
    rw [pow_succ', mul_assoc, Module.End.mul_apply]
    exact T_le a M ha0 ha1 m _ (fun j hj => ih l (m+1) u (by intro j hj; exact hu j (by omega)) j hj) j hj

theorem blossom_ge (a b M : K) (ha0 : 0 ≤ a) (ha1 : a ≤ 1) (hb0 : 0 ≤ b) (hb1 : b ≤ 1) :
    ∀ (k l m : ℕ) (u : ℕ → K), (∀ j ≤ m + k + l, M ≤ u j) →
      ∀ j ≤ m, M ≤ ((T (1-a) a)^k * (T (1-b) b)^l) u j := by
  intro k
  induction k with
  | zero =>
    intro l
    induction l with
    | zero => intro m u hu j hj; simpa using hu j (by omega)
    | succ l ih =>
      intro m u hu j hj
      rw [pow_zero, one_mul, pow_succ, Module.End.mul_apply]
      have := ih m (T (1-b) b u) (T_ge b M hb0 hb1 (m+0+l) u (by intro j hj; exact hu j (by omega)))
      simpa using this j hj
  | succ k ih =>
    intro l m u hu j hj
    rw [pow_succ', mul_assoc, Module.End.mul_apply]
    exact T_ge a M ha0 ha1 m _ (fun j hj => ih l (m+1) u (by intro j hj; exact hu j (by omega)) j hj) j hj

/-- telescoping: B(a) - B(b) = (a-b) * Σ_{k<n} blossom(Δv)(a^k, b^{n-1-k}) -/
theorem curve_sub (n : ℕ) (v : ℕ → K) (a b : K) :
    curve n v a - curve n v b =
      (a - b) * ∑ k ∈ range n, (((T (1-a) a)^k * (T (1-b) b)^(n-1-k)) (Δ v)) 0 := by
  unfold curve
  have h := (T_commute (1-a) a (1-b) b).geom_sum₂_mul n
  -- h : (∑ i in range n, A^i * B^(n-1-i)) * (A - B) = A^n - B^n
  have : ((T (1-a) a)^n - (T (1-b) b)^n) v = (∑ i ∈ range n, (T (1-a) a)^i * (T (1-b) b)^(n-1-i)) ((T (1-a) a - T (1-b) b) v) := by
    rw [← h]; rfl
  have e : (((T (1-a) a)^n) v) 0 - (((T (1-b) b)^n) v) 0 = (((T (1-a) a)^n - (T (1-b) b)^n) v) 0 := by simp
  rw [e, this, T_sub, map_smul]
  simp [LinearMap.sum_apply, Finset.sum_apply]

/-- Lipschitz bound from the control polygon: |B(a)-B(b)| ≤ |a-b| * n * max|Δv_j| -/
theorem curve_lipschitz (n : ℕ) (v : ℕ → K) (a b D : K)
    (ha0 : 0 ≤ a) (ha1 : a ≤ 1) (hb0 : 0 ≤ b) (hb1 : b ≤ 1)
    (hD : ∀ j < n, |Δ v j| ≤ D) :
    |curve n v a - curve n v b| ≤ |a - b| * (n * D) := by
  rw [curve_sub, abs_mul]
  apply mul_le_mul_of_nonneg_left _ (abs_nonneg _)
  calc |∑ k ∈ range n, (((T (1-a) a)^k * (T (1-b) b)^(n-1-k)) (Δ v)) 0|
      ≤ ∑ k ∈ range n, |(((T (1-a) a)^k * (T (1-b) b)^(n-1-k)) (Δ v)) 0| := Finset.abs_sum_le_sum_abs _ _
    _ ≤ ∑ _k ∈ range n, D := by
        apply Finset.sum_le_sum
        intro k hk
        have hk' := mem_range.mp hk
        rw [abs_le]
        constructor
        · exact blossom_ge a b (-D) ha0 ha1 hb0 hb1 k (n-1-k) 0 (Δ v)
            (fun j hj => (abs_le.mp (hD j (by omega))).1) 0 le_rfl
        · exact blossom_le a b D ha0 ha1 hb0 hb1 k (n-1-k) 0 (Δ v)
            (fun j hj => (abs_le.mp (hD j (by omega))).2) 0 le_rfl
    _ = n * D := by simp


/-- strict positivity through one round -/
theorem T_pos (t : K) (ht0 : 0 ≤ t) (ht1 : t ≤ 1) (m : ℕ) (u : ℕ → K)
    (hu : ∀ j ≤ m+1, 0 < u j) : ∀ j ≤ m, 0 < T (1-t) t u j := by
  intro j hj
  rw [T_apply]
  have h1 := hu j (by omega); have h2 := hu (j+1) (by omega)
  rcases lt_or_eq_of_le ht1 with hlt | heq
  · have := mul_pos (sub_pos.mpr hlt) h1
    have := mul_nonneg ht0 h2.le
    linarith
  · rw [heq]; simpa using h2

theorem blossom_pos (a b : K) (ha0 : 0 ≤ a) (ha1 : a ≤ 1) (hb0 : 0 ≤ b) (hb1 : b ≤ 1) :
    ∀ (k l m : ℕ) (u : ℕ → K), (∀ j ≤ m + k + l, 0 < u j) →
      ∀ j ≤ m, 0 < ((T (1-a) a)^k * (T (1-b) b)^l) u j := by
  intro k
  induction k with
  | zero =>
    intro l
    induction l with
    | zero => intro m u hu j hj; simpa using hu j (by omega)
    | succ l ih =>
      intro m u hu j hj
      rw [pow_zero, one_mul, pow_succ, Module.End.mul_apply]
      have := ih m (T (1-b) b u) (T_pos b hb0 hb1 (m+0+l) u (by intro j hj; exact hu j (by omega)))
      simpa using this j hj
  | succ k ih =>
    intro l m u hu j hj
    rw [pow_succ', mul_assoc, Module.End.mul_apply]
    exact T_pos a ha0 ha1 m _ (fun j hj => ih l (m+1) u (by intro j hj; exact hu j (by omega)) j hj) j hj

/-- C18 (one coordinate of the half-plane argument): if every forward difference of the control
    values is positive, the coordinate function is strictly increasing on [0,1]; applied to
    ⟨·,u⟩ this gives: hodograph control points in an open half-plane ⇒ the curve is injective. -/
theorem strictly_increasing_of_pos_differences (n : ℕ) (hn : 1 ≤ n) (v : ℕ → K) (a b : K)
    (hb0 : 0 ≤ b) (hab : b < a) (ha1 : a ≤ 1) (hD : ∀ j < n, 0 < Δ v j) :
    curve n v b < curve n v a := by
  have ha0 : 0 ≤ a := le_trans hb0 hab.le
  have hb1 : b ≤ 1 := le_trans hab.le ha1
  have key := curve_sub n v a b
  have pos : 0 < ∑ k ∈ range n, (((T (1-a) a)^k * (T (1-b) b)^(n-1-k)) (Δ v)) 0 := by
    apply Finset.sum_pos
    · intro k hk
      have hk' := mem_range.mp hk
      exact blossom_pos a b ha0 ha1 hb0 hb1 k (n-1-k) 0 (Δ v) (fun j hj => hD j (by omega)) 0 le_rfl
    · exact ⟨0, mem_range.mpr (by omega)⟩
  have : 0 < curve n v a - curve n v b := by rw [key]; exact mul_pos (sub_pos.mpr hab) pos
  linarith
#print axioms curve_lipschitz
#print axioms strictly_increasing_of_pos_differences
