import Mathlib.Algebra.Order.Field.Basic
import Mathlib.Tactic.Ring
import Mathlib.Tactic.Linarith
import Mathlib.Tactic.FieldSimp
import Mathlib.Tactic.SplitIfs
import Mathlib.Tactic.Positivity

/-! C16/C20/C02 seed: the parameter part of `parallel_lines_parameters`
    (given the two projected parameters s_val0, s_val1 of the second segment's ends
    on the first line). Faithful transcription of the twelve leaves. -/

variable {K : Type*} [Field K] [LinearOrder K] [IsStrictOrderedRing K]

/-- returns none if disjoint, else (start_s, end_s, start_t, end_t) -/
def plp (s0 s1 : K) : Option (K × K × K × K) :=
  if s0 ≤ s1 then
    if 1 < s0 then none
    else
      let (start_s, start_t) := if s0 < 0 then ((0:K), -s0 / (s1 - s0)) else (s0, (0:K))
      if s1 < 0 then none
      else
        let (end_s, end_t) := if 1 < s1 then ((1:K), (1 - s0) / (s1 - s0)) else (s1, (1:K))
        some (start_s, end_s, start_t, end_t)
  else
    if s0 < 0 then none
    else
      let (start_s, start_t) := if 1 < s0 then ((1:K), (s0 - 1) / (s0 - s1)) else (s0, (0:K))
      if 1 < s1 then none
      else
        let (end_s, end_t) := if s1 < 0 then ((0:K), s0 / (s0 - s1)) else (s1, (1:K))
        some (start_s, end_s, start_t, end_t)

/-- every emitted parameter lies in [0,1] -/
theorem plp_unit (s0 s1 a b c d : K) (h : plp s0 s1 = some (a, b, c, d)) :
    (0 ≤ a ∧ a ≤ 1) ∧ (0 ≤ b ∧ b ≤ 1) ∧ (0 ≤ c ∧ c ≤ 1) ∧ (0 ≤ d ∧ d ≤ 1) := by
  unfold plp at h
  split_ifs at h <;> simp only [Option.some.injEq, Prod.mk.injEq] at h <;>
    obtain ⟨rfl, rfl, rfl, rfl⟩ := h <;>
    refine ⟨⟨?_, ?_⟩, ⟨?_, ?_⟩, ⟨?_, ?_⟩, ⟨?_, ?_⟩⟩ <;>
    first
      | linarith
      | (apply div_nonneg <;> linarith)
      | (rw [div_le_one (by linarith)]; linarith)

/-- the parameters are consistent: along the shared line, s = s0 + t (s1 - s0) -/
theorem plp_consistent (s0 s1 a b c d : K) (h : plp s0 s1 = some (a, b, c, d)) :
    a = s0 + c * (s1 - s0) ∧ b = s0 + d * (s1 - s0) := by
  unfold plp at h
  split_ifs at h <;> simp only [Option.some.injEq, Prod.mk.injEq] at h <;>
    obtain ⟨rfl, rfl, rfl, rfl⟩ := h <;>
    constructor <;>
    first
      | ring1
      | (have hne : s1 - s0 ≠ 0 := by intro h0; linarith
         field_simp; ring1)
      | (have hne : s0 - s1 ≠ 0 := by intro h0; linarith
         field_simp; ring1)

/-- disjoint exactly when the parameter interval of the second segment misses [0,1] -/
theorem plp_none_iff (s0 s1 : K) :
    plp s0 s1 = none ↔ ((s0 < 0 ∧ s1 < 0) ∨ (1 < s0 ∧ 1 < s1)) := by
  unfold plp
  split_ifs <;> simp only [reduceCtorEq, false_iff, true_iff, not_or, not_and, not_lt] <;>
    first
      | (left; constructor <;> linarith)
      | (right; constructor <;> linarith)
      | (constructor <;> intro _ <;> linarith)
#print axioms plp_unit
#print axioms plp_consistent
#print axioms plp_none_iff
