/-! C14 seed: the Cython retry protocol around the Fortran ABI refines a pure function,
    for every history of calls.  No Mathlib needed. -/

/-- Abstract pure result of one curve-curve intersection: the columns. -/
abbrev Cols := List (Int × Int)

inductive Status | success | insufficient
deriving DecidableEq

/-- Fortran ABI `BEZ_curve_intersections`: computes `pure`, copies it out only if it fits. -/
def abi (pure : Cols) (wsSize : Nat) : Status × Nat × Cols :=
  if pure.length ≤ wsSize then (.success, pure.length, pure) else (.insufficient, pure.length, [])

/-- `_speedup.curve_intersections(nodes1, nodes2, allow_resize)`; state = workspace columns. -/
def call (pure : Cols) (ws : Nat) : (allowResize : Bool) → (Except String Cols) × Nat
  | allowResize =>
    match abi pure ws with
    | (.success, _, cols) => (.ok cols, ws)
    | (.insufficient, n, _) =>
      if allowResize then
        -- reset_curves_workspace(n); retry with allow_resize=False
        match abi pure n with
        | (.success, _, cols) => (.ok cols, n)
        | (.insufficient, _, _) => (.error "too small", n)
      else (.error "too small", ws)

theorem call_refines_pure (pure : Cols) (ws : Nat) :
    call pure ws true = (.ok pure, max ws pure.length) := by
  unfold call abi
  by_cases h : pure.length ≤ ws
  · simp [h, Nat.max_eq_left h]
  · have h' : ws ≤ pure.length := by omega
    simp [h, Nat.max_eq_right h']

/-- A history of calls (each with its own pure result), threaded through the workspace size. -/
def runAll : List Cols → Nat → List (Except String Cols) × Nat
  | [], ws => ([], ws)
  | p :: ps, ws =>
    let (r, ws') := call p ws true
    let (rs, ws'') := runAll ps ws'
    (r :: rs, ws'')

theorem history_pure (ps : List Cols) (ws : Nat) :
    (runAll ps ws).1 = ps.map (fun p => Except.ok p) := by
  induction ps generalizing ws with
  | nil => rfl
  | cons p ps ih =>
    simp only [runAll, call_refines_pure, List.map_cons]
    rw [ih]

/-- and the state is the running maximum (observable through `curves_workspace_size()`) -/
theorem history_ws (ps : List Cols) (ws : Nat) :
    (runAll ps ws).2 = ps.foldl (fun w p => max w p.length) ws := by
  induction ps generalizing ws with
  | nil => rfl
  | cons p ps ih => simp only [runAll, call_refines_pure, List.foldl_cons]; rw [ih]

example : (runAll [[(1,2),(3,4),(5,6)], [], [(0,0)]] 2).2 = 3 := by decide
#print axioms history_pure
