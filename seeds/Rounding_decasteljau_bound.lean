import Mathlib.Algebra.Order.Field.Basic
import Mathlib.Algebra.Order.AbsoluteValue.Basic
import Mathlib.Tactic.Ring
import Mathlib.Tactic.Linarith
import Mathlib.Tactic.Positivity
import Mathlib.Tactic.GCongr

/-! Rounding seed (C01, "up to a small multiple of machine precision"):
    de Casteljau evaluated with *rounded* operations, in the standard model
    `|fl x - x| ≤ u |x|`, stays within `((1+u)^(2n) - 1) · Σ C(n,j)|a|^(n-j)|b|^j |v_j|`
    of the exact value — for every degree n, every data, any ordered field. -/
set_option linter.unusedSectionVars false
variable {K : Type} [Field K] [LinearOrder K] [IsStrictOrderedRing K]

/-- exact round, rounded round, and the "absolute" round that propagates magnitudes -/
def Tex (a b : K) (w : ℕ → K) : ℕ → K := fun j => a * w j + b * w (j+1)
def Tfl (fl : K → K) (a b : K) (w : ℕ → K) : ℕ → K := fun j => fl (fl (a * w j) + fl (b * w (j+1)))
def Tabs (a b : K) (A : ℕ → K) : ℕ → K := fun j => |a| * A j + |b| * A (j+1)

def iter (f : (ℕ → K) → (ℕ → K)) : ℕ → (ℕ → K) → (ℕ → K)
  | 0, w => w
  | n+1, w => iter f n (f w)

theorem one_round (fl : K → K) (u : K) (hu : 0 ≤ u) (hfl : ∀ x, |fl x - x| ≤ u * |x|)
    (a b : K) (k : ℕ) (wh w A : ℕ → K)
    (herr : ∀ j, |wh j - w j| ≤ ((1+u)^k - 1) * A j) (hmag : ∀ j, |w j| ≤ A j) :
    (∀ j, |Tfl fl a b wh j - Tex a b w j| ≤ ((1+u)^(k+2) - 1) * Tabs a b A j) ∧
    (∀ j, |Tex a b w j| ≤ Tabs a b A j) := by
  have hρ : (1:K) ≤ (1+u)^k := one_le_pow₀ (by linarith)
  have hA : ∀ j, 0 ≤ A j := fun j => le_trans (abs_nonneg _) (hmag j)
  -- magnitude of the perturbed data
  have hwh : ∀ j, |wh j| ≤ (1+u)^k * A j := by
    intro j
    have h1 : |wh j| ≤ |wh j - w j| + |w j| := by
      have := abs_add_le (wh j - w j) (w j); simpa using this
    nlinarith [herr j, hmag j]
  constructor
  · intro j
    unfold Tfl Tex Tabs
    set p := a * wh j with hp
    set q := b * wh (j+1) with hq
    have e1 := hfl p
    have e2 := hfl q
    have e3 := hfl (fl p + fl q)
    have hp' : |p| ≤ |a| * ((1+u)^k * A j) := by
      rw [hp, abs_mul]; exact mul_le_mul_of_nonneg_left (hwh j) (abs_nonneg a)
    have hq' : |q| ≤ |b| * ((1+u)^k * A (j+1)) := by
      rw [hq, abs_mul]; exact mul_le_mul_of_nonneg_left (hwh (j+1)) (abs_nonneg b)
    -- |fl p| ≤ (1+u)|p|
    have f1 : |fl p| ≤ (1+u) * |p| := by
      have : |fl p| ≤ |fl p - p| + |p| := by have := abs_add_le (fl p - p) p; simpa using this
      nlinarith
    have f2 : |fl q| ≤ (1+u) * |q| := by
      have : |fl q| ≤ |fl q - q| + |q| := by have := abs_add_le (fl q - q) q; simpa using this
      nlinarith
    have s1 : |fl p + fl q| ≤ (1+u) * (|p| + |q|) := by
      have := abs_add_le (fl p) (fl q); nlinarith
    -- total rounding of this round
    have r1 : |fl (fl p + fl q) - (p + q)| ≤ ((1+u)^2 - 1) * (|p| + |q|) := by
      have t : fl (fl p + fl q) - (p + q) = (fl (fl p + fl q) - (fl p + fl q)) + ((fl p - p) + (fl q - q)) := by ring
      rw [t]
      have := abs_add_le (fl (fl p + fl q) - (fl p + fl q)) ((fl p - p) + (fl q - q))
      have := abs_add_le (fl p - p) (fl q - q)
      have hpq : 0 ≤ |p| + |q| := by positivity
      nlinarith [mul_le_mul_of_nonneg_left s1 hu]
    -- propagated error of the data
    have r2 : |(p + q) - (a * w j + b * w (j+1))| ≤ ((1+u)^k - 1) * (|a| * A j + |b| * A (j+1)) := by
      have t : (p + q) - (a * w j + b * w (j+1)) = a * (wh j - w j) + b * (wh (j+1) - w (j+1)) := by
        rw [hp, hq]; ring
      rw [t]
      have := abs_add_le (a * (wh j - w j)) (b * (wh (j+1) - w (j+1)))
      rw [abs_mul, abs_mul] at this
      have g1 := mul_le_mul_of_nonneg_left (herr j) (abs_nonneg a)
      have g2 := mul_le_mul_of_nonneg_left (herr (j+1)) (abs_nonneg b)
      nlinarith
    have t : fl (fl p + fl q) - (a * w j + b * w (j+1))
        = (fl (fl p + fl q) - (p + q)) + ((p + q) - (a * w j + b * w (j+1))) := by ring
    rw [t]
    have tri := abs_add_le (fl (fl p + fl q) - (p + q)) ((p + q) - (a * w j + b * w (j+1)))
    have hB : 0 ≤ |a| * A j + |b| * A (j+1) := by
      have := hA j; have := hA (j+1); positivity
    have hpq : |p| + |q| ≤ (1+u)^k * (|a| * A j + |b| * A (j+1)) := by nlinarith
    have hsq : (0:K) ≤ (1+u)^2 - 1 := by nlinarith
    calc |fl (fl p + fl q) - (p + q) + (p + q - (a * w j + b * w (j + 1)))|
        ≤ ((1+u)^2 - 1) * (|p| + |q|) + ((1+u)^k - 1) * (|a| * A j + |b| * A (j+1)) := by linarith
      _ ≤ ((1+u)^2 - 1) * ((1+u)^k * (|a| * A j + |b| * A (j+1))) + ((1+u)^k - 1) * (|a| * A j + |b| * A (j+1)) := by
          have := mul_le_mul_of_nonneg_left hpq hsq; linarith
      _ = ((1+u)^(k+2) - 1) * (|a| * A j + |b| * A (j+1)) := by ring
  · intro j
    unfold Tex Tabs
    have := abs_add_le (a * w j) (b * w (j+1))
    rw [abs_mul, abs_mul] at this
    nlinarith [mul_le_mul_of_nonneg_left (hmag j) (abs_nonneg a),
               mul_le_mul_of_nonneg_left (hmag (j+1)) (abs_nonneg b)]

/-- n rounds: rounded de Casteljau vs exact, bound in terms of the absolute scheme -/
theorem rounded_decasteljau (fl : K → K) (u : K) (hu : 0 ≤ u) (hfl : ∀ x, |fl x - x| ≤ u * |x|)
    (a b : K) : ∀ (n k : ℕ) (wh w A : ℕ → K),
    (∀ j, |wh j - w j| ≤ ((1+u)^k - 1) * A j) → (∀ j, |w j| ≤ A j) →
    ∀ j, |iter (Tfl fl a b) n wh j - iter (Tex a b) n w j| ≤ ((1+u)^(k+2*n) - 1) * iter (Tabs a b) n A j := by
  intro n
  induction n with
  | zero => intro k wh w A h1 _ j; simpa [iter] using h1 j
  | succ n ih =>
    intro k wh w A h1 h2 j
    obtain ⟨g1, g2⟩ := one_round fl u hu hfl a b k wh w A h1 h2
    have := ih (k+2) _ _ _ g1 g2 j
    simp only [iter]
    have e : k + 2 + 2 * n = k + 2 * (n+1) := by ring
    rwa [e] at this

/-- corollary with exact input data: error ≤ ((1+u)^(2n) - 1) · (|a| + |b|S)^n |v| at 0 -/
theorem rounded_decasteljau_exact_data (fl : K → K) (u : K) (hu : 0 ≤ u) (hfl : ∀ x, |fl x - x| ≤ u * |x|)
    (a b : K) (n : ℕ) (v : ℕ → K) :
    |iter (Tfl fl a b) n v 0 - iter (Tex a b) n v 0| ≤ ((1+u)^(2*n) - 1) * iter (Tabs a b) n (fun j => |v j|) 0 := by
  have := rounded_decasteljau fl u hu hfl a b n 0 v v (fun j => |v j|) (by intro j; simp) (by intro j; exact le_rfl) 0
  simpa using this
#print axioms rounded_decasteljau_exact_data
