import Mathlib.Algebra.Order.Field.Basic
import Mathlib.Tactic.Ring
import Mathlib.Tactic.Linarith
import Mathlib.Tactic.Positivity

/-! Rounding seed 2 (C01): the VS (modified Horner) loop with *rounded* operations in the
    standard model `|fl x - x| ≤ u|x|`, binomials exact (C01_binomials_exact), stays within
    `((1+u)^(2i+3) - 1) · R̄_i` of the exact loop value, where R̄ is the same loop run on
    absolute values — i.e. relative to Σ_j |C(n,j) λ1^(..) λ2^j v_j|. -/
set_option linter.unusedSectionVars false
variable {K : Type} [Field K] [LinearOrder K] [IsStrictOrderedRing K]

/-- generic facts about the rounding model -/
theorem pow_sub_one_mono (u : K) (hu : 0 ≤ u) {a b : ℕ} (h : a ≤ b) : (1+u)^a - 1 ≤ (1+u)^b - 1 := by
  have : (1+u)^a ≤ (1+u)^b := pow_le_pow_right₀ (by linarith) h
  linarith

/-- rounding one product of a perturbed factor by an exact factor:
    |fl (x̂ c) - x c| ≤ (ρ^(k+1) - 1) X |c|  whenever |x̂ - x| ≤ (ρ^k - 1) X and |x| ≤ X -/
theorem fl_mul_exact (fl : K → K) (u : K) (hu : 0 ≤ u) (hfl : ∀ x, |fl x - x| ≤ u * |x|)
    (k : ℕ) (xh x X c : K) (herr : |xh - x| ≤ ((1+u)^k - 1) * X) (hmag : |x| ≤ X) :
    |fl (xh * c) - x * c| ≤ ((1+u)^(k+1) - 1) * (X * |c|) ∧ |x * c| ≤ X * |c| := by
  have hρ : (1:K) ≤ (1+u)^k := one_le_pow₀ (by linarith)
  have hX : 0 ≤ X := le_trans (abs_nonneg _) hmag
  have hxh : |xh| ≤ (1+u)^k * X := by
    have h1 : |xh| ≤ |xh - x| + |x| := by have := abs_add_le (xh - x) x; simpa using this
    nlinarith
  have e := hfl (xh * c)
  rw [abs_mul] at e
  have t : fl (xh * c) - x * c = (fl (xh * c) - xh * c) + (xh - x) * c := by ring
  constructor
  · rw [t]
    have tri := abs_add_le (fl (xh * c) - xh * c) ((xh - x) * c)
    rw [abs_mul (xh - x) c] at tri
    have hc := abs_nonneg c
    have g1 : u * (|xh| * |c|) ≤ u * ((1+u)^k * X * |c|) := by
      apply mul_le_mul_of_nonneg_left _ hu
      exact mul_le_mul_of_nonneg_right hxh hc
    have g2 : |xh - x| * |c| ≤ ((1+u)^k - 1) * X * |c| := mul_le_mul_of_nonneg_right herr hc
    calc |fl (xh * c) - xh * c + (xh - x) * c| ≤ u * ((1+u)^k * X * |c|) + ((1+u)^k - 1) * X * |c| := by linarith
      _ = ((1+u)^(k+1) - 1) * (X * |c|) := by ring
  · rw [abs_mul]; exact mul_le_mul_of_nonneg_right hmag (abs_nonneg c)

/-- rounding one sum of two perturbed terms with a common exponent k -/
theorem fl_add (fl : K → K) (u : K) (hu : 0 ≤ u) (hfl : ∀ x, |fl x - x| ≤ u * |x|)
    (k : ℕ) (xh x X yh y Y : K)
    (hx : |xh - x| ≤ ((1+u)^k - 1) * X) (hxm : |x| ≤ X)
    (hy : |yh - y| ≤ ((1+u)^k - 1) * Y) (hym : |y| ≤ Y) :
    |fl (xh + yh) - (x + y)| ≤ ((1+u)^(k+1) - 1) * (X + Y) ∧ |x + y| ≤ X + Y := by
  have hρ : (1:K) ≤ (1+u)^k := one_le_pow₀ (by linarith)
  have hX : 0 ≤ X := le_trans (abs_nonneg _) hxm
  have hY : 0 ≤ Y := le_trans (abs_nonneg _) hym
  have hxh : |xh| ≤ (1+u)^k * X := by
    have h1 : |xh| ≤ |xh - x| + |x| := by have := abs_add_le (xh - x) x; simpa using this
    nlinarith
  have hyh : |yh| ≤ (1+u)^k * Y := by
    have h1 : |yh| ≤ |yh - y| + |y| := by have := abs_add_le (yh - y) y; simpa using this
    nlinarith
  have e := hfl (xh + yh)
  have s := abs_add_le xh yh
  constructor
  · have t : fl (xh + yh) - (x + y) = (fl (xh + yh) - (xh + yh)) + ((xh - x) + (yh - y)) := by ring
    rw [t]
    have tri := abs_add_le (fl (xh + yh) - (xh + yh)) ((xh - x) + (yh - y))
    have tri2 := abs_add_le (xh - x) (yh - y)
    have g : u * |xh + yh| ≤ u * ((1+u)^k * (X + Y)) := by
      apply mul_le_mul_of_nonneg_left _ hu; nlinarith
    calc |fl (xh + yh) - (xh + yh) + (xh - x + (yh - y))|
        ≤ u * ((1+u)^k * (X + Y)) + (((1+u)^k - 1) * X + ((1+u)^k - 1) * Y) := by linarith
      _ = ((1+u)^(k+1) - 1) * (X + Y) := by ring
  · have := abs_add_le x y; linarith

/-- weaken an error bound to a larger exponent -/
theorem weaken (u : K) (hu : 0 ≤ u) {a b : ℕ} (h : a ≤ b) (xh x X : K) (hX : 0 ≤ X)
    (hx : |xh - x| ≤ ((1+u)^a - 1) * X) : |xh - x| ≤ ((1+u)^b - 1) * X :=
  le_trans hx (mul_le_mul_of_nonneg_right (pow_sub_one_mono u hu h) hX)

/-- the three loop states: exact, rounded, absolute.  `c i` is the (exact) binomial C(n,i). -/
structure St (K : Type) where
  r : K
  p : K

def stepEx (l1 l2 : K) (c v : ℕ → K) (st : St K) (i : ℕ) : St K :=
  let p := st.p * l2
  { r := (st.r + c i * p * v i) * l1, p := p }
def stepFl (fl : K → K) (l1 l2 : K) (c v : ℕ → K) (st : St K) (i : ℕ) : St K :=
  let p := fl (st.p * l2)
  { r := fl (fl (st.r + fl (fl (p * c i) * v i)) * l1), p := p }
def stepAbs (l1 l2 : K) (c v : ℕ → K) (st : St K) (i : ℕ) : St K :=
  let p := st.p * |l2|
  { r := (st.r + p * |c i| * |v i|) * |l1|, p := p }

def loopEx (l1 l2 : K) (c v : ℕ → K) : ℕ → St K
  | 0 => { r := v 0 * l1, p := 1 }
  | i+1 => stepEx l1 l2 c v (loopEx l1 l2 c v i) (i+1)
def loopFl (fl : K → K) (l1 l2 : K) (c v : ℕ → K) : ℕ → St K
  | 0 => { r := fl (v 0 * l1), p := 1 }
  | i+1 => stepFl fl l1 l2 c v (loopFl fl l1 l2 c v i) (i+1)
def loopAbs (l1 l2 : K) (c v : ℕ → K) : ℕ → St K
  | 0 => { r := |v 0| * |l1|, p := 1 }
  | i+1 => stepAbs l1 l2 c v (loopAbs l1 l2 c v i) (i+1)

theorem vs_rounded (fl : K → K) (u : K) (hu : 0 ≤ u) (hfl : ∀ x, |fl x - x| ≤ u * |x|)
    (l1 l2 : K) (c v : ℕ → K) : ∀ i,
    (|(loopFl fl l1 l2 c v i).p - (loopEx l1 l2 c v i).p| ≤ ((1+u)^i - 1) * (loopAbs l1 l2 c v i).p ∧
     |(loopEx l1 l2 c v i).p| ≤ (loopAbs l1 l2 c v i).p) ∧
    (|(loopFl fl l1 l2 c v i).r - (loopEx l1 l2 c v i).r| ≤ ((1+u)^(2*i+3) - 1) * (loopAbs l1 l2 c v i).r ∧
     |(loopEx l1 l2 c v i).r| ≤ (loopAbs l1 l2 c v i).r) := by
  intro i
  induction i with
  | zero =>
    refine ⟨⟨by simp [loopFl, loopEx, loopAbs], by simp [loopEx, loopAbs]⟩, ?_⟩
    have h0 := fl_mul_exact fl u hu hfl 0 (v 0) (v 0) |v 0| l1 (by simp) le_rfl
    simp only [loopFl, loopEx, loopAbs]
    refine ⟨?_, h0.2⟩
    have := h0.1
    simp only [zero_add] at this
    exact weaken u hu (by omega : 1 ≤ 2*0+3) _ _ _ (by positivity) this
  | succ i ih =>
    obtain ⟨⟨hp, hpm⟩, ⟨hr, hrm⟩⟩ := ih
    -- the power
    have P := fl_mul_exact fl u hu hfl i _ _ _ l2 hp hpm
    have hPabs : 0 ≤ (loopAbs l1 l2 c v i).p * |l2| := le_trans (abs_nonneg _) P.2
    -- binom * pow, then * v_i   (two more roundings: exponent i+3)
    have Q := fl_mul_exact fl u hu hfl (i+1) _ _ _ (c (i+1)) P.1 P.2
    have Rr := fl_mul_exact fl u hu hfl (i+2) _ _ _ (v (i+1)) Q.1 Q.2
    -- bring both summands to the common exponent 2i+3
    have hRabs : 0 ≤ (loopAbs l1 l2 c v i).r := le_trans (abs_nonneg _) hrm
    have hTabs : 0 ≤ (loopAbs l1 l2 c v i).p * |l2| * |c (i+1)| * |v (i+1)| := le_trans (abs_nonneg _) Rr.2
    have T1 := weaken u hu (by omega : i+2+1 ≤ 2*i+3) _ _ _ hTabs Rr.1
    have Ssum := fl_add fl u hu hfl (2*i+3) _ _ _ _ _ _ hr hrm T1 Rr.2
    have Fin := fl_mul_exact fl u hu hfl (2*i+3+1) _ _ _ l1 Ssum.1 Ssum.2
    refine ⟨⟨?_, ?_⟩, ⟨?_, ?_⟩⟩
    · simpa [loopFl, loopEx, loopAbs, stepFl, stepEx, stepAbs] using P.1
    · simpa [loopEx, loopAbs, stepEx, stepAbs] using P.2
    · have e : 2*i+3+1+1 = 2*(i+1)+3 := by ring
      rw [e] at Fin
      have := Fin.1
      simp only [loopFl, loopEx, loopAbs, stepFl, stepEx, stepAbs]
      convert this using 3 <;> ring
    · have := Fin.2
      simp only [loopEx, loopAbs, stepEx, stepAbs]
      convert this using 2 <;> ring
#print axioms vs_rounded
