import Mathlib.Algebra.Field.Basic
import Mathlib.Tactic.Ring
import Mathlib.Tactic.FieldSimp
import Mathlib.Tactic.NormNum
import Mathlib.Algebra.CharZero.Defs
import Mathlib.Data.Nat.Cast.Field

/-! C12 seed: the hard-coded shoelace weights are the Green-theorem boundary integral,
    for every control net, degrees 1..4 (formal integral on power-basis coefficient lists). -/

variable {K : Type*} [Field K] [CharZero K]

/-- power-basis polynomial arithmetic on coefficient lists -/
def padd : List K → List K → List K
  | [], q => q
  | p, [] => p
  | a :: p, b :: q => (a + b) :: padd p q
def psmul (c : K) (p : List K) : List K := p.map (c * ·)
def pmul : List K → List K → List K
  | [], _ => []
  | a :: p, q => padd (psmul a q) (0 :: pmul p q)
def pderiv : List K → List K
  | [] => []
  | _ :: p => (List.zipWith (fun (k : ℕ) c => ((k+1 : ℕ) : K) * c) (List.range p.length) p)
/-- ∫₀¹ -/
def pint (p : List K) : K := ((List.zipWith (fun (k : ℕ) c => c / ((k+1 : ℕ) : K)) (List.range p.length) p)).sum

/-- Bernstein → power basis, degrees 1..4 (explicit binomial expansion) -/
def toPow1 (c0 c1 : K) : List K := [c0, c1 - c0]
def toPow2 (c0 c1 c2 : K) : List K := [c0, 2*(c1-c0), c2 - 2*c1 + c0]
def toPow3 (c0 c1 c2 c3 : K) : List K := [c0, 3*(c1-c0), 3*(c2-2*c1+c0), c3-3*c2+3*c1-c0]
def toPow4 (c0 c1 c2 c3 c4 : K) : List K :=
  [c0, 4*(c1-c0), 6*(c2-2*c1+c0), 4*(c3-3*c2+3*c1-c0), c4-4*c3+6*c2-4*c1+c0]

/-- ½ ∫ (x y' − y x') ds -/
def green (x y : List K) : K := (pint (pmul x (pderiv y)) - pint (pmul y (pderiv x))) / 2

def cr (x y : ℕ → K) (i j : ℕ) : K := x i * y j - y i * x j

/-- the library's tables (SHOELACE_* and scale factors) -/
def shoelace1 (x y : ℕ → K) : K := (1 * cr x y 0 1) / 2
def shoelace2 (x y : ℕ → K) : K := (2 * cr x y 0 1 + 1 * cr x y 0 2 + 2 * cr x y 1 2) / 6
def shoelace3 (x y : ℕ → K) : K :=
  (6 * cr x y 0 1 + 3 * cr x y 0 2 + 1 * cr x y 0 3 + 3 * cr x y 1 2 + 3 * cr x y 1 3 + 6 * cr x y 2 3) / 20
def shoelace4 (x y : ℕ → K) : K :=
  (20 * cr x y 0 1 + 10 * cr x y 0 2 + 4 * cr x y 0 3 + 1 * cr x y 0 4 + 8 * cr x y 1 2 + 8 * cr x y 1 3
    + 4 * cr x y 1 4 + 8 * cr x y 2 3 + 10 * cr x y 2 4 + 20 * cr x y 3 4) / 70

theorem shoelace1_is_green (x y : ℕ → K) :
    shoelace1 x y = green (toPow1 (x 0) (x 1)) (toPow1 (y 0) (y 1)) := by
  simp [shoelace1, green, toPow1, pmul, padd, psmul, pderiv, pint, cr, List.range, List.range.loop]
  ring
theorem shoelace2_is_green (x y : ℕ → K) :
    shoelace2 x y = green (toPow2 (x 0) (x 1) (x 2)) (toPow2 (y 0) (y 1) (y 2)) := by
  simp [shoelace2, green, toPow2, pmul, padd, psmul, pderiv, pint, cr, List.range, List.range.loop]
  ring
theorem shoelace3_is_green (x y : ℕ → K) :
    shoelace3 x y = green (toPow3 (x 0) (x 1) (x 2) (x 3)) (toPow3 (y 0) (y 1) (y 2) (y 3)) := by
  simp [shoelace3, green, toPow3, pmul, padd, psmul, pderiv, pint, cr, List.range, List.range.loop]
  ring
theorem shoelace4_is_green (x y : ℕ → K) :
    shoelace4 x y = green (toPow4 (x 0) (x 1) (x 2) (x 3) (x 4)) (toPow4 (y 0) (y 1) (y 2) (y 3) (y 4)) := by
  simp [shoelace4, green, toPow4, pmul, padd, psmul, pderiv, pint, cr, List.range, List.range.loop]
  ring
#print axioms shoelace4_is_green
