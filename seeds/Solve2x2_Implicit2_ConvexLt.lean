import Mathlib.Algebra.Order.Field.Basic
import Mathlib.Algebra.BigOperators.Ring.Finset
import Mathlib.Algebra.Order.BigOperators.Ring.Finset
import Mathlib.Tactic.Ring
import Mathlib.Tactic.Linarith
import Mathlib.Tactic.FieldSimp
import Mathlib.Tactic.SplitIfs

/-! Seeds for C02/C11 (`solve2x2` solves the system exactly, both pivot branches),
    C19 (implicit form of a quadratic vanishes on the curve), C03 (strict convex bound). -/

variable {K : Type*} [Field K] [LinearOrder K] [IsStrictOrderedRing K]

/-- faithful transcription of `helpers.solve2x2` (lhs = [[A,B],[C,D]], rhs = (E,F)) -/
def solve2x2 (A B C D E F : K) : Option (K × K) :=
  if |A| < |C| then
    let ratio := A / C
    let denominator := B - ratio * D
    if denominator = 0 then none
    else
      let y := (E - ratio * F) / denominator
      let x := (F - D * y) / C
      some (x, y)
  else
    if A = 0 then none
    else
      let ratio := C / A
      let denominator := D - ratio * B
      if denominator = 0 then none
      else
        let y := (F - ratio * E) / denominator
        let x := (E - B * y) / A
        some (x, y)

theorem solve2x2_exact (A B C D E F x y : K) (h : solve2x2 A B C D E F = some (x, y)) :
    A * x + B * y = E ∧ C * x + D * y = F := by
  unfold solve2x2 at h
  dsimp only at h
  split_ifs at h with h1 h2 h3 h4
  · -- pivot on C
    have hC : C ≠ 0 := by
      intro h0; rw [h0, abs_zero] at h1; exact absurd h1 (not_lt.mpr (abs_nonneg A))
    have hd : C * B - A * D ≠ 0 := by
      intro h0; apply h2; field_simp; linarith
    simp only [Option.some.injEq, Prod.mk.injEq] at h
    obtain ⟨rfl, rfl⟩ := h
    have e : B - A / C * D = (C * B - A * D) / C := by field_simp
    rw [e]
    constructor <;> field_simp <;> ring
  · have hd : A * D - C * B ≠ 0 := by
      intro h0; apply h4; field_simp; linarith
    simp only [Option.some.injEq, Prod.mk.injEq] at h
    obtain ⟨rfl, rfl⟩ := h
    have e : D - C / A * B = (A * D - C * B) / A := by field_simp
    rw [e]
    constructor <;> field_simp <;> ring

theorem solve2x2_singular (A B C D E F : K) (h : solve2x2 A B C D E F = none) :
    A * D - B * C = 0 := by
  unfold solve2x2 at h
  dsimp only at h
  split_ifs at h with h1 h2 h3 h4
  · have hC : C ≠ 0 := by
      intro h0; rw [h0, abs_zero] at h1; exact absurd h1 (not_lt.mpr (abs_nonneg A))
    have : B - A / C * D = 0 := h2
    field_simp at this; linarith
  · -- A = 0 and |A| ≥ |C| force C = 0
    have hC : C = 0 := by
      have : |C| ≤ 0 := by rw [h3, abs_zero] at h1; exact not_lt.mp h1
      exact abs_eq_zero.mp (le_antisymm this (abs_nonneg C))
    rw [h3, hC]; ring
  · have : D - C / A * B = 0 := h4
    field_simp at this; linarith

/-- `algebraic_intersection.evaluate` for a quadratic (the expanded modified Sylvester determinant) -/
def implicit2 (x0 x1 x2 y0 y1 y2 x y : K) : K :=
  let a := x0 - x; let b := 2 * (x1 - x); let c := x2 - x
  let d := y0 - y; let e := 2 * (y1 - y); let f := y2 - y
  let sub1 := b * f - c * e
  let sub2 := a * f - c * d
  let subDetA := -e * sub1 + f * sub2
  let subDetD := b * sub1 - c * sub2
  a * subDetA + d * subDetD

theorem implicit2_vanishes (x0 x1 x2 y0 y1 y2 s : K) :
    implicit2 x0 x1 x2 y0 y1 y2
      ((1-s)^2 * x0 + 2*(1-s)*s * x1 + s^2 * x2)
      ((1-s)^2 * y0 + 2*(1-s)*s * y1 + s^2 * y2) = 0 := by
  unfold implicit2; ring

open Finset in
/-- strict convex bound: positive weights, one value strictly below M ⇒ the combination is below M -/
theorem convex_lt (n : ℕ) (w v : ℕ → K) (M : K) (hw : ∀ j ∈ range n, 0 < w j)
    (hs : ∑ j ∈ range n, w j = 1) (hv : ∀ j ∈ range n, v j ≤ M) (k : ℕ) (hk : k ∈ range n) (hlt : v k < M) :
    ∑ j ∈ range n, w j * v j < M := by
  calc ∑ j ∈ range n, w j * v j < ∑ j ∈ range n, w j * M :=
        Finset.sum_lt_sum (fun j hj => mul_le_mul_of_nonneg_left (hv j hj) (hw j hj).le)
          ⟨k, hk, mul_lt_mul_of_pos_left hlt (hw k hk)⟩
    _ = M := by rw [← Finset.sum_mul, hs, one_mul]
#print axioms solve2x2_exact
#print axioms solve2x2_singular
#print axioms implicit2_vanishes
#print axioms convex_lt
