/-! Table obligation prototype: QUARTIC_SUBDIVIDE_B (15×15) equals the matrix derived by
    the generic triangle de Casteljau specialisation, checked by the kernel. Core Lean only. -/

/-- one de Casteljau round on a flat degree-`d` triangle net (running indices as in the code) -/
def dcRound3 (d : Nat) (l1 l2 l3 : Rat) (nodes : Array Rat) : Array Rat := Id.run do
  let mut out : Array Rat := #[]
  let mut p1 := 0
  let mut p2 := 1
  let mut p3 := d + 1
  for k in [0:d] do
    for _j in [0:d-k] do
      out := out.push (l1 * nodes[p1]! + l2 * nodes[p2]! + l3 * nodes[p3]!)
      p1 := p1 + 1; p2 := p2 + 1; p3 := p3 + 1
    p1 := p1 + 1; p2 := p2 + 1
  return out

abbrev W := Rat × Rat × Rat
def applyW (d : Nat) (w : W) (n : Array Rat) : Array Rat := dcRound3 d w.1 w.2.1 w.2.2 n

/-- control point (i,j,k) of the specialised net: i rounds with a, j with b, k with c -/
def specPoint (d : Nat) (a b c : W) (i j k : Nat) (nodes : Array Rat) : Rat := Id.run do
  let mut cur := nodes
  let mut deg := d
  for _ in [0:i] do cur := applyW deg a cur; deg := deg - 1
  for _ in [0:j] do cur := applyW deg b cur; deg := deg - 1
  for _ in [0:k] do cur := applyW deg c cur; deg := deg - 1
  return cur[0]!

def specialize (d : Nat) (a b c : W) (nodes : Array Rat) : Array Rat := Id.run do
  let mut out : Array Rat := #[]
  for k in [0:d+1] do
    for j in [0:d+1-k] do
      out := out.push (specPoint d a b c (d-j-k) j k nodes)
  return out

def unit (n i : Nat) : Array Rat := (Array.range n).map (fun t => if t = i then 1 else 0)

/-- column-major operator: row r = image of unit net r  (so `new = nodes · M`, M[r][c]) -/
def opMatrix (d : Nat) (a b c : W) : List (List Rat) :=
  let n := (d+1)*(d+2)/2
  (List.range n).map (fun r => (specialize d a b c (unit n r)).toList)

-- centre quarter B: weights (0,½,½), (½,0,½), (½,½,0)
def wB0 : W := (0, 1/2, 1/2)
def wB1 : W := (1/2, 0, 1/2)
def wB2 : W := (1/2, 1/2, 0)

def QUARTIC_SUBDIVIDE_B_times16 : List (List Int) := [
  [0, 0, 0, 0, 1, 0, 0, 0, 1, 0, 0, 1, 0, 1, 1],
  [0, 0, 0, 1, 0, 0, 0, 1, 1, 0, 1, 2, 1, 3, 4],
  [0, 0, 1, 0, 0, 0, 1, 1, 0, 1, 2, 1, 3, 3, 6],
  [0, 1, 0, 0, 0, 1, 1, 0, 0, 2, 1, 0, 3, 1, 4],
  [1, 0, 0, 0, 0, 1, 0, 0, 0, 1, 0, 0, 1, 0, 1],
  [0, 0, 0, 1, 4, 0, 0, 1, 3, 0, 1, 2, 1, 1, 0],
  [0, 0, 2, 3, 0, 0, 2, 3, 3, 2, 3, 4, 3, 3, 0],
  [0, 3, 2, 0, 0, 3, 3, 2, 0, 4, 3, 2, 3, 3, 0],
  [4, 1, 0, 0, 0, 3, 1, 0, 0, 2, 1, 0, 1, 1, 0],
  [0, 0, 1, 3, 6, 0, 1, 2, 3, 1, 1, 1, 0, 0, 0],
  [0, 3, 4, 3, 0, 3, 3, 3, 3, 2, 2, 2, 0, 0, 0],
  [6, 3, 1, 0, 0, 3, 2, 1, 0, 1, 1, 1, 0, 0, 0],
  [0, 1, 2, 3, 4, 1, 1, 1, 1, 0, 0, 0, 0, 0, 0],
  [4, 3, 2, 1, 0, 1, 1, 1, 1, 0, 0, 0, 0, 0, 0],
  [1, 1, 1, 1, 1, 0, 0, 0, 0, 0, 0, 0, 0, 0, 0]]

#eval opMatrix 4 wB0 wB1 wB2 == QUARTIC_SUBDIVIDE_B_times16.map (fun row => row.map (fun (z : Int) => (z : Rat) / 16))

theorem quartic_B_ok :
    opMatrix 4 wB0 wB1 wB2 = QUARTIC_SUBDIVIDE_B_times16.map (fun row => row.map (fun (z : Int) => (z : Rat) / 16)) := by
  decide +kernel
#print axioms quartic_B_ok
