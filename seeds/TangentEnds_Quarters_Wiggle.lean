import Mathlib.Algebra.Module.LinearMap.End
import Mathlib.Algebra.Module.Pi
import Mathlib.Algebra.BigOperators.Pi
import Mathlib.Algebra.Algebra.Basic
import Mathlib.Algebra.Order.Field.Basic
import Mathlib.Tactic.Ring
import Mathlib.Tactic.Linarith

/-! Seeds for C03 (`tangent boxes ⇒ only end points can meet`, with the hypothesis the proof
    forces), C13/C10 (the four quarter triangles cover the reference triangle) and C16 (`wiggle`). -/
set_option linter.unusedSectionVars false
variable {K : Type} [Field K] [LinearOrder K] [IsStrictOrderedRing K]

def S : Module.End K (ℕ → K) where
  toFun v := fun j => v (j+1)
  map_add' _ _ := rfl
  map_smul' _ _ := rfl
def T (a b : K) : Module.End K (ℕ → K) := a • (1 : Module.End K (ℕ → K)) + b • S
theorem T_apply (a b : K) (v : ℕ → K) (j : ℕ) : T a b v j = a * v j + b * v (j+1) := by
  simp [T, S]

theorem T_pow_le (t M : K) (ht0 : 0 ≤ t) (ht1 : t ≤ 1) : ∀ (n i : ℕ) (u : ℕ → K),
    (∀ j, i ≤ j → j ≤ i + n → u j ≤ M) → ((T (1-t) t)^n) u i ≤ M := by
  intro n
  induction n with
  | zero => intro i u h; simpa using h i le_rfl (by omega)
  | succ n ih =>
    intro i u h
    rw [pow_succ', Module.End.mul_apply, T_apply]
    have h1 := ih i u (fun j a b => h j a (by omega))
    have h2 := ih (i+1) u (fun j a b => h j (by omega) (by omega))
    nlinarith [mul_le_mul_of_nonneg_left h1 (sub_nonneg.mpr ht1), mul_le_mul_of_nonneg_left h2 ht0]

/-- interior parameter + one control value strictly below the bound ⇒ the curve value is strictly below -/
theorem T_pow_lt_of_exists (t M : K) (ht0 : 0 < t) (ht1 : t < 1) : ∀ (n i : ℕ) (u : ℕ → K),
    (∀ j, i ≤ j → j ≤ i + n → u j ≤ M) → (∃ k, i ≤ k ∧ k ≤ i + n ∧ u k < M) →
    ((T (1-t) t)^n) u i < M := by
  intro n
  induction n with
  | zero =>
    intro i u _ ⟨k, hk1, hk2, hk⟩
    have : k = i := by omega
    simpa [this] using hk
  | succ n ih =>
    intro i u hle ⟨k, hk1, hk2, hk⟩
    rw [pow_succ', Module.End.mul_apply, T_apply]
    have leX : ((T (1-t) t)^n) u i ≤ M :=
      T_pow_le t M ht0.le ht1.le n i u (fun j a b => hle j a (by omega))
    have leY : ((T (1-t) t)^n) u (i+1) ≤ M :=
      T_pow_le t M ht0.le ht1.le n (i+1) u (fun j a b => hle j (by omega) (by omega))
    by_cases hk3 : k ≤ i + n
    · have ltX := ih i u (fun j a b => hle j a (by omega)) ⟨k, hk1, hk3, hk⟩
      nlinarith [mul_pos (sub_pos.mpr ht1) (sub_pos.mpr ltX), mul_nonneg ht0.le (sub_nonneg.mpr leY)]
    · have ltY := ih (i+1) u (fun j a b => hle j (by omega) (by omega)) ⟨k, by omega, by omega, hk⟩
      nlinarith [mul_pos ht0 (sub_pos.mpr ltY), mul_nonneg (sub_pos.mpr ht1).le (sub_nonneg.mpr leX)]

/-- C03: if the x-values of a curve are all ≤ c, not all equal to c, then x(s) = c forces s ∈ {0,1}
    (this is why, for tangent boxes, only end points need to be compared — and why the
    hypothesis "not all equal" cannot be dropped: F-E) -/
theorem touches_bound_only_at_ends (n : ℕ) (u : ℕ → K) (c s : K) (hs0 : 0 ≤ s) (hs1 : s ≤ 1)
    (hle : ∀ j ≤ n, u j ≤ c) (hk : ∃ k ≤ n, u k < c)
    (htouch : ((T (1-s) s)^n) u 0 = c) : s = 0 ∨ s = 1 := by
  by_contra hcon
  push Not at hcon
  have h0 : 0 < s := lt_of_le_of_ne hs0 (Ne.symm hcon.1)
  have h1 : s < 1 := lt_of_le_of_ne hs1 hcon.2
  obtain ⟨k, hkn, hkc⟩ := hk
  have := T_pow_lt_of_exists s c h0 h1 n 0 u (fun j _ b => hle j (by omega)) ⟨k, by omega, by omega, hkc⟩
  exact absurd htouch (ne_of_lt this)

/-- the four quarters cover the reference triangle, with local barycentric coordinates ≥ 0 summing to 1 -/
theorem quarters_cover (l1 l2 l3 : K) (h1 : 0 ≤ l1) (h2 : 0 ≤ l2) (h3 : 0 ≤ l3) (hs : l1 + l2 + l3 = 1) :
    -- A: lower-left  (corner weights (1,0,0),(½,½,0),(½,0,½))
    (∃ m1 m2 m3 : K, 0 ≤ m1 ∧ 0 ≤ m2 ∧ 0 ≤ m3 ∧ m1 + m2 + m3 = 1 ∧
        l1 = m1 + m2/2 + m3/2 ∧ l2 = m2/2 ∧ l3 = m3/2) ∨
    -- B: centre (rotated) (0,½,½),(½,0,½),(½,½,0)
    (∃ m1 m2 m3 : K, 0 ≤ m1 ∧ 0 ≤ m2 ∧ 0 ≤ m3 ∧ m1 + m2 + m3 = 1 ∧
        l1 = m2/2 + m3/2 ∧ l2 = m1/2 + m3/2 ∧ l3 = m1/2 + m2/2) ∨
    -- C: lower-right (½,½,0),(0,1,0),(0,½,½)
    (∃ m1 m2 m3 : K, 0 ≤ m1 ∧ 0 ≤ m2 ∧ 0 ≤ m3 ∧ m1 + m2 + m3 = 1 ∧
        l1 = m1/2 ∧ l2 = m1/2 + m2 + m3/2 ∧ l3 = m3/2) ∨
    -- D: upper-left (½,0,½),(0,½,½),(0,0,1)
    (∃ m1 m2 m3 : K, 0 ≤ m1 ∧ 0 ≤ m2 ∧ 0 ≤ m3 ∧ m1 + m2 + m3 = 1 ∧
        l1 = m1/2 ∧ l2 = m2/2 ∧ l3 = m1/2 + m2/2 + m3) := by
  by_cases hA : 1/2 ≤ l1
  · left; exact ⟨2*l1 - 1, 2*l2, 2*l3, by linarith, by linarith, by linarith, by linarith, by ring_nf; linarith, by ring, by ring⟩
  · by_cases hC : 1/2 ≤ l2
    · right; right; left
      exact ⟨2*l1, 2*l2 - 1, 2*l3, by linarith, by linarith, by linarith, by linarith, by ring, by ring_nf; linarith, by ring⟩
    · by_cases hD : 1/2 ≤ l3
      · right; right; right
        exact ⟨2*l1, 2*l2, 2*l3 - 1, by linarith, by linarith, by linarith, by linarith, by ring, by ring, by ring_nf; linarith⟩
      · right; left
        push Not at hA hC hD
        exact ⟨1 - 2*l1, 1 - 2*l2, 1 - 2*l3, by linarith, by linarith, by linarith, by linarith,
          by linarith, by linarith, by linarith⟩

/-- `wiggle_interval` -/
def wiggle (w v : K) : Option K :=
  if -w < v ∧ v < w then some 0
  else if w ≤ v ∧ v ≤ 1 - w then some v
  else if 1 - w < v ∧ v < 1 + w then some 1
  else none

theorem wiggle_spec (w v x : K) (hw0 : 0 < w) (hw : w < 1/2) (h : wiggle w v = some x) :
    0 ≤ x ∧ x ≤ 1 ∧ |x - v| < w := by
  unfold wiggle at h
  split_ifs at h with h1 h2 h3 <;> simp only [Option.some.injEq] at h <;> subst h
  · refine ⟨le_rfl, by linarith, ?_⟩; rw [abs_lt]; constructor <;> linarith [h1.1, h1.2]
  · refine ⟨by linarith [h2.1], by linarith [h2.2], ?_⟩; simp [hw0]
  · refine ⟨by linarith, le_rfl, ?_⟩; rw [abs_lt]; constructor <;> linarith [h3.1, h3.2]

theorem wiggle_none_iff (w v : K) (hw0 : 0 < w) (hw : w < 1/2) :
    wiggle w v = none ↔ (v ≤ -w ∨ 1 + w ≤ v) := by
  unfold wiggle
  split_ifs with h1 h2 h3
  · simp; constructor <;> linarith [h1.1, h1.2]
  · simp; constructor <;> linarith [h2.1, h2.2]
  · simp; constructor <;> linarith [h3.1, h3.2]
  · simp only [true_iff]
    by_contra hcon
    push Not at hcon h1 h2 h3
    obtain ⟨c1, c2⟩ := hcon
    by_cases a : v < w
    · exact absurd (h1 c1) (not_le.mpr a)
    · push Not at a
      by_cases b : v ≤ 1 - w
      · exact absurd (h2 a) (not_lt.mpr b)
      · push Not at b
        exact absurd (h3 b) (not_le.mpr c2)
#print axioms quarters_cover
#print axioms wiggle_spec
#print axioms wiggle_none_iff
#print axioms touches_bound_only_at_ends
