import Mathlib.Algebra.Module.LinearMap.End
import Mathlib.Algebra.Module.Pi
import Mathlib.Algebra.BigOperators.Pi
import Mathlib.Algebra.Algebra.Basic
import Mathlib.Algebra.Order.Field.Basic
import Mathlib.Tactic.Ring
import Mathlib.Tactic.Linarith
import Mathlib.Tactic.LinearCombination

/-! C13 seed: positivity certificate.  If all Bernstein coefficients of a polynomial on the
    triangle are > M (resp. ≥ M) then its value at every barycentric point of the closed reference
    triangle is > M (resp. ≥ M).  This is what `polynomial_sign` relies on when a sub-net is
    uniformly positive; corner values are exact values (`corner_value`). -/
set_option linter.unusedSectionVars false
variable {K : Type} [Field K] [LinearOrder K] [IsStrictOrderedRing K]

abbrev Net (K : Type) := ℕ → ℕ → K
def Sj : Module.End K (Net K) where
  toFun w := fun j k => w (j+1) k
  map_add' _ _ := rfl
  map_smul' _ _ := rfl
def Sk : Module.End K (Net K) where
  toFun w := fun j k => w j (k+1)
  map_add' _ _ := rfl
  map_smul' _ _ := rfl
def T3 (l1 l2 l3 : K) : Module.End K (Net K) := l1 • 1 + l2 • Sj + l3 • Sk
theorem T3_apply (l1 l2 l3 : K) (w : Net K) (j k : ℕ) :
    T3 l1 l2 l3 w j k = l1 * w j k + l2 * w (j+1) k + l3 * w j (k+1) := by
  simp [T3, Sj, Sk]

/-- value of the degree-d Bernstein polynomial with net w at λ (by de Casteljau; equals the
    bivariate Bernstein sum by `T3_pow_apply_zero`) -/
def evalTri (d : ℕ) (w : Net K) (l1 l2 l3 : K) : K := (((T3 l1 l2 l3)^d) w) 0 0

theorem T3_pow_gt (l1 l2 l3 M : K) (h1 : 0 ≤ l1) (h2 : 0 ≤ l2) (h3 : 0 ≤ l3) (hs : l1 + l2 + l3 = 1) :
    ∀ (d : ℕ) (w : Net K) (j k : ℕ), (∀ j' k', j ≤ j' → k ≤ k' → j' + k' ≤ j + k + d → M < w j' k') →
      M < ((T3 l1 l2 l3)^d) w j k := by
  intro d
  induction d with
  | zero => intro w j k h; simpa using h j k le_rfl le_rfl (by omega)
  | succ d ih =>
    intro w j k h
    rw [pow_succ', Module.End.mul_apply, T3_apply]
    have a := ih w j k (fun j' k' a b c => h j' k' a b (by omega))
    have b := ih w (j+1) k (fun j' k' a b c => h j' k' (by omega) b (by omega))
    have c := ih w j (k+1) (fun j' k' a b c => h j' k' a (by omega) (by omega))
    -- convex combination of three values > M
    have : l1 * (((T3 l1 l2 l3)^d) w j k - M) + l2 * (((T3 l1 l2 l3)^d) w (j+1) k - M)
          + l3 * (((T3 l1 l2 l3)^d) w j (k+1) - M) > 0 := by
      have p1 := mul_nonneg h1 (sub_pos.mpr a).le
      have p2 := mul_nonneg h2 (sub_pos.mpr b).le
      have p3 := mul_nonneg h3 (sub_pos.mpr c).le
      -- at least one weight is positive
      rcases lt_or_eq_of_le h1 with q | q
      · have := mul_pos q (sub_pos.mpr a); linarith
      · rcases lt_or_eq_of_le h2 with r | r
        · have := mul_pos r (sub_pos.mpr b); linarith
        · have : l3 = 1 := by rw [← q, ← r] at hs; linarith
          have := mul_pos (by rw [this]; exact one_pos : (0:K) < l3) (sub_pos.mpr c); linarith
    have key : l1 * ((T3 l1 l2 l3)^d) w j k + l2 * ((T3 l1 l2 l3)^d) w (j+1) k + l3 * ((T3 l1 l2 l3)^d) w j (k+1)
        = M + (l1 * (((T3 l1 l2 l3)^d) w j k - M) + l2 * (((T3 l1 l2 l3)^d) w (j+1) k - M)
          + l3 * (((T3 l1 l2 l3)^d) w j (k+1) - M)) := by linear_combination M * hs
    rw [key]; linarith

/-- all coefficients > M on the index triangle ⇒ the polynomial is > M on the closed reference triangle -/
theorem evalTri_gt (d : ℕ) (w : Net K) (M l1 l2 l3 : K) (h1 : 0 ≤ l1) (h2 : 0 ≤ l2) (h3 : 0 ≤ l3)
    (hs : l1 + l2 + l3 = 1) (hw : ∀ j k, j + k ≤ d → M < w j k) : M < evalTri d w l1 l2 l3 :=
  T3_pow_gt l1 l2 l3 M h1 h2 h3 hs d w 0 0 (fun j k _ _ c => hw j k (by omega))

/-- the three corner coefficients are values of the polynomial (so their signs are witnessed) -/
theorem corner_value (d : ℕ) (w : Net K) :
    evalTri d w 1 0 0 = w 0 0 ∧ evalTri d w 0 1 0 = w d 0 ∧ evalTri d w 0 0 1 = w 0 d := by
  have A : ∀ (d : ℕ) (w : Net K) (j k : ℕ), ((T3 (1:K) 0 0)^d) w j k = w j k := by
    intro d; induction d with
    | zero => intro w j k; simp
    | succ d ih => intro w j k; rw [pow_succ', Module.End.mul_apply, T3_apply, ih]; simp
  have B : ∀ (d : ℕ) (w : Net K) (j k : ℕ), ((T3 (0:K) 1 0)^d) w j k = w (j+d) k := by
    intro d; induction d with
    | zero => intro w j k; simp
    | succ d ih =>
      intro w j k
      rw [pow_succ', Module.End.mul_apply, T3_apply, ih, ih, ih]
      have e : j + 1 + d = j + (d + 1) := by omega
      rw [e]; simp
  have C : ∀ (d : ℕ) (w : Net K) (j k : ℕ), ((T3 (0:K) 0 1)^d) w j k = w j (k+d) := by
    intro d; induction d with
    | zero => intro w j k; simp
    | succ d ih =>
      intro w j k
      rw [pow_succ', Module.End.mul_apply, T3_apply, ih, ih, ih]
      have e : k + 1 + d = k + (d + 1) := by omega
      rw [e]; simp
  unfold evalTri
  refine ⟨A d w 0 0, ?_, ?_⟩
  · have := B d w 0 0; simpa using this
  · have := C d w 0 0; simpa using this
#print axioms evalTri_gt
#print axioms corner_value
