import Mathlib.Data.Nat.Choose.Sum
import Mathlib.Algebra.BigOperators.Ring.Finset
import Mathlib.Algebra.BigOperators.Intervals
import Mathlib.Tactic.Ring
import Mathlib.Tactic.Linarith
import Mathlib.Tactic.FieldSimp
import Mathlib.Algebra.CharZero.Defs
import Mathlib.Data.Nat.Cast.Field

open Finset

/-! Faithful functional transcription of `evaluate_multi_vs` for one row / one parameter pair.
    State after the loop body for `index`: (result, binom_val, lambda2_pow). -/
structure VSState (K : Type) where
  result : K
  binom : K
  pow : K

variable {K : Type} [Field K] [CharZero K]

def vsStep (degree : ℕ) (l1 l2 : K) (v : ℕ → K) (st : VSState K) (index : ℕ) : VSState K :=
  let pow := st.pow * l2
  let binom := (st.binom * ((degree - index + 1 : ℕ) : K)) / (index : K)
  { result := (st.result + binom * pow * v index) * l1, binom := binom, pow := pow }

def vsLoop (degree : ℕ) (l1 l2 : K) (v : ℕ → K) : ℕ → VSState K
  | 0 => { result := l1 * v 0, binom := 1, pow := 1 }
  | i+1 => vsStep degree l1 l2 v (vsLoop degree l1 l2 v i) (i+1)

/-- whole algorithm, degree ≥ 1 -/
def evalVS (degree : ℕ) (l1 l2 : K) (v : ℕ → K) : K :=
  let st := vsLoop degree l1 l2 v (degree - 1)
  st.result + l2 * st.pow * v degree

theorem vsLoop_inv (n : ℕ) (l1 l2 : K) (v : ℕ → K) : ∀ i, i < n →
    (vsLoop n l1 l2 v i).binom = (n.choose i : K) ∧
    (vsLoop n l1 l2 v i).pow = l2^i ∧
    (vsLoop n l1 l2 v i).result = ∑ j ∈ range (i+1), (n.choose j : K) * l1^(i+1-j) * l2^j * v j := by
  intro i
  induction i with
  | zero => intro _; simp [vsLoop]
  | succ i ih =>
    intro hi
    obtain ⟨hb, hp, hr⟩ := ih (by omega)
    have hbin : (vsLoop n l1 l2 v (i+1)).binom = (n.choose (i+1) : K) := by
      simp only [vsLoop, vsStep, hb]
      have h1 : (n.choose (i+1)) * (i+1) = n.choose i * (n - i) := Nat.choose_succ_right_eq n i
      have hne : ((i+1 : ℕ) : K) ≠ 0 := Nat.cast_ne_zero.mpr (Nat.succ_ne_zero i)
      rw [div_eq_iff hne]
      have : n - (i+1) + 1 = n - i := by omega
      rw [this]
      exact_mod_cast h1.symm
    refine ⟨hbin, ?_, ?_⟩
    · simp [vsLoop, vsStep, hp, pow_succ]
    · have hpow : (vsLoop n l1 l2 v (i+1)).pow = l2^(i+1) := by simp [vsLoop, vsStep, hp, pow_succ]
      have hres : (vsLoop n l1 l2 v (i+1)).result =
          ((vsLoop n l1 l2 v i).result + (vsLoop n l1 l2 v (i+1)).binom * (vsLoop n l1 l2 v (i+1)).pow * v (i+1)) * l1 := by
        simp [vsLoop, vsStep]
      rw [hres, hbin, hpow, hr, Finset.sum_range_succ _ (i+1), add_mul, Finset.sum_mul]
      congr 1
      · apply Finset.sum_congr rfl
        intro j hj
        have : i + 1 + 1 - j = (i + 1 - j) + 1 := by have := mem_range.mp hj; omega
        rw [this, pow_succ]; ring
      · simp; ring

theorem evalVS_eq_bern (n : ℕ) (hn : 1 ≤ n) (l1 l2 : K) (v : ℕ → K) :
    evalVS n l1 l2 v = ∑ j ∈ range (n+1), (n.choose j : K) * l1^(n-j) * l2^j * v j := by
  unfold evalVS
  obtain ⟨_, hp, hr⟩ := vsLoop_inv n l1 l2 v (n-1) (by omega)
  simp only [hp, hr]
  have : n - 1 + 1 = n := by omega
  rw [this, Finset.sum_range_succ _ n]
  congr 1
  simp
  have : l2 * l2^(n-1) = l2^n := by rw [← pow_succ']; congr 1
  rw [this]; exact Or.inl rfl
#print axioms evalVS_eq_bern
