#!/bin/sh
# Build the framework from files on disk only (offline): package from /repo's working tree,
# extracted data, Lean library (model, lemmas, theorems, table obligations) and the native driver.
set -e
cd "$(dirname "$0")"
/venv/bin/python harness/build_repo.py
/venv/bin/python harness/extract.py
/venv/bin/python harness/extract_algebraic.py
/venv/bin/python harness/extract_quadpack.py
/venv/bin/python harness/extract_quadpack_adaptive.py
/venv/bin/python harness/translate_py.py
/venv/bin/python harness/translate_f90.py
cd lean
lake build driver
lake build BezierVerif
